//! C08 harness: vehicle energy and battery state along a route.
//! Streams `route` (no prediction cache) and `cache` (FloatCachePolicy on every record).
//!
//! Every case builds REAL objects: a speed table and a grade table written to files under --out,
//! SpeedTraversalEngine / SpeedLookupService, ICE / BEV / PHEV over PredictionModelRecord whose
//! `prediction_model` is the affine predictor below (so that model and code agree bit for bit),
//! EnergyModelService::new, TraversalModelService::build(query) (= EnergyTraversalModel::new +
//! update_from_query), StateModel::extend(state_features()), then TraversalModel::traverse_edge over
//! the edge sequence, estimate_traversal and best_case_energy.
use routee_compass_core::model::network::{Edge, Vertex};
use routee_compass_core::model::state::state_feature::StateFeature;
use routee_compass_core::model::state::state_model::StateModel;
use routee_compass_core::model::state::state_model_error::StateModelError;
use routee_compass_core::model::traversal::default::speed_traversal_engine::SpeedTraversalEngine;
use routee_compass_core::model::traversal::default::speed_traversal_service::SpeedLookupService;
use routee_compass_core::model::traversal::traversal_model::TraversalModel;
use routee_compass_core::model::traversal::traversal_model_error::TraversalModelError;
use routee_compass_core::model::traversal::traversal_model_service::TraversalModelService;
use routee_compass_core::model::unit::{
    as_f64::AsF64, Distance, DistanceUnit, Energy, EnergyRate, EnergyRateUnit, EnergyUnit, Grade, GradeUnit, Speed,
    SpeedUnit, TimeUnit, UnitError,
};
use routee_compass_core::util::cache_policy::float_cache_policy::{FloatCachePolicy, FloatCachePolicyConfig};
use routee_compass_core::util::geo::haversine;
use routee_compass_powertrain::routee::energy_model_service::EnergyModelService;
use routee_compass_powertrain::routee::energy_traversal_model::EnergyTraversalModel;
use routee_compass_powertrain::routee::prediction::{model_type::ModelType, PredictionModel, PredictionModelRecord};
use routee_compass_powertrain::routee::vehicle::default::{bev::BEV, ice::ICE, phev::PHEV};
use routee_compass_powertrain::routee::vehicle::VehicleType;
use serde::{Deserialize, Serialize};
use serde_json::{json, Value};
use std::collections::HashMap;
use std::path::{Path, PathBuf};
use std::sync::Arc;
use verif_harness::*;

// ------------------------------------------------------------------ exact f64 in case descriptions
mod bits {
    use serde::{Deserialize, Deserializer, Serializer};
    pub fn serialize<S: Serializer>(x: &f64, s: S) -> Result<S::Ok, S::Error> {
        s.serialize_str(&format!("{:016x}", x.to_bits()))
    }
    pub fn deserialize<'de, D: Deserializer<'de>>(d: D) -> Result<f64, D::Error> {
        let s = String::deserialize(d)?;
        Ok(f64::from_bits(u64::from_str_radix(&s, 16).map_err(serde::de::Error::custom)?))
    }
}
mod bits_vec {
    use serde::{Deserialize, Deserializer, Serializer};
    pub fn serialize<S: Serializer>(xs: &Vec<f64>, s: S) -> Result<S::Ok, S::Error> {
        s.collect_seq(xs.iter().map(|x| format!("{:016x}", x.to_bits())))
    }
    pub fn deserialize<'de, D: Deserializer<'de>>(d: D) -> Result<Vec<f64>, D::Error> {
        let v = Vec::<String>::deserialize(d)?;
        v.iter()
            .map(|s| u64::from_str_radix(s, 16).map(f64::from_bits).map_err(serde::de::Error::custom))
            .collect()
    }
}
mod bits_opt_vec {
    use serde::{Deserialize, Deserializer, Serializer};
    pub fn serialize<S: Serializer>(xs: &Option<Vec<f64>>, s: S) -> Result<S::Ok, S::Error> {
        match xs {
            None => s.serialize_none(),
            Some(v) => s.collect_seq(v.iter().map(|x| format!("{:016x}", x.to_bits()))),
        }
    }
    pub fn deserialize<'de, D: Deserializer<'de>>(d: D) -> Result<Option<Vec<f64>>, D::Error> {
        let v = Option::<Vec<String>>::deserialize(d)?;
        match v {
            None => Ok(None),
            Some(v) => v
                .iter()
                .map(|s| u64::from_str_radix(s, 16).map(f64::from_bits).map_err(serde::de::Error::custom))
                .collect::<Result<Vec<f64>, _>>()
                .map(Some),
        }
    }
}

// ------------------------------------------------------------------ the predictor
/// rate = a + b * speed + c * grade on inputs converted to the model's units, exactly as the
/// Smartcore / ONNX models convert them before calling the regressor
struct ArithModel {
    a: f64,
    b: f64,
    c: f64,
    speed_unit: SpeedUnit,
    grade_unit: GradeUnit,
    energy_rate_unit: EnergyRateUnit,
}
impl PredictionModel for ArithModel {
    fn predict(
        &self,
        speed: (Speed, SpeedUnit),
        grade: (Grade, GradeUnit),
    ) -> Result<(EnergyRate, EnergyRateUnit), TraversalModelError> {
        let (speed, speed_unit) = speed;
        let (grade, grade_unit) = grade;
        let speed_value = speed_unit.convert(&speed, &self.speed_unit).as_f64();
        let grade_value = grade_unit.convert(&grade, &self.grade_unit).as_f64();
        let y = self.a + self.b * speed_value + self.c * grade_value;
        Ok((EnergyRate::new(y), self.energy_rate_unit))
    }
}

#[derive(Clone, Debug, Serialize, Deserialize)]
struct Rec {
    #[serde(with = "bits")]
    a: f64,
    #[serde(with = "bits")]
    b: f64,
    #[serde(with = "bits")]
    c: f64,
    su: SpeedUnit,
    gu: GradeUnit,
    eru: EnergyRateUnit,
    #[serde(with = "bits")]
    ideal: f64,
    #[serde(with = "bits")]
    adj: f64,
    /// cache_size, key_precisions [speed, grade]
    cache: Option<(usize, i32, i32)>,
}
#[derive(Clone, Debug, Serialize, Deserialize)]
enum Veh {
    Ice(Rec),
    Bev(Rec, #[serde(with = "bits")] f64, EnergyUnit),
    Phev(Rec, Rec, #[serde(with = "bits")] f64, EnergyUnit),
}
#[derive(Clone, Debug, Serialize, Deserialize)]
enum Query {
    Missing,
    Null,
    Bool(bool),
    /// [50] : a number wrapped in an array
    Arr,
    /// {"value": 50}
    Obj,
    Str(String),
    Int(i64),
    Float(#[serde(with = "bits")] f64),
}
#[derive(Clone, Debug, Serialize, Deserialize)]
struct Case {
    veh: Veh,
    query: Query,
    #[serde(with = "bits_vec")]
    speeds: Vec<f64>,
    en_su: SpeedUnit,
    en_tu: TimeUnit,
    en_du: DistanceUnit,
    sv_su: SpeedUnit,
    #[serde(with = "bits_opt_vec")]
    grades: Option<Vec<f64>>,
    sv_gu: GradeUnit,
    sv_du: DistanceUnit,
    sm: Option<(EnergyUnit, EnergyUnit, TimeUnit, DistanceUnit)>,
    /// (edge id, length in meters)
    edge_ids: Vec<usize>,
    #[serde(with = "bits_vec")]
    edge_len: Vec<f64>,
    /// src / dst of estimate_traversal (x, y as f32 widened)
    src: (f32, f32),
    dst: (f32, f32),
    /// exhibit of the cache returning another input's value (D-CACHE)
    collision: bool,
    /// features a [state] configuration section declares before the model's (StateModel::try_from)
    #[serde(default)]
    pre: Vec<PF>,
    /// the query's `state_features` overrides (search_app_ops::collect_features appends them)
    #[serde(default)]
    over: Vec<PF>,
}
#[derive(Clone, Debug, Serialize, Deserialize)]
enum PFK {
    Energy(EnergyUnit, #[serde(with = "bits")] f64),
    Time(TimeUnit, #[serde(with = "bits")] f64),
    Distance(DistanceUnit, #[serde(with = "bits")] f64),
    Soc(#[serde(with = "bits")] f64),
}
#[derive(Clone, Debug, Serialize, Deserialize)]
struct PF {
    name: String,
    kind: PFK,
}
fn pf_json(f: &PF) -> Value {
    match &f.kind {
        PFK::Energy(u, i) => json!({"energy_unit": serde_json::to_value(u).unwrap(), "initial": i}),
        PFK::Time(u, i) => json!({"time_unit": serde_json::to_value(u).unwrap(), "initial": i}),
        PFK::Distance(u, i) => json!({"distance_unit": serde_json::to_value(u).unwrap(), "initial": i}),
        PFK::Soc(i) => json!({"type": "soc", "unit": "percent", "format": {"floating_point": {"initial": i}}}),
    }
}
fn pfs_json(fs: &[PF]) -> Value {
    let mut m = serde_json::Map::new();
    for f in fs {
        m.insert(f.name.clone(), pf_json(f));
    }
    Value::Object(m)
}
fn coq_pfs(fs: &[PF]) -> String {
    coq_list(fs, |f| {
        format!(
            "({}, {})",
            coq_string(&f.name),
            match &f.kind {
                PFK::Energy(u, i) => format!("RFEnergy {} {}", dbg(u), coq_f64(*i)),
                PFK::Time(u, i) => format!("RFTime {} {}", dbg(u), coq_f64(*i)),
                PFK::Distance(u, i) => format!("RFDistance {} {}", dbg(u), coq_f64(*i)),
                PFK::Soc(i) => format!("RFSoc {}", coq_f64(*i)),
            }
        )
    })
}

// ------------------------------------------------------------------ building the real objects
fn record(r: &Rec) -> PredictionModelRecord {
    PredictionModelRecord {
        name: "m".to_string(),
        prediction_model: Arc::new(ArithModel {
            a: r.a,
            b: r.b,
            c: r.c,
            speed_unit: r.su,
            grade_unit: r.gu,
            energy_rate_unit: r.eru,
        }),
        model_type: ModelType::Smartcore,
        speed_unit: r.su,
        grade_unit: r.gu,
        energy_rate_unit: r.eru,
        ideal_energy_rate: EnergyRate::new(r.ideal),
        real_world_energy_adjustment: r.adj,
        cache: r.cache.map(|(size, ps, pg)| {
            FloatCachePolicy::from_config(FloatCachePolicyConfig { cache_size: size, key_precisions: vec![ps, pg] }).unwrap()
        }),
    }
}
/// as energy_model_vehicle_builders.rs builds them: starting energy = capacity
fn vehicle(v: &Veh) -> Arc<dyn VehicleType> {
    match v {
        Veh::Ice(r) => Arc::new(ICE::new("veh".to_string(), record(r)).unwrap()),
        Veh::Bev(r, cap, bu) => {
            Arc::new(BEV::new("veh".to_string(), record(r), Energy::new(*cap), Energy::new(*cap), *bu))
        }
        Veh::Phev(cs, cd, cap, bu) => Arc::new(
            PHEV::new("veh".to_string(), record(cs), record(cd), Energy::new(*cap), Energy::new(*cap), *bu, None).unwrap(),
        ),
    }
}
fn query_json(q: &Query) -> Value {
    query_json_for(q, "veh")
}
fn query_json_for(q: &Query, model_name: &str) -> Value {
    let mut m = json!({"model_name": model_name});
    match q {
        Query::Missing => {}
        Query::Null => m["starting_soc_percent"] = Value::Null,
        Query::Bool(b) => m["starting_soc_percent"] = json!(b),
        Query::Arr => m["starting_soc_percent"] = json!([50]),
        Query::Obj => m["starting_soc_percent"] = json!({"value": 50}),
        Query::Str(s) => m["starting_soc_percent"] = json!(s),
        Query::Int(i) => m["starting_soc_percent"] = json!(i),
        Query::Float(x) => m["starting_soc_percent"] = json!(x),
    }
    m
}
fn class_state(e: &StateModelError) -> String {
    let v = match e {
        StateModelError::EncodeError(..) => "EncodeError",
        StateModelError::DecodeError(..) => "DecodeError",
        StateModelError::ValueError(..) => "ValueError",
        StateModelError::UnknownStateVariableName(..) => "UnknownStateVariableName",
        StateModelError::InvalidStateVariableIndex(..) => "InvalidStateVariableIndex",
        StateModelError::UnexpectedFeatureType(..) => "UnexpectedFeatureType",
        StateModelError::UnexpectedFeatureUnit(..) => "UnexpectedFeatureUnit",
        StateModelError::BuildError(..) => "BuildError",
        StateModelError::RuntimeError(..) => "RuntimeError",
    };
    format!("State:{}", v)
}
fn class_err(e: &TraversalModelError) -> String {
    match e {
        TraversalModelError::BuildError(_) => "BuildError".into(),
        TraversalModelError::TraversalModelFailure(_) => "TraversalModelFailure".into(),
        TraversalModelError::InternalError(_) => "InternalError".into(),
        TraversalModelError::UnitsFailure { source } => format!(
            "Units:{}",
            match source {
                UnitError::NumericParsingError(_) => "NumericParsingError",
                UnitError::InvalidSpeed(_) => "InvalidSpeed",
                UnitError::SpeedFromTimeAndDistanceError(..) => "SpeedFromTimeAndDistanceError",
                UnitError::TimeFromSpeedAndDistanceError(..) => "TimeFromSpeedAndDistanceError",
            }
        ),
        TraversalModelError::CacheFailure { .. } => "CacheFailure".into(),
        TraversalModelError::NetworkFailure { .. } => "NetworkFailure".into(),
        TraversalModelError::StateError { source } => class_state(source),
    }
}

type RS = Result<Vec<f64>, String>;
struct Outcome {
    start: RS,
    edges: Vec<RS>,
    est: RS,
    bc: Result<(f64, EnergyUnit), String>,
}

fn write_table(path: &Path, xs: &[f64]) {
    // `{}` prints the shortest decimal that parses back to the same binary64
    let s: String = xs.iter().map(|x| format!("{}\n", x)).collect();
    std::fs::write(path, s).unwrap();
}

fn state_vec(st: &[routee_compass_core::model::traversal::state::state_variable::StateVar]) -> Vec<f64> {
    st.iter().map(|v| v.0).collect()
}

fn fail(e: String) -> Outcome {
    Outcome { start: Err(e.clone()), edges: vec![], est: Err(e.clone()), bc: Err(e) }
}

/// EnergyModelService over a speed-table time model, tables read from files, the given vehicle library
fn make_service(
    c: &Case,
    library: HashMap<String, Arc<dyn VehicleType>>,
    dir: &Path,
    id: usize,
) -> Result<EnergyModelService, String> {
    let sp = dir.join(format!("speeds_{}.txt", id));
    let gp = dir.join(format!("grades_{}.txt", id));
    write_table(&sp, &c.speeds);
    let grade_path: Option<PathBuf> = c.grades.as_ref().map(|g| {
        write_table(&gp, g);
        gp.clone()
    });
    let engine = SpeedTraversalEngine::new(&sp, c.en_su, Some(c.en_du), Some(c.en_tu)).map_err(|e| class_err(&e))?;
    let time_service = SpeedLookupService { e: Arc::new(engine) };
    let service =
        EnergyModelService::new(Arc::new(time_service), c.sv_su, &grade_path, c.sv_gu, None, Some(c.sv_du), library)
            .map_err(|e| class_err(&e))?;
    let _ = std::fs::remove_file(&sp);
    let _ = std::fs::remove_file(&gp);
    Ok(service)
}

/// state model, initial state, the edges, the estimate -- on a model the service built for a query
fn drive(model: &Arc<dyn TraversalModel>, c: &Case) -> Result<(Vec<f64>, Vec<RS>, RS), String> {
    let features = model.state_features();
    let sm_res = match &c.sm {
        None if !c.pre.is_empty() || !c.over.is_empty() => {
            // the application's assembly: [state] section -> StateModel::try_from, then extend with
            // collect_features(query with `state_features`, traversal model, access model)
            use routee_compass::app::search::search_app_ops::collect_features;
            use routee_compass_core::model::access::default::no_access_model::NoAccessModel;
            let base = if c.pre.is_empty() {
                Ok(StateModel::empty())
            } else {
                StateModel::try_from(&pfs_json(&c.pre))
            };
            let mut q = json!({});
            if !c.over.is_empty() {
                q["state_features"] = pfs_json(&c.over);
            }
            match base {
                Ok(b) => match collect_features(&q, model.clone(), Arc::new(NoAccessModel {})) {
                    Ok(fs) => b.extend(fs),
                    Err(e) => Err(e),
                },
                Err(e) => Err(e),
            }
        }
        None => StateModel::empty().extend(features),
        Some((fe, fl, ft, fd)) => {
            let feats: Vec<(String, StateFeature)> = features
                .into_iter()
                .map(|(n, f)| {
                    let g = match f {
                        StateFeature::Energy { energy_unit: _, initial } => StateFeature::Energy {
                            energy_unit: if n == "energy_electric" { *fe } else { *fl },
                            initial,
                        },
                        StateFeature::Time { time_unit: _, initial } => StateFeature::Time { time_unit: *ft, initial },
                        StateFeature::Distance { distance_unit: _, initial } => {
                            StateFeature::Distance { distance_unit: *fd, initial }
                        }
                        other => other,
                    };
                    (n, g)
                })
                .collect();
            StateModel::empty().extend(feats)
        }
    };
    let sm = sm_res.map_err(|e| class_state(&e))?;
    let st0 = sm.initial_state().map_err(|e| class_state(&e))?;
    let v = Vertex::new(0, 0.0, 0.0);
    let mut edges = vec![];
    let mut st = st0.clone();
    for (eid, len) in c.edge_ids.iter().zip(c.edge_len.iter()) {
        let e = Edge::new(*eid, 0, 1, *len);
        match model.traverse_edge((&v, &e, &v), &mut st, &sm) {
            Ok(()) => edges.push(Ok(state_vec(&st))),
            Err(err) => {
                edges.push(Err(class_err(&err)));
                break;
            }
        }
    }
    let src = Vertex::new(0, c.src.0, c.src.1);
    let dst = Vertex::new(1, c.dst.0, c.dst.1);
    let mut st_e = st0.clone();
    let est = match model.estimate_traversal((&src, &dst), &mut st_e, &sm) {
        Ok(()) => Ok(state_vec(&st_e)),
        Err(err) => Err(class_err(&err)),
    };
    Ok((state_vec(&st0), edges, est))
}
fn hav_in(c: &Case) -> Distance {
    let src = Vertex::new(0, c.src.0, c.src.1);
    let dst = Vertex::new(1, c.dst.0, c.dst.1);
    haversine::coord_distance(&src.coordinate, &dst.coordinate, c.sv_du).unwrap()
}

/// one query on a service instance: TraversalModelService::build (what the search calls per query)
fn run_query(service: &EnergyModelService, q: &Value, c: &Case) -> Outcome {
    let model: Arc<dyn TraversalModel> = match service.build(q) {
        Ok(m) => m,
        Err(e) => return fail(class_err(&e)),
    };
    // the same constructor once more, only for best_case_energy of the updated vehicle (shares the records)
    let concrete = match EnergyTraversalModel::new(Arc::new(service.clone()), q) {
        Ok(m) => m,
        Err(e) => return fail(class_err(&e)),
    };
    let (start, edges, est) = match drive(&model, c) {
        Ok(x) => x,
        Err(e) => return fail(e),
    };
    let bc = match concrete.vehicle.best_case_energy((hav_in(c), c.sv_du)) {
        Ok((e, u)) => Ok((e.as_f64(), u)),
        Err(err) => Err(class_err(&err)),
    };
    Outcome { start: Ok(start), edges, est, bc }
}

fn run_impl(c: &Case, dir: &Path, id: usize) -> Outcome {
    let mut library: HashMap<String, Arc<dyn VehicleType>> = HashMap::new();
    library.insert("veh".to_string(), vehicle(&c.veh));
    let service = match make_service(c, library, dir, id) {
        Ok(s) => s,
        Err(e) => return fail(e),
    };
    run_query(&service, &query_json(&c.query), c)
}

// ------------------------------------------------------------------ printing (same format as Model/VehicleRun.v)
fn show_state(v: &[f64]) -> String {
    show_list(v, |x| show_f64(*x))
}
fn show_rs(r: &RS) -> String {
    match r {
        Ok(v) => format!("Ok {}", show_state(v)),
        Err(c) => format!("Err {}", c),
    }
}
fn eu_snake(u: &EnergyUnit) -> String {
    serde_json::to_value(u).unwrap().as_str().unwrap().to_string()
}
fn payload(o: &Outcome) -> String {
    match &o.start {
        Ok(_) => format!(
            "start={} edges={} est={} bc={}",
            show_rs(&o.start),
            o.edges.iter().map(show_rs).collect::<Vec<_>>().join(";"),
            show_rs(&o.est),
            match &o.bc {
                Ok((e, u)) => format!("Ok {}@{}", show_f64(*e), eu_snake(u)),
                Err(c) => format!("Err {}", c),
            }
        ),
        Err(_) => format!("start={}", show_rs(&o.start)),
    }
}
fn coq_rs(r: &RS) -> String {
    match r {
        Ok(v) => format!("(Ok {})", coq_list(v, |x| coq_f64(*x))),
        Err(c) => format!("(Err {})", coq_string(c)),
    }
}
fn dbg<T: std::fmt::Debug>(x: &T) -> String {
    format!("{:?}", x)
}
fn coq_rec(r: &Rec) -> String {
    format!(
        "(Build_rrec {} {} {} {} {} {} {} {} {})",
        coq_f64(r.a),
        coq_f64(r.b),
        coq_f64(r.c),
        dbg(&r.su),
        dbg(&r.gu),
        dbg(&r.eru),
        coq_f64(r.ideal),
        coq_f64(r.adj),
        match r.cache {
            None => "None".to_string(),
            // the multipliers are computed by the same expression as to_precision
            Some((size, ps, pg)) =>
                format!("(Some ({}, {}, {}))", coq_nat(size), coq_f64(10f64.powi(ps)), coq_f64(10f64.powi(pg))),
        }
    )
}
fn coq_case(c: &Case, hav_m: f64) -> String {
    let veh = match &c.veh {
        Veh::Ice(r) => format!("(RICE {})", coq_rec(r)),
        Veh::Bev(r, cap, bu) => format!("(RBEV {} {} {})", coq_rec(r), coq_f64(*cap), dbg(bu)),
        Veh::Phev(cs, cd, cap, bu) => format!("(RPHEV {} {} {} {})", coq_rec(cs), coq_rec(cd), coq_f64(*cap), dbg(bu)),
    };
    // what update_from_query sees: serde_json's `get` and `as_f64` (trusted base)
    let qj = query_json(&c.query);
    let q = match qj.get("starting_soc_percent") {
        None => "QMissing".to_string(),
        Some(v) => match v.as_f64() {
            Some(x) => format!("(QNumber {})", coq_f64(x)),
            None => "QNonNumeric".to_string(),
        },
    };
    let edges: Vec<(usize, f64)> = c.edge_ids.iter().cloned().zip(c.edge_len.iter().cloned()).collect();
    format!(
        "(Build_rcase {} {} {} {} {} {} {} {} {} {} {} {} {} {} {})",
        veh,
        q,
        coq_list(&c.speeds, |x| coq_f64(*x)),
        dbg(&c.en_su),
        dbg(&c.en_tu),
        dbg(&c.en_du),
        dbg(&c.sv_su),
        match &c.grades {
            None => "None".to_string(),
            Some(g) => format!("(Some {})", coq_list(g, |x| coq_f64(*x))),
        },
        dbg(&c.sv_gu),
        dbg(&c.sv_du),
        match &c.sm {
            None => "None".to_string(),
            Some((a, b, t, d)) => format!("(Some ({}, {}, {}, {}))", dbg(a), dbg(b), dbg(t), dbg(d)),
        },
        coq_list(&edges, |(i, l)| format!("({}, {})", coq_nat(*i), coq_f64(*l))),
        coq_f64(hav_m),
        coq_pfs(&c.pre),
        coq_pfs(&c.over)
    )
}

fn add_case(st: &mut Stream, c: Case, family: &str, judge_collisions: bool) {
    let id = st.next_id();
    let dir = st.dir.clone();
    let cc = c.clone();
    let o = match catch(move || run_impl(&cc, &dir, id)) {
        Ok(o) => o,
        Err(p) => Outcome { start: Err(format!("PANIC {}", p)), edges: vec![], est: Err("p".into()), bc: Err("p".into()) },
    };
    let src = Vertex::new(0, c.src.0, c.src.1);
    let dst = Vertex::new(1, c.dst.0, c.dst.1);
    let hav_m = haversine::coord_distance_meters(&src.coordinate, &dst.coordinate).unwrap().as_f64();
    let case_term = coq_case(&c, hav_m);
    let unjudged = c.collision && !judge_collisions;
    let bc = match &o.bc {
        Ok((e, u)) => format!("(Ok ({}, {}))", coq_f64(*e), dbg(u)),
        Err(cl) => format!("(Err {})", coq_string(cl)),
    };
    let mut terms = vec![
        format!("line_model {} {}", id, case_term),
        format!(
            "line_check {} {} {} {} {} {} {}",
            id,
            case_term,
            coq_bool(unjudged),
            coq_rs(&o.start),
            coq_list(&o.edges, coq_rs),
            coq_rs(&o.est),
            bc
        ),
    ];
    if c.collision {
        terms.push(format!(
            "line_verdict {} {} {} {} {}",
            id,
            case_term,
            coq_rs(&o.start),
            coq_list(&o.edges, coq_rs),
            coq_rs(&o.est)
        ));
    }
    // ---- histogram
    let kind = match &c.veh {
        Veh::Ice(_) => "ice",
        Veh::Bev(..) => "bev",
        Veh::Phev(..) => "phev",
    };
    st.count(&format!("family:{}", family));
    st.count(&format!("vehicle:{}", kind));
    st.count(&format!("edges:{:02}", (c.edge_ids.len() + 9) / 10 * 10));
    st.count(&format!("start:{}", if o.start.is_ok() { "ok" } else { "rejected" }));
    st.count(&format!(
        "query:{}",
        match &c.query {
            Query::Missing => "missing",
            Query::Null | Query::Str(_) | Query::Bool(_) | Query::Arr | Query::Obj => "non-numeric",
            Query::Int(i) if *i < 0 || *i > 100 => "out-of-range",
            Query::Float(x) if !(0.0..=100.0).contains(x) => "out-of-range",
            Query::Int(0) => "0",
            Query::Int(100) => "100",
            Query::Float(x) if *x == 0.0 => "0",
            Query::Float(x) if *x == 100.0 => "100",
            _ => "in-range",
        }
    ));
    if c.sm.is_some() {
        st.count("state-model:retargeted-units");
    }
    let units_same = dbg(&c.en_su) == dbg(&c.sv_su);
    st.count(if units_same { "units:time-model-speed-unit=service" } else { "units:time-model-speed-unit!=service" });
    let mut nontrivial = false;
    if !c.pre.is_empty() || !c.over.is_empty() {
        st.count("state-model:[state]-section-or-query-override");
        nontrivial = true;
    } else if let Ok(st0) = &o.start {
        let soc_idx = match &c.veh {
            Veh::Ice(_) => None,
            _ => Some(1usize),
        };
        let liq_idx = match &c.veh {
            Veh::Ice(_) => Some(0usize),
            Veh::Phev(..) => Some(2usize),
            _ => None,
        };
        let mut prev = st0.clone();
        let (mut lo, mut hi, mut neg, mut sw_e, mut sw_l) = (false, false, false, false, false);
        for r in &o.edges {
            match r {
                Ok(cur) => {
                    if let Some(i) = soc_idx {
                        if cur[i] == 0.0 {
                            lo = true;
                        }
                        if cur[i] == 100.0 && prev[i] <= 100.0 && cur[0] != prev[0] {
                            hi = true;
                        }
                        if cur[0] < prev[0] {
                            neg = true;
                        }
                        if let Some(l) = liq_idx {
                            if cur[l] != prev[l] {
                                sw_l = true;
                            }
                            if cur[0] != prev[0] {
                                sw_e = true;
                            }
                        }
                    } else if cur[0] < prev[0] {
                        neg = true;
                    }
                    prev = cur.clone();
                }
                Err(cl) => st.count(&format!("edge-error:{}", cl)),
            }
        }
        if lo {
            st.count("soc:clamped-at-0");
        }
        if hi {
            st.count("soc:clamped-at-100");
        }
        if lo || hi {
            st.count("soc:clamped");
        }
        if neg {
            st.count("energy:negative-edge(regen/downhill)");
        }
        if sw_e && sw_l {
            st.count("phev:switches-electric-to-liquid");
        }
        nontrivial = c.edge_ids.len() >= 2 || lo || hi || neg;
    }
    if c.collision {
        st.count("cache:collision-exhibit");
    }
    if nontrivial {
        st.mark_nontrivial(&serde_json::to_string(&c).unwrap());
    }
    let readable = json!({
        "vehicle": kind, "n_edges": c.edge_ids.len(), "speeds": c.speeds, "grades": c.grades, "edge_len_m": c.edge_len,
        "query": query_json(&c.query),
    });
    let desc = json!({"id": id, "family": family, "case": serde_json::to_value(&c).unwrap(), "readable": readable,
                      "collision": c.collision});
    st.case(terms, vec![format!("I {} {}", id, payload(&o))], desc);
}

// ------------------------------------------------------------------ generators
const SUS: [SpeedUnit; 3] = [SpeedUnit::KilometersPerHour, SpeedUnit::MilesPerHour, SpeedUnit::MetersPerSecond];
const TUS: [TimeUnit; 4] = [TimeUnit::Hours, TimeUnit::Minutes, TimeUnit::Seconds, TimeUnit::Milliseconds];
const DUS: [DistanceUnit; 5] =
    [DistanceUnit::Meters, DistanceUnit::Kilometers, DistanceUnit::Miles, DistanceUnit::Inches, DistanceUnit::Feet];
const GUS: [GradeUnit; 3] = [GradeUnit::Percent, GradeUnit::Decimal, GradeUnit::Millis];
const EUS: [EnergyUnit; 3] = [EnergyUnit::GallonsGasoline, EnergyUnit::GallonsDiesel, EnergyUnit::KilowattHours];
const ELEC_RATES: [EnergyRateUnit; 3] = [
    EnergyRateUnit::KilowattHoursPerMile,
    EnergyRateUnit::KilowattHoursPerKilometer,
    EnergyRateUnit::KilowattHoursPerMeter,
];
const LIQ_RATES: [EnergyRateUnit; 2] = [EnergyRateUnit::GallonsGasolinePerMile, EnergyRateUnit::GallonsDieselPerMile];

fn rate_dist_m(eru: EnergyRateUnit) -> f64 {
    match eru {
        EnergyRateUnit::KilowattHoursPerKilometer => 1000.0,
        EnergyRateUnit::KilowattHoursPerMeter => 1.0,
        _ => 1609.344,
    }
}
fn speed_in(su: SpeedUnit, mph: f64) -> f64 {
    match su {
        SpeedUnit::MilesPerHour => 1.0 * mph,
        SpeedUnit::KilometersPerHour => 1.609344 * mph,
        SpeedUnit::MetersPerSecond => 0.44704 * mph,
    }
}
fn grade_in(gu: GradeUnit, dec: f64) -> f64 {
    match gu {
        GradeUnit::Decimal => dec,
        GradeUnit::Percent => dec * 100.0,
        GradeUnit::Millis => dec * 1000.0,
    }
}
/// a record whose rate is physically shaped: `per_mile` at 40 mph on flat ground, rising with
/// speed, strongly with grade (negative on steep downhill), whatever the units of the record
fn gen_rec(r: &mut Rng, electric: bool, cache_on: bool) -> Rec {
    let cache = gen_cache(r, cache_on);
    let su = *r.pick(&SUS);
    let gu = *r.pick(&GUS);
    let eru = if electric { *r.pick(&ELEC_RATES) } else { *r.pick(&LIQ_RATES) };
    let per_mile = if electric { 0.2 + 0.2 * r.unit_f64() } else { 0.02 + 0.03 * r.unit_f64() };
    let scale = rate_dist_m(eru) / 1609.344; // rate per the record's distance unit
    let base = per_mile * scale;
    let b = base * (0.002 + 0.01 * r.unit_f64()) / speed_in(su, 1.0);
    let c = base * (8.0 + 20.0 * r.unit_f64()) / grade_in(gu, 1.0);
    let a = base - b * speed_in(su, 40.0);
    let ideal = base * (0.5 + 0.4 * r.unit_f64());
    let extra = 1.0 + r.unit_f64();
    let adj = *r.pick(&[1.0, 1.0, 1.1252, 1.3958, 0.9, extra]);
    Rec { a, b, c, su, gu, eru, ideal, adj, cache }
}
fn gen_cache(r: &mut Rng, on: bool) -> Option<(usize, i32, i32)> {
    if !on {
        return None;
    }
    let size = *r.pick(&[1usize, 2, 3, 5, 100, 10000]);
    Some((size, *r.pick(&[0, 1]), *r.pick(&[2, 3, 4])))
}
struct Shape {
    n_edges: usize,
    /// fraction of steep downhill edges
    downhill: f64,
    cap_scale: f64,
}
fn gen_case(r: &mut Rng, kind: u64, cache_on: bool, shape: Shape, query: Query) -> Case {
    // unit configuration: mostly the two realistic ones, otherwise arbitrary
    let (en_su, en_tu, en_du, sv_su, sv_du) = match r.below(5) {
        0 => (SpeedUnit::KilometersPerHour, TimeUnit::Seconds, DistanceUnit::Meters, SpeedUnit::KilometersPerHour, DistanceUnit::Meters),
        1 => (SpeedUnit::MilesPerHour, TimeUnit::Minutes, DistanceUnit::Miles, SpeedUnit::MilesPerHour, DistanceUnit::Miles),
        2 => (SpeedUnit::MetersPerSecond, TimeUnit::Seconds, DistanceUnit::Meters, SpeedUnit::MetersPerSecond, DistanceUnit::Meters),
        _ => (*r.pick(&SUS), *r.pick(&TUS), *r.pick(&DUS), *r.pick(&SUS), *r.pick(&DUS)),
    };
    let sv_gu = *r.pick(&GUS);
    let veh = match kind {
        0 => Veh::Ice(gen_rec(r, false, cache_on)),
        1 => {
            let rec = gen_rec(r, true, cache_on);
            let cap = shape.cap_scale * *r.pick(&[0.3, 1.0, 4.0, 12.0, 60.0]);
            let bu = if r.chance(1, 12) { *r.pick(&EUS) } else { EnergyUnit::KilowattHours };
            Veh::Bev(rec, cap, bu)
        }
        _ => {
            let cs = gen_rec(r, false, cache_on);
            let cd = gen_rec(r, true, cache_on);
            let cap = shape.cap_scale * *r.pick(&[0.2, 0.6, 2.0, 12.0]);
            let bu = if r.chance(1, 12) { *r.pick(&EUS) } else { EnergyUnit::KilowattHours };
            Veh::Phev(cs, cd, cap, bu)
        }
    };
    // tables: a handful of road classes
    let n_rows = 1 + r.below(8) as usize;
    let (speeds, grades_dec): (Vec<f64>, Vec<f64>) = if cache_on {
        // well separated values: every distinct table entry keeps its own rounded cache key
        let mut s: Vec<f64> = (0..12).map(|i| 15.0 + 9.0 * i as f64).collect();
        r.shuffle(&mut s);
        let gs = [-0.09, -0.06, -0.03, 0.0, 0.02, 0.04, 0.07];
        (s[..n_rows].to_vec(), (0..n_rows).map(|_| *r.pick(&gs)).collect())
    } else {
        (
            (0..n_rows).map(|_| 5.0 + 70.0 * r.unit_f64()).collect(),
            (0..n_rows)
                .map(|_| {
                    if r.unit_f64() < shape.downhill {
                        -0.04 - 0.11 * r.unit_f64()
                    } else {
                        -0.03 + 0.1 * r.unit_f64()
                    }
                })
                .collect(),
        )
    };
    let speeds: Vec<f64> = speeds.iter().map(|mph| speed_in(en_su, *mph)).collect();
    let grades = if r.chance(1, 10) { None } else { Some(grades_dec.iter().map(|g| grade_in(sv_gu, *g)).collect()) };
    let edge_ids: Vec<usize> = (0..shape.n_edges).map(|_| r.below(n_rows as u64) as usize).collect();
    let edge_len: Vec<f64> = (0..shape.n_edges).map(|_| 30.0 + 1500.0 * r.unit_f64()).collect();
    let sm = if r.chance(1, 8) { Some((*r.pick(&EUS), *r.pick(&EUS), *r.pick(&TUS), *r.pick(&DUS))) } else { None };
    let x0 = -105.0 + r.unit_f64() as f32;
    let y0 = 39.0 + r.unit_f64() as f32;
    let (dx, dy) = if r.chance(1, 10) { (0.0, 0.0) } else { (0.05 * r.unit_f64() as f32, 0.05 * r.unit_f64() as f32) };
    Case { veh, query, speeds, en_su, en_tu, en_du, sv_su, grades, sv_gu, sv_du, sm, edge_ids, edge_len,
           src: (x0, y0), dst: (x0 + dx, y0 + dy), collision: false, pre: vec![], over: vec![] }
}
fn gen_query(r: &mut Rng) -> Query {
    match r.below(20) {
        0 => Query::Missing,
        1 => Query::Int(0),
        2 => Query::Int(100),
        3 => Query::Float(100.0),
        4 => Query::Float(0.0),
        5 => Query::Int(*r.pick(&[-1, 101, 150, 1000])),
        6 => Query::Float(*r.pick(&[-0.5, 100.0000001, 150.0, -1e-9])),
        7 => r.pick(&[Query::Null, Query::Str("abc".into()), Query::Str("50".into())]).clone(),
        8 | 9 | 10 => Query::Float(100.0 * r.unit_f64() * r.unit_f64() * r.unit_f64()), // low charges
        11 | 12 => Query::Float(100.0 - 3.0 * r.unit_f64()),                            // nearly full
        13 => Query::Int(r.range(1, 99)),
        _ => Query::Float(100.0 * r.unit_f64()),
    }
}

fn boundary(st: &mut Stream, seed: u64, cache_on: bool, judge: bool) {
    let mut rng = Rng::new(seed ^ 0xC08);
    // every vehicle kind x every start-charge class
    let queries = vec![
        Query::Missing, Query::Int(0), Query::Int(100), Query::Float(0.0), Query::Float(100.0), Query::Int(50),
        Query::Float(-1.0), Query::Float(100.5), Query::Int(150), Query::Int(-1), Query::Str("abc".into()),
        Query::Str("50".into()), Query::Null, Query::Float(1e-3),
        Query::Float(-0.0), Query::Float(100.0000001), Query::Float(-1e-9), Query::Float(99.999), Query::Float(50.0),
        Query::Bool(true), Query::Arr, Query::Obj, Query::Str("".into()),
    ];
    for kind in 0..3u64 {
        for q in &queries {
            let mut r = rng.fork();
            let c = gen_case(&mut r, kind, cache_on, Shape { n_edges: 3, downhill: 0.3, cap_scale: 1.0 }, q.clone());
            add_case(st, c, "start-charge", judge);
        }
    }
    // regeneration above a full battery, exhaustion of a small one, the PHEV switch in mid route
    for kind in 1..3u64 {
        for (q, down, cap) in [(Query::Int(100), 1.0, 1.0), (Query::Float(99.5), 1.0, 0.05), (Query::Float(3.0), 0.0, 0.02),
                               (Query::Float(40.0), 0.0, 0.02), (Query::Float(0.5), 0.5, 0.01)] {
            for n in [1usize, 2, 10, 40] {
                let mut r = rng.fork();
                let c = gen_case(&mut r, kind, cache_on, Shape { n_edges: n, downhill: down, cap_scale: cap }, q.clone());
                add_case(st, c, "clamp-and-switch", judge);
            }
        }
    }
    // rejected edges: zero / negative speed, zero-length edge, edge id beyond a table
    for kind in 0..3u64 {
        for what in 0..5 {
            let mut r = rng.fork();
            let mut c = gen_case(&mut r, kind, cache_on, Shape { n_edges: 4, downhill: 0.2, cap_scale: 1.0 }, Query::Int(80));
            // keep one usable row whatever happens to the others
            c.speeds.push(speed_in(c.en_su, 30.0));
            if let Some(g) = &mut c.grades {
                g.push(0.0);
            }
            c.edge_ids[3] = c.speeds.len() - 1;
            let bad = c.edge_ids[2];
            match what {
                0 => c.speeds[bad] = 0.0,
                1 => {
                    // rejected on the very first edge
                    c.speeds[bad] = 0.0;
                    c.edge_ids[0] = bad;
                }
                2 => c.edge_len[2] = 0.0,
                3 => c.edge_ids[2] = c.speeds.len() + 1,
                _ => {
                    // grade table shorter than the speed table
                    c.speeds.push(c.speeds[0]);
                    c.edge_ids[2] = c.speeds.len() - 1;
                    if c.grades.is_none() {
                        c.grades = Some(vec![0.0; c.speeds.len() - 1]);
                    }
                }
            }
            add_case(st, c, "rejected-edge", judge);
        }
    }
    // every unit of every role at least once, one edge
    for (i, su) in SUS.iter().enumerate() {
        for (j, du) in DUS.iter().enumerate() {
            for (k, tu) in TUS.iter().enumerate() {
                let mut r = rng.fork();
                let kind = ((i + j + k) % 3) as u64;
                let mut c = gen_case(&mut r, kind, cache_on, Shape { n_edges: 2, downhill: 0.3, cap_scale: 1.0 }, Query::Float(62.5));
                c.en_su = *su;
                c.en_du = *du;
                c.en_tu = *tu;
                c.sv_su = SUS[(i + j) % 3];
                c.sv_du = DUS[(j + k) % 5];
                add_case(st, c, "unit-grid", judge);
            }
        }
    }
    if cache_on {
        // D-CACHE: two table speeds that round to the same cache key (precision 1: 30.04 and 29.96 -> 300);
        // the second edge is charged at the first edge's rate
        for kind in 0..3u64 {
            let mut r = rng.fork();
            let mut c = gen_case(&mut r, kind, true, Shape { n_edges: 2, downhill: 0.0, cap_scale: 1.0 }, Query::Int(90));
            c.en_su = SpeedUnit::MetersPerSecond;
            c.en_tu = TimeUnit::Seconds;
            c.en_du = DistanceUnit::Meters;
            c.sv_su = SpeedUnit::MetersPerSecond;
            c.speeds = vec![30.04, 29.96];
            c.grades = Some(vec![0.0, 0.0]);
            c.edge_ids = vec![0, 1];
            c.edge_len = vec![1000.0, 1000.0];
            let fix = |rec: &mut Rec| {
                rec.cache = Some((100, 1, 3));
                // make the two rates differ visibly: a strong speed term
                rec.b = rec.a.abs() * 0.01;
            };
            match &mut c.veh {
                Veh::Ice(rec) => fix(rec),
                Veh::Bev(rec, cap, _) => {
                    fix(rec);
                    *cap = 1.0e6;
                }
                Veh::Phev(cs, cd, cap, _) => {
                    fix(cs);
                    fix(cd);
                    *cap = 1.0e6;
                }
            }
            c.collision = true;
            add_case(st, c, "dcache-exhibit", judge);
        }
        // DISTINCT cache keys in arithmetic relations must never share an entry: rows (s1, g1), (s2, g2) with
        // key(s2) - key(s1) = dk and key(g2) - key(g1) = -m * dk for m = 1..64 (precisions [2, 3]), driven alternately
        let mut ms: Vec<i64> = vec![31, 32, 37, 63, 64, 1, 2, 16, 33];
        for m in 1..=64i64 {
            if !ms.contains(&m) {
                ms.push(m);
            }
        }
        let si = |c: &mut Case| {
            c.en_su = SpeedUnit::MetersPerSecond;
            c.en_tu = TimeUnit::Seconds;
            c.en_du = DistanceUnit::Meters;
            c.sv_su = SpeedUnit::MetersPerSecond;
            c.sv_gu = GradeUnit::Decimal;
            c.sm = None;
        };
        let set_cache = |c: &mut Case, cache: (usize, i32, i32)| {
            let fix = |rec: &mut Rec| {
                rec.cache = Some(cache);
                rec.b = rec.a.abs() * 0.01 / speed_in(rec.su, 1.0) * speed_in(SpeedUnit::MetersPerSecond, 1.0);
            };
            match &mut c.veh {
                Veh::Ice(rec) => fix(rec),
                Veh::Bev(rec, cap, _) => {
                    fix(rec);
                    *cap = 1.0e6;
                }
                Veh::Phev(cs, cd, cap, _) => {
                    fix(cs);
                    fix(cd);
                    *cap = 1.0e6;
                }
            }
        };
        let mut pairs: Vec<(i64, i64)> = ms.iter().enumerate().map(|(i, m)| (*m, if i % 2 == 0 { 1 } else { -1 })).collect();
        pairs.extend([(31, 2), (31, -1), (32, 2), (37, -1), (63, 1), (31, -2)]);
        for (i, (m, dk)) in pairs.iter().enumerate() {
            let (m, dk) = (*m, *dk);
            let mut r = rng.fork();
            let mut c = gen_case(&mut r, (i % 3) as u64, true, Shape { n_edges: 4, downhill: 0.0, cap_scale: 1.0 }, Query::Int(90));
            si(&mut c);
            let k1 = 1500 + r.below(1500) as i64;
            let g1k = (m * dk) / 2;
            let g2k = g1k - m * dk;
            c.speeds = vec![k1 as f64 / 100.0, (k1 + dk) as f64 / 100.0, 33.33];
            c.grades = Some(vec![g1k as f64 / 1000.0, g2k as f64 / 1000.0, 0.012]);
            c.edge_ids = if i % 4 < 2 { vec![0, 1, 0, 1] } else { vec![0, 2, 1, 0, 1] };
            c.edge_len = c.edge_ids.iter().map(|_| 800.0).collect();
            set_cache(&mut c, (100, 2, 3));
            add_case(st, c, "distinct-keys-arithmetic", judge);
        }
        // keys that differ by 2^31, 2^32, 2^33 in one component (precision 10)
        for (i, pw) in [32u32, 31, 33, 32, 32].iter().enumerate() {
            let mut r = rng.fork();
            let mut c = gen_case(&mut r, (i % 3) as u64, true, Shape { n_edges: 4, downhill: 0.0, cap_scale: 1.0 }, Query::Int(90));
            si(&mut c);
            let delta = (1u64 << pw) as f64 / 1.0e10;
            if i < 4 {
                c.speeds = vec![1.25, 1.25 + delta, 2.5];
                c.grades = Some(vec![0.01, 0.01, 0.0]);
                set_cache(&mut c, (100, 10, 3));
            } else {
                c.speeds = vec![12.5, 12.5, 20.0];
                c.grades = Some(vec![0.01, 0.01 + delta, 0.0]);
                set_cache(&mut c, (100, 2, 10));
            }
            c.edge_ids = vec![0, 1, 2, 0, 1];
            c.edge_len = c.edge_ids.iter().map(|_| 500.0).collect();
            add_case(st, c, "distinct-keys-2^32", judge);
        }
    }
    // the application's state-model assembly: a [state] section declaring the vehicle's features beforehand
    // (other initial value / unit) and `state_features` overrides in the query: the LATER definition counts
    for kind in 0..3u64 {
        let soc = |x: f64| PF { name: "battery_state".into(), kind: PFK::Soc(x) };
        let en = |n: &str, u: EnergyUnit, x: f64| PF { name: n.into(), kind: PFK::Energy(u, x) };
        let variants: Vec<(Vec<PF>, Vec<PF>, Query)> = if kind == 0 {
            vec![
                (vec![en("energy_liquid", EnergyUnit::KilowattHours, 2.5)], vec![], Query::Missing),
                (vec![], vec![en("energy_liquid", EnergyUnit::GallonsDiesel, 0.0)], Query::Missing),
                (vec![], vec![PF { name: "time".into(), kind: PFK::Time(TimeUnit::Hours, 0.0) },
                              PF { name: "distance".into(), kind: PFK::Distance(DistanceUnit::Miles, 0.0) }], Query::Missing),
            ]
        } else {
            vec![
                (vec![soc(100.0)], vec![], Query::Float(40.0)),
                (vec![soc(0.0), en("energy_electric", EnergyUnit::GallonsGasoline, 1.5),
                      PF { name: "time".into(), kind: PFK::Time(TimeUnit::Hours, 3.0) }], vec![], Query::Float(65.5)),
                (vec![soc(55.5)], vec![], Query::Missing),
                (vec![], vec![en("energy_electric", EnergyUnit::GallonsGasoline, 0.0)], Query::Int(80)),
                (vec![], vec![PF { name: "time".into(), kind: PFK::Time(TimeUnit::Hours, 0.0) },
                              PF { name: "distance".into(), kind: PFK::Distance(DistanceUnit::Miles, 0.0) }], Query::Int(70)),
                (vec![soc(100.0)], vec![en("energy_electric", EnergyUnit::GallonsDiesel, 0.0)], Query::Float(33.0)),
                (vec![soc(12.0)], vec![], Query::Float(100.5)),
            ]
        };
        for (pre, over, q) in variants {
            let mut r = rng.fork();
            let mut c = gen_case(&mut r, kind, cache_on, Shape { n_edges: 3, downhill: 0.3, cap_scale: 1.0 }, q);
            c.sm = None;
            c.pre = pre;
            c.over = over;
            if kind == 2 && !c.over.is_empty() && r.chance(1, 2) {
                c.over.push(en("energy_liquid", EnergyUnit::KilowattHours, 0.0));
            }
            add_case(st, c, "state-section-and-overrides", judge);
        }
    }
    if !cache_on {
        // a battery that is ALMOST but not exactly run down: the start charge is the consumption of the first k edges
        // plus 5e-10 energy units, so 0 < remaining < 1e-9 after edge k (measured on the implementation with a huge pack)
        for kind in 1..3u64 {
            for k in 1..=3usize {
                for _ in 0..2 {
                    let mut r = rng.fork();
                    let mut c = gen_case(&mut r, kind, false, Shape { n_edges: k + 2, downhill: 0.0, cap_scale: 1.0 }, Query::Int(100));
                    c.sm = None;
                    c.grades = c.grades.map(|g| g.iter().map(|x| x.abs()).collect());
                    for i in 0..k {
                        c.edge_len[i] = 20.0 + 40.0 * r.unit_f64();
                    }
                    match &mut c.veh {
                        Veh::Bev(_, cap, _) | Veh::Phev(_, _, cap, _) => *cap = 1.0e9,
                        _ => {}
                    }
                    let probe = run_impl(&c, &st.dir.clone(), st.next_id());
                    let used = match probe.edges.get(k - 1) {
                        Some(Ok(s)) if s[0] > 0.0 => s[0],
                        _ => continue,
                    };
                    let cap_new = 1.5 * used;
                    match &mut c.veh {
                        Veh::Bev(_, cap, _) | Veh::Phev(_, _, cap, _) => *cap = cap_new,
                        _ => {}
                    }
                    c.query = Query::Float(100.0 * (used + 5.0e-10) / cap_new);
                    add_case(st, c, "battery-almost-run-down", judge);
                }
            }
        }
    }
}

// ------------------------------------------------------------------ stream `queries`: several queries on ONE service
#[derive(Clone, Debug, Serialize, Deserialize)]
struct QCase {
    /// tables, units, edges, estimate end points (its `veh` / `query` are placeholders)
    base: Case,
    /// the vehicle library of the service: names veh0, veh1, ...
    vehicles: Vec<Veh>,
    /// (index into `vehicles`, starting_soc_percent) in the order they are served
    queries: Vec<(usize, Query)>,
}
fn sub_case(qc: &QCase, i: usize) -> Case {
    let mut c = qc.base.clone();
    c.veh = qc.vehicles[qc.queries[i].0].clone();
    c.query = qc.queries[i].1.clone();
    c
}
fn hav_m_of(c: &Case) -> f64 {
    let src = Vertex::new(0, c.src.0, c.src.1);
    let dst = Vertex::new(1, c.dst.0, c.dst.1);
    haversine::coord_distance_meters(&src.coordinate, &dst.coordinate).unwrap().as_f64()
}
fn coq_bc(o: &Outcome) -> String {
    match &o.bc {
        Ok((e, u)) => format!("(Ok ({}, {}))", coq_f64(*e), dbg(u)),
        Err(cl) => format!("(Err {})", coq_string(cl)),
    }
}
fn query_class(q: &Query) -> &'static str {
    match q {
        Query::Missing => "missing",
        Query::Null | Query::Str(_) | Query::Bool(_) | Query::Arr | Query::Obj => "non-numeric",
        Query::Int(i) if *i < 0 || *i > 100 => "out-of-range",
        Query::Float(x) if !(0.0..=100.0).contains(x) => "out-of-range",
        _ => "in-range",
    }
}
fn add_qcase(st: &mut Stream, qc: QCase, family: &str) {
    let id = st.next_id();
    let dir = st.dir.clone();
    let q2 = qc.clone();
    let outs: Vec<Outcome> = match catch(move || {
        let mut library: HashMap<String, Arc<dyn VehicleType>> = HashMap::new();
        for (i, v) in q2.vehicles.iter().enumerate() {
            library.insert(format!("veh{}", i), vehicle(v));
        }
        match make_service(&q2.base, library, &dir, id) {
            // ONE service instance serves the whole sequence
            Ok(service) => q2
                .queries
                .iter()
                .map(|(vi, q)| run_query(&service, &query_json_for(q, &format!("veh{}", vi)), &q2.base))
                .collect(),
            Err(e) => q2.queries.iter().map(|_| fail(e.clone())).collect(),
        }
    }) {
        Ok(o) => o,
        Err(p) => qc.queries.iter().map(|_| fail(format!("PANIC {}", p))).collect(),
    };
    let hav = hav_m_of(&qc.base);
    let subs: Vec<Case> = (0..qc.queries.len()).map(|i| sub_case(&qc, i)).collect();
    let terms = vec![
        format!("line_model_seq {} {}", id, coq_list(&subs, |c| coq_case(c, hav))),
        format!(
            "line_check_seq {} {}",
            id,
            coq_list(&subs.iter().zip(outs.iter()).collect::<Vec<_>>(), |(c, o)| format!(
                "({}, {}, {}, {}, {})",
                coq_case(c, hav),
                coq_rs(&o.start),
                coq_list(&o.edges, coq_rs),
                coq_rs(&o.est),
                coq_bc(o)
            ))
        ),
    ];
    st.count(&format!("family:{}", family));
    st.count(&format!("queries:{}", qc.queries.len()));
    // pairs of queries for one vehicle whose charges round to the same whole percent but differ
    let mut same_round = false;
    for (i, (vi, qi)) in qc.queries.iter().enumerate() {
        for (vj, qj) in qc.queries[..i].iter() {
            let val = |q: &Query| match q {
                Query::Missing => Some(100.0),
                Query::Int(x) => Some(*x as f64),
                Query::Float(x) => Some(*x),
                _ => None,
            };
            if vi == vj {
                if let (Some(a), Some(b)) = (val(qi), val(qj)) {
                    if a != b && a.round() == b.round() {
                        same_round = true;
                    }
                }
            }
        }
        st.count(&format!("query:{}", query_class(qi)));
    }
    if same_round {
        st.count("sequence:two-charges-round-to-one-percent");
        st.mark_nontrivial(&serde_json::to_string(&qc).unwrap());
    }
    for o in &outs {
        st.count(if o.start.is_ok() { "start:ok" } else { "start:rejected" });
    }
    let readable = json!({"queries": qc.queries.iter().map(|(vi, q)| query_json_for(q, &format!("veh{}", vi))).collect::<Vec<_>>(),
                          "vehicles": qc.vehicles.iter().map(|v| match v { Veh::Ice(_) => "ice", Veh::Bev(..) => "bev", Veh::Phev(..) => "phev" }).collect::<Vec<_>>(),
                          "n_edges": qc.base.edge_ids.len()});
    let desc = json!({"id": id, "family": family, "qcase": serde_json::to_value(&qc).unwrap(), "readable": readable});
    let line = outs.iter().map(payload).collect::<Vec<_>>().join(" || ");
    st.case(terms, vec![format!("I {} {}", id, line)], desc);
}
/// charges for one vehicle that the seeded memoisation would confuse, in serving order
fn soc_pair(r: &mut Rng, allow_missing: bool) -> Vec<Query> {
    let mut v = match r.below(8) {
        0 => vec![Query::Float(80.0), Query::Float(80.4)],
        1 => vec![Query::Int(35), Query::Float(34.6)],
        2 => vec![if allow_missing { Query::Missing } else { Query::Int(100) }, Query::Float(100.3)],
        3 => vec![Query::Int(0), Query::Float(-0.2)],
        4 => vec![Query::Float(100.0), Query::Float(100.4), Query::Float(99.6)],
        5 => vec![Query::Float(0.3), Query::Float(-0.4), Query::Float(0.0)],
        _ => {
            let k = r.range(1, 99) as f64;
            let a = k + 0.45 * (2.0 * r.unit_f64() - 1.0);
            let b = k + 0.45 * (2.0 * r.unit_f64() - 1.0);
            vec![Query::Float(a), Query::Float(b), Query::Float(k)]
        }
    };
    if r.chance(1, 3) {
        v.reverse();
    }
    v
}
fn gen_qcase(r: &mut Rng) -> QCase {
    let n_edges = 1 + r.below(4) as usize;
    let mut base = gen_case(r, 1, false, Shape { n_edges, downhill: 0.3, cap_scale: 1.0 }, Query::Missing);
    base.sm = None;
    // library: a battery vehicle that receives the confusable charges, and one or two others
    let mut vehicles = vec![];
    let target_kind = 1 + r.below(2);
    for kind in [target_kind, r.below(3), r.below(3)].iter().take(2 + r.below(2) as usize) {
        let c = gen_case(r, *kind, false, Shape { n_edges: 1, downhill: 0.0, cap_scale: 1.0 }, Query::Missing);
        vehicles.push(c.veh);
    }
    let mut queries = vec![];
    for q in soc_pair(r, target_kind == 1) {
        if r.chance(1, 3) {
            // interleave a query for another vehicle of the library
            let vi = 1 + r.below(vehicles.len() as u64 - 1) as usize;
            queries.push((vi, gen_query(r)));
        }
        queries.push((0usize, q));
    }
    if r.chance(1, 4) {
        queries.push((0, gen_query(r)));
    }
    queries.truncate(6);
    QCase { base, vehicles, queries }
}

// ------------------------------------------------------------------ stream `builders`: vehicles from the configuration
#[derive(Clone, Debug, Serialize, Deserialize)]
struct BVeh {
    /// "ice" | "bev" | "phev"
    kind: String,
    #[serde(with = "bits")]
    cap: f64,
    bu: EnergyUnit,
    #[serde(with = "bits")]
    adj: f64,
}
#[derive(Clone, Debug, Serialize, Deserialize)]
struct BCase {
    base: Case,
    vehicles: Vec<BVeh>,
    queries: Vec<(usize, Query)>,
}
fn repo_root() -> String {
    std::env::var("VERIF_REPO").unwrap_or_else(|_| "/repo".to_string())
}
fn model_file(name: &str) -> String {
    format!("{}/rust/routee-compass-powertrain/src/routee/test/{}", repo_root(), name)
}
fn record_config(name: &str, file: &str, eru: &str, ideal: f64, adj: f64) -> Value {
    json!({"name": name, "model_input_file": model_file(file), "model_type": "smartcore",
           "speed_unit": "miles_per_hour", "grade_unit": "decimal", "energy_rate_unit": eru,
           "ideal_energy_rate": ideal, "real_world_energy_adjustment": adj})
}
fn vehicle_config(v: &BVeh, name: &str) -> Value {
    match v.kind.as_str() {
        "ice" => {
            let mut m = record_config(name, "Toyota_Camry.bin", "gallons_gasoline_per_mile", 0.02, v.adj);
            m["type"] = json!("ice");
            m
        }
        "bev" => {
            let mut m = record_config(name, "2017_CHEVROLET_Bolt.bin", "kilowatt_hours_per_mile", 0.2, v.adj);
            m["type"] = json!("bev");
            m["battery_capacity"] = json!(v.cap);
            m["battery_capacity_unit"] = serde_json::to_value(v.bu).unwrap();
            m
        }
        _ => json!({
            "type": "phev", "name": name,
            "battery_capacity": v.cap, "battery_capacity_unit": serde_json::to_value(v.bu).unwrap(),
            "charge_depleting": record_config("cd", "2016_CHEVROLET_Volt_Charge_Depleting.bin", "kilowatt_hours_per_mile", 0.2, v.adj),
            "charge_sustaining": record_config("cs", "2016_CHEVROLET_Volt_Charge_Sustaining.bin", "gallons_gasoline_per_mile", 0.02, v.adj),
        }),
    }
}
fn run_built(bc: &BCase, dir: &Path, id: usize) -> Vec<Outcome> {
    use routee_compass::app::compass::config::traversal_model::energy_model_builder::EnergyModelBuilder;
    use routee_compass::app::compass::config::traversal_model::energy_model_vehicle_builders::VehicleBuilder;
    use routee_compass::app::compass::config::traversal_model::speed_lookup_builder::SpeedLookupBuilder;
    use routee_compass_core::model::traversal::traversal_model_builder::TraversalModelBuilder;
    let c = &bc.base;
    let sp = dir.join(format!("speeds_b{}.txt", id));
    let gp = dir.join(format!("grades_b{}.txt", id));
    write_table(&sp, &c.speeds);
    let mut conf = json!({
        "type": "energy_model",
        "time_model": {"type": "speed_table", "speed_table_input_file": sp.to_str().unwrap(),
                       "speed_unit": serde_json::to_value(c.en_su).unwrap(),
                       "distance_unit": serde_json::to_value(c.en_du).unwrap(),
                       "time_unit": serde_json::to_value(c.en_tu).unwrap()},
        "grade_table_grade_unit": serde_json::to_value(c.sv_gu).unwrap(),
        "distance_unit": serde_json::to_value(c.sv_du).unwrap(),
        "vehicles": bc.vehicles.iter().enumerate().map(|(i, v)| vehicle_config(v, &format!("veh{}", i))).collect::<Vec<_>>(),
    });
    if let Some(g) = &c.grades {
        write_table(&gp, g);
        conf["grade_table_input_file"] = json!(gp.to_str().unwrap());
    }
    let mut time_models: HashMap<String, std::rc::Rc<dyn TraversalModelBuilder>> = HashMap::new();
    time_models.insert("speed_table".to_string(), std::rc::Rc::new(SpeedLookupBuilder {}));
    let built = EnergyModelBuilder::new(time_models).build(&conf);
    let _ = std::fs::remove_file(&sp);
    let _ = std::fs::remove_file(&gp);
    let service = match built {
        Ok(s) => s,
        Err(e) => return bc.queries.iter().map(|_| fail(class_err(&e))).collect(),
    };
    // a second copy of every vehicle from the same builder, only for best_case_energy
    let twins: Vec<Option<Arc<dyn VehicleType>>> = bc
        .vehicles
        .iter()
        .enumerate()
        .map(|(i, v)| {
            VehicleBuilder::from_string(v.kind.clone()).ok().and_then(|b| b.build(&vehicle_config(v, &format!("veh{}", i))).ok())
        })
        .collect();
    bc.queries
        .iter()
        .map(|(vi, q)| {
            let qj = query_json_for(q, &format!("veh{}", vi));
            let model = match service.build(&qj) {
                Ok(m) => m,
                Err(e) => return fail(class_err(&e)),
            };
            let (start, edges, est) = match drive(&model, c) {
                Ok(x) => x,
                Err(e) => return fail(e),
            };
            let bce = match twins[*vi].as_ref().map(|t| t.update_from_query(&qj)) {
                Some(Ok(v)) => match v.best_case_energy((hav_in(c), c.sv_du)) {
                    Ok((e, u)) => Ok((e.as_f64(), u)),
                    Err(err) => Err(class_err(&err)),
                },
                Some(Err(e)) => Err(class_err(&e)),
                None => Err("BuildError".to_string()),
            };
            Outcome { start: Ok(start), edges, est, bc: bce }
        })
        .collect()
}
fn add_bcase(st: &mut Stream, bc: BCase, family: &str, judge_units: bool) {
    let id = st.next_id();
    let dir = st.dir.clone();
    let b2 = bc.clone();
    let outs = match catch(move || run_built(&b2, &dir, id)) {
        Ok(o) => o,
        Err(p) => bc.queries.iter().map(|_| fail(format!("PANIC {}", p))).collect(),
    };
    let kind_term = |v: &BVeh| match v.kind.as_str() {
        "ice" => "BIce".to_string(),
        "bev" => format!("(BBev {} {})", coq_f64(v.cap), dbg(&v.bu)),
        _ => format!("(BPhev {} {})", coq_f64(v.cap), dbg(&v.bu)),
    };
    let qval = |vi: usize, q: &Query| {
        let qj = query_json_for(q, &format!("veh{}", vi));
        match qj.get("starting_soc_percent") {
            None => "QMissing".to_string(),
            Some(v) => match v.as_f64() {
                Some(x) => format!("(QNumber {})", coq_f64(x)),
                None => "QNonNumeric".to_string(),
            },
        }
    };
    let obs = coq_list(&bc.queries.iter().zip(outs.iter()).collect::<Vec<_>>(), |((vi, q), o)| {
        format!(
            "({}, {}, {}, {}, {}, {})",
            kind_term(&bc.vehicles[*vi]),
            qval(*vi, q),
            coq_rs(&o.start),
            coq_list(&o.edges, coq_rs),
            coq_rs(&o.est),
            coq_bc(o)
        )
    });
    let mismatch = bc.queries.iter().any(|(vi, _)| {
        let v = &bc.vehicles[*vi];
        v.kind != "ice" && dbg(&v.bu) != "KilowattHours"
    });
    let _ = judge_units; // every unit combination is judged since fix 0840f02
    let terms = vec![format!("line_built {} {}", id, obs)];
    if mismatch {
        st.count("battery-unit!=model-energy-unit");
    }
    st.count(&format!("family:{}", family));
    st.count(&format!("queries:{}", bc.queries.len()));
    for (vi, q) in &bc.queries {
        let v = &bc.vehicles[*vi];
        st.count(&format!("vehicle:{}", v.kind));
        if v.kind != "ice" {
            st.count(&format!("battery-unit:{}", eu_snake(&v.bu)));
        }
        st.count(&format!("query:{}", query_class(q)));
    }
    let mut moved = false;
    for ((vi, _), o) in bc.queries.iter().zip(outs.iter()) {
        st.count(if o.start.is_ok() { "start:ok" } else { "start:rejected" });
        if bc.vehicles[*vi].kind != "ice" {
            if let (Ok(s0), Some(Ok(last))) = (&o.start, o.edges.last()) {
                if (last[1] - s0[1]).abs() > 0.5 {
                    moved = true;
                }
                if last[1] == 0.0 || last[1] == 100.0 {
                    st.count("soc:clamped");
                }
            }
        }
    }
    if moved {
        st.count("soc:moved-by-more-than-half-a-percent");
        st.mark_nontrivial(&serde_json::to_string(&bc).unwrap());
    }
    let readable = json!({"queries": bc.queries.iter().map(|(vi, q)| query_json_for(q, &format!("veh{}", vi))).collect::<Vec<_>>(),
                          "vehicles": bc.vehicles.iter().enumerate().map(|(i, v)| vehicle_config(v, &format!("veh{}", i))).collect::<Vec<_>>(),
                          "speeds": bc.base.speeds, "grades": bc.base.grades, "edge_len_m": bc.base.edge_len});
    let desc = json!({"id": id, "family": family, "bcase": serde_json::to_value(&bc).unwrap(), "readable": readable,
                      "unit_mismatch": mismatch});
    let line = outs.iter().map(payload).collect::<Vec<_>>().join(" || ");
    st.case(terms, vec![format!("I {} {}", id, line)], desc);
}
fn gen_bcase(r: &mut Rng, force: Option<(&str, EnergyUnit)>) -> BCase {
    let n_edges = 1 + r.below(6) as usize;
    let mut base = gen_case(r, 0, false, Shape { n_edges, downhill: 0.3, cap_scale: 1.0 }, Query::Missing);
    base.sm = None;
    base.sv_su = base.en_su; // the builder reads the service's speed unit from the time model section
    // realistic road speeds (the forests were trained on them) and longer edges so that the charge moves
    base.speeds = base.speeds.iter().map(|_| speed_in(base.en_su, 15.0 + 60.0 * r.unit_f64())).collect();
    if let Some(g) = &mut base.grades {
        for x in g.iter_mut() {
            *x = grade_in(base.sv_gu, -0.06 + 0.12 * r.unit_f64());
        }
    }
    base.edge_len = base.edge_len.iter().map(|_| 500.0 + 9000.0 * r.unit_f64()).collect();
    let mut vehicles = vec![];
    let n_veh = 1 + r.below(3) as usize;
    for i in 0..n_veh {
        let (kind, bu) = match (&force, i) {
            (Some((k, u)), 0) => (k.to_string(), *u),
            _ => (r.pick(&["ice", "bev", "bev", "phev", "phev"]).to_string(), *r.pick(&EUS)),
        };
        // capacity: a pack of 0.5 .. 60 kWh expressed in the configured unit
        let kwh = *r.pick(&[0.5, 2.0, 12.0, 60.0]) * (0.8 + 0.4 * r.unit_f64());
        let cap = EnergyUnit::KilowattHours.convert(&Energy::new(kwh), &bu).as_f64();
        let adj = *r.pick(&[1.0, 1.1252, 1.3958]);
        vehicles.push(BVeh { kind, cap, bu, adj });
    }
    let mut queries = vec![];
    let pair = soc_pair(r, vehicles[0].kind == "bev");
    for q in pair.into_iter().take(1 + r.below(3) as usize) {
        if vehicles.len() > 1 && r.chance(1, 3) {
            queries.push((1 + r.below(vehicles.len() as u64 - 1) as usize, gen_query(r)));
        }
        queries.push((0usize, q));
    }
    if r.chance(1, 2) {
        queries.push((r.below(vehicles.len() as u64) as usize, Query::Float(20.0 + 70.0 * r.unit_f64())));
    }
    BCase { base, vehicles, queries }
}

fn main() {
    silence_panics();
    let a = parse_args();
    let header = "From Coq Require Import ZArith QArith List String Floats.\nFrom RC Require Import Base.Show Base.Res Model.Units Model.Vehicle Model.VehicleRun.\nImport ListNotations Units Vehicle VehicleRun.\nOpen Scope Z_scope.";
    let cache_on = a.stream == "cache";
    let judge = a.extra.iter().any(|x| x == "--judge-collisions");
    let judge_units = a.extra.iter().any(|x| x == "--judge-battery-unit");
    let name = match a.stream.as_str() {
        "cache" => "cache",
        "queries" => "queries",
        "builders" => "builders",
        _ => "route",
    };
    let mut st = Stream::new(&a.out, name, header, a.shards);
    if let Some(p) = &a.replay {
        st.full = true;
        let v: Value = serde_json::from_str(&std::fs::read_to_string(p).unwrap()).unwrap();
        // one case ({"case": desc}) or a batch ({"cases": [desc, ...]}: the corpus)
        let descs: Vec<Value> = match v.get("cases").and_then(|x| x.as_array()) {
            Some(a) => a.clone(),
            None => vec![v["case"].clone()],
        };
        for d in descs {
            let fam = d["family"].as_str().unwrap_or("replay").to_string();
            if !d["qcase"].is_null() {
                add_qcase(&mut st, serde_json::from_value(d["qcase"].clone()).unwrap(), &fam);
            } else if !d["bcase"].is_null() {
                add_bcase(&mut st, serde_json::from_value(d["bcase"].clone()).unwrap(), &fam, judge_units);
            } else {
                let c: Case = serde_json::from_value(d["case"].clone()).unwrap();
                add_case(&mut st, c, &fam, judge);
            }
        }
        st.finish();
        return;
    }
    let mut rng = Rng::new(a.seed);
    if name == "queries" {
        // boundary charges for BOTH battery vehicle kinds on one service instance, every value once per kind
        let bounds: Vec<Vec<Query>> = vec![
            vec![Query::Int(0), Query::Int(100), Query::Float(-0.0), Query::Float(100.0000001), Query::Float(-1e-9), Query::Int(50)],
            vec![Query::Float(99.999), Query::Float(100.0), Query::Float(0.0), Query::Str("abc".into()), Query::Bool(true), Query::Null],
            vec![Query::Arr, Query::Obj, Query::Missing, Query::Float(100.0), Query::Int(-1), Query::Int(101)],
        ];
        let mut brng = Rng::new(a.seed ^ 0x0C08);
        for target in [1u64, 2] {
            for qs in &bounds {
                let mut r = brng.fork();
                let mut qc = gen_qcase(&mut r);
                let c = gen_case(&mut r, target, false, Shape { n_edges: 1, downhill: 0.0, cap_scale: 1.0 }, Query::Missing);
                qc.vehicles[0] = c.veh;
                qc.queries = qs.iter().map(|q| (0usize, q.clone())).collect();
                add_qcase(&mut st, qc, "boundary-charges");
            }
        }
        // a [state] section pre-declaring battery_state with another initial value, every query keeps its own charge
        for (i, init) in [100.0, 0.0, 55.5, 100.0].iter().enumerate() {
            let mut r = brng.fork();
            let mut qc = gen_qcase(&mut r);
            qc.base.pre = vec![PF { name: "battery_state".into(), kind: PFK::Soc(*init) }];
            if i == 3 {
                qc.base.pre.push(PF { name: "time".into(), kind: PFK::Time(TimeUnit::Hours, 1.0) });
            }
            add_qcase(&mut st, qc, "state-section");
        }
        while st.next_id() < a.n {
            let mut r = rng.fork();
            let mut qc = gen_qcase(&mut r);
            if r.chance(1, 5) {
                qc.base.pre = vec![PF { name: "battery_state".into(), kind: PFK::Soc(100.0 * r.unit_f64()) }];
            }
            add_qcase(&mut st, qc, "random");
        }
        st.finish();
        return;
    }
    if name == "builders" {
        // every vehicle kind with the battery capacity in every energy unit first
        let mut brng = Rng::new(a.seed ^ 0xB08);
        for kind in ["bev", "phev"] {
            for bu in EUS.iter() {
                for _ in 0..2 {
                    let mut r = brng.fork();
                    let bc = gen_bcase(&mut r, Some((kind, *bu)));
                    add_bcase(&mut st, bc, "every-battery-unit", judge_units);
                }
            }
        }
        let mut r = brng.fork();
        let bc = gen_bcase(&mut r, Some(("ice", EnergyUnit::KilowattHours)));
        add_bcase(&mut st, bc, "every-battery-unit", judge_units);
        while st.next_id() < a.n {
            let mut r = rng.fork();
            let bc = gen_bcase(&mut r, None);
            add_bcase(&mut st, bc, "random", judge_units);
        }
        st.finish();
        return;
    }
    boundary(&mut st, a.seed, cache_on, judge);
    while st.next_id() < a.n {
        let mut r = rng.fork();
        let kind = *r.pick(&[0u64, 1, 1, 1, 2, 2, 2]);
        let n_edges = match r.below(4) {
            0 => 1 + r.below(3) as usize,
            1 => 1 + r.below(12) as usize,
            _ => 1 + r.below(40) as usize,
        };
        let downhill = *r.pick(&[0.0, 0.2, 0.5, 0.9]);
        let cap_scale = *r.pick(&[1.0, 1.0, 0.1, 0.02]);
        let q = gen_query(&mut r);
        let c = gen_case(&mut r, kind, cache_on, Shape { n_edges, downhill, cap_scale }, q);
        add_case(&mut st, c, "random", judge);
    }
    st.finish();
}
