//! C09 harness: unit conversions and the derived-quantity constructors.
//!
//! streams
//!   convert  correspondence: the real `*Unit::convert`, `Time::create`, `Speed::create`,
//!            `Energy::create`, Display names, base / associated units  vs  the model in binary64
//!            (M lines, bit-exact). One case = one ordered pair (or unit triple) x a chunk of values.
//!            `--n` = values per pair / triple.
//!   spec     the property itself on the implementation's output: one case = one pair / triple and ONE
//!            input; the implementation's results are embedded in the Coq term and judged by the
//!            specification in exact rational arithmetic (S lines; the I line is the verdict "ok").
//!            `--n` = inputs per pair / triple; the first input is always 1.0.
//!   approx   tolerance fallback (DESIGN 1.2): cases of `convert` whose bits differ from the model are re-run and
//!            judged in Coq against the exact rational value of the model, 1e-9 relative (A lines).
//!   table    behavioural extraction: convert(u, v, x) for 206 fixed probes for every ordered pair, the variant
//!            lists, associated units and base units of the compiled code, written to <out>/table.json (no Coq
//!            side) -- compared by the driver with the table the translator read from the source text, and used
//!            INSTEAD of it when the source no longer has a shape the translator parses.
use routee_compass_core::model::unit::as_f64::AsF64;
use routee_compass_core::model::unit::*;
use serde_json::{json, Value};
use verif_harness::*;

const CHUNK: usize = 50;

const DIST: [DistanceUnit; 5] =
    [DistanceUnit::Meters, DistanceUnit::Kilometers, DistanceUnit::Miles, DistanceUnit::Inches, DistanceUnit::Feet];
const TIME: [TimeUnit; 4] = [TimeUnit::Hours, TimeUnit::Minutes, TimeUnit::Seconds, TimeUnit::Milliseconds];
const SPEED: [SpeedUnit; 3] = [SpeedUnit::KilometersPerHour, SpeedUnit::MilesPerHour, SpeedUnit::MetersPerSecond];
const ENERGY: [EnergyUnit; 3] = [EnergyUnit::GallonsGasoline, EnergyUnit::GallonsDiesel, EnergyUnit::KilowattHours];
const RATE: [EnergyRateUnit; 5] = [
    EnergyRateUnit::GallonsGasolinePerMile,
    EnergyRateUnit::GallonsDieselPerMile,
    EnergyRateUnit::KilowattHoursPerMile,
    EnergyRateUnit::KilowattHoursPerKilometer,
    EnergyRateUnit::KilowattHoursPerMeter,
];
const GRADE: [GradeUnit; 3] = [GradeUnit::Percent, GradeUnit::Decimal, GradeUnit::Millis];
const WEIGHT: [WeightUnit; 3] = [WeightUnit::Pounds, WeightUnit::Tons, WeightUnit::Kg];

const FAMILIES: [&str; 6] = ["distance", "time", "speed", "energy", "grade", "weight"];

fn dbg<T: std::fmt::Debug>(u: &T) -> String {
    format!("{:?}", u)
}
fn by_name<T: std::fmt::Debug + Copy>(all: &[T], name: &str) -> T {
    *all.iter().find(|u| dbg(*u) == name).unwrap_or_else(|| panic!("unknown unit {}", name))
}
fn unit_names(fam: &str) -> Vec<String> {
    match fam {
        "distance" => DIST.iter().map(dbg).collect(),
        "time" => TIME.iter().map(dbg).collect(),
        "speed" => SPEED.iter().map(dbg).collect(),
        "energy" => ENERGY.iter().map(dbg).collect(),
        "grade" => GRADE.iter().map(dbg).collect(),
        "weight" => WEIGHT.iter().map(dbg).collect(),
        _ => panic!("family {}", fam),
    }
}

/// the REAL conversion of family `fam` from unit `u` to unit `v` (variant identifiers)
fn convert(fam: &str, u: &str, v: &str, x: f64) -> f64 {
    match fam {
        "distance" => by_name(&DIST, u).convert(&Distance::new(x), &by_name(&DIST, v)).as_f64(),
        "time" => by_name(&TIME, u).convert(&Time::new(x), &by_name(&TIME, v)).as_f64(),
        "speed" => by_name(&SPEED, u).convert(&Speed::new(x), &by_name(&SPEED, v)).as_f64(),
        "energy" => by_name(&ENERGY, u).convert(&Energy::new(x), &by_name(&ENERGY, v)).as_f64(),
        "grade" => by_name(&GRADE, u).convert(&Grade::new(x), &by_name(&GRADE, v)).as_f64(),
        "weight" => by_name(&WEIGHT, u).convert(&Weight::new(x), &by_name(&WEIGHT, v)).as_f64(),
        _ => panic!("family {}", fam),
    }
}
fn coq_fam(fam: &str) -> &'static str {
    match fam {
        "distance" => "dist",
        "time" => "time",
        "speed" => "speed",
        "energy" => "energy",
        "grade" => "grade",
        "weight" => "weight",
        _ => panic!("family {}", fam),
    }
}
fn cu(name: &str) -> String {
    format!("Units.{}", name)
}

fn err_class<E: std::fmt::Debug>(e: &E) -> String {
    let d = format!("{:?}", e);
    d.split(|c: char| !(c.is_alphanumeric() || c == '_')).next().unwrap_or("").to_string()
}
fn show_res_f(r: &Result<Result<f64, String>, String>) -> String {
    match r {
        Ok(Ok(x)) => format!("Ok {}", show_f64(*x)),
        Ok(Err(c)) => format!("Err {}", c),
        Err(_) => "Panic".to_string(),
    }
}
fn coq_res_f(r: &Result<Result<f64, String>, String>) -> String {
    match r {
        Ok(Ok(x)) => format!("(Ok {})", coq_f64(*x)),
        Ok(Err(c)) => format!("(Err {})", coq_string(c)),
        Err(_) => "(Panic \"\"%string)".to_string(),
    }
}

fn create_time(su: &str, du: &str, tu: &str, s: f64, d: f64) -> Result<Result<f64, String>, String> {
    let (su, du, tu) = (by_name(&SPEED, su), by_name(&DIST, du), by_name(&TIME, tu));
    catch(move || Time::create(&Speed::new(s), &su, &Distance::new(d), &du, &tu).map(|t| t.as_f64()).map_err(|e| err_class(&e)))
}
fn create_speed(tu: &str, du: &str, su: &str, t: f64, d: f64) -> Result<Result<f64, String>, String> {
    let (su, du, tu) = (by_name(&SPEED, su), by_name(&DIST, du), by_name(&TIME, tu));
    catch(move || Speed::create(&Time::new(t), &tu, &Distance::new(d), &du, &su).map(|t| t.as_f64()).map_err(|e| err_class(&e)))
}
fn create_energy(eru: &str, du: &str, r: f64, d: f64) -> Result<Result<(f64, EnergyUnit), String>, String> {
    let (eru, du) = (by_name(&RATE, eru), by_name(&DIST, du));
    catch(move || {
        Energy::create(&EnergyRate::new(r), &eru, &Distance::new(d), &du).map(|(e, u)| (e.as_f64(), u)).map_err(|e| err_class(&e))
    })
}
fn show_res_e(r: &Result<Result<(f64, EnergyUnit), String>, String>) -> String {
    match r {
        Ok(Ok((x, u))) => format!("Ok {}@{}", show_f64(*x), u),
        Ok(Err(c)) => format!("Err {}", c),
        Err(_) => "Panic".to_string(),
    }
}
fn coq_res_e(r: &Result<Result<(f64, EnergyUnit), String>, String>) -> String {
    match r {
        Ok(Ok((x, u))) => format!("(Ok ({}, {}))", coq_f64(*x), cu(&dbg(u))),
        Ok(Err(c)) => format!("(Err {})", coq_string(c)),
        Err(_) => "(Panic \"\"%string)".to_string(),
    }
}

// ---------- values ----------
fn bits(x: f64) -> String {
    format!("0x{:016x}", x.to_bits())
}
fn from_bits(v: &Value) -> f64 {
    let s = v.as_str().unwrap();
    f64::from_bits(u64::from_str_radix(s.trim_start_matches("0x"), 16).unwrap())
}
const BOUNDARY: [f64; 44] = [
    0.0, -0.0, 1.0, -1.0, 2.0, 0.5, 0.1, -0.1, 3.0, 10.0, 100.0, 1000.0, 60.0, 3600.0, 1609.344, 0.3048, 0.0254,
    1e-12, -1e-12, 1e12, -1e12, 1e-300, -1e-300, 1e300, -1e300, 1e-9, 1e9, 123456.789, -987.654321,
    f64::MIN_POSITIVE, -f64::MIN_POSITIVE, 5e-324, -5e-324, 2.5e-320, f64::MAX, -f64::MAX, f64::EPSILON, 1.0000000000000002,
    0.9999999999999999, 4503599627370496.0, 9007199254740993.0, f64::INFINITY, f64::NEG_INFINITY, f64::NAN,
];
fn random_value(r: &mut Rng) -> f64 {
    match r.below(10) {
        0 => f64::from_bits(r.next_u64()), // any bit pattern (NaN payloads, subnormals, huge)
        1 => r.range(-1000, 1000) as f64,
        2 => r.range(0, 100000) as f64 / 100.0,
        _ => {
            // log-uniform magnitude in 1e-12 .. 1e12, random sign (negative one time in four)
            let e = r.unit_f64() * 24.0 - 12.0;
            let m = 10f64.powf(e) * (1.0 + r.unit_f64());
            if r.chance(1, 4) {
                -m
            } else {
                m
            }
        }
    }
}
fn values(r: &mut Rng, n: usize) -> Vec<f64> {
    let mut v: Vec<f64> = BOUNDARY.iter().cloned().take(n).collect();
    while v.len() < n {
        v.push(random_value(r));
    }
    v
}
const PAIR_BOUNDARY: [(f64, f64); 28] = [
    (1.0, 1.0), (0.0, 1.0), (1.0, 0.0), (0.0, 0.0), (-0.0, 1.0), (1.0, -0.0), (-1.0, 1.0), (1.0, -1.0), (-1.0, -1.0),
    (60.0, 1000.0), (100.0, 1609.344), (0.1, 0.1), (1e-12, 1.0), (1.0, 1e-12), (1e12, 1.0), (1.0, 1e12),
    (5e-324, 1.0), (1.0, 5e-324), (1e300, 1e-300), (1e-300, 1e300), (f64::MAX, f64::MAX), (f64::INFINITY, 1.0),
    (1.0, f64::INFINITY), (f64::INFINITY, f64::INFINITY), (f64::NAN, 1.0), (1.0, f64::NAN), (f64::NEG_INFINITY, 1.0),
    (1e-320, 1e-320),
];
fn positive(r: &mut Rng) -> f64 {
    let e = r.unit_f64() * 14.0 - 5.0;
    10f64.powf(e) * (1.0 + r.unit_f64())
}
fn pairs(r: &mut Rng, n: usize) -> Vec<(f64, f64)> {
    let mut v: Vec<(f64, f64)> = PAIR_BOUNDARY.iter().cloned().take(n).collect();
    while v.len() < n {
        // mostly valid (positive, moderate) inputs so that the Ok branch dominates
        v.push(if r.chance(4, 5) { (positive(r), positive(r)) } else { (random_value(r), random_value(r)) });
    }
    v
}
fn coq_pairs(ps: &[(f64, f64)]) -> String {
    coq_list(ps, |(a, b)| format!("({}, {})", coq_f64(*a), coq_f64(*b)))
}
fn json_pairs(ps: &[(f64, f64)]) -> Value {
    Value::Array(ps.iter().map(|(a, b)| json!([bits(*a), bits(*b)])).collect())
}
fn parse_pairs(v: &Value) -> Vec<(f64, f64)> {
    v.as_array().unwrap().iter().map(|p| (from_bits(&p[0]), from_bits(&p[1]))).collect()
}
fn approx(ps: &[f64]) -> Value {
    Value::Array(ps.iter().take(4).map(|x| json!(format!("{:e}", x))).collect())
}

// ---------- stream `convert` ----------
fn case_convert(st: &mut Stream, fam: &str, u: &str, v: &str, xs: &[f64]) {
    let id = st.next_id();
    let ys: Vec<f64> = xs.iter().map(|x| convert(fam, u, v, *x)).collect();
    let term = format!("UnitsRun.line_{} {} {} {} {}", coq_fam(fam), id, cu(u), cu(v), coq_list(xs, |x| coq_f64(*x)));
    st.count("kind:convert");
    st.count(&format!("family:{}", fam));
    for (x, y) in xs.iter().zip(ys.iter()) {
        st.count("evaluations");
        if u != v && x.is_finite() && *x != 0.0 {
            st.count("convert:non-identity-arm,finite-nonzero");
            st.mark_nontrivial(&format!("{}/{}/{}/{}", fam, u, v, bits(*x)));
        } else if u == v {
            st.count("convert:same-unit");
        } else {
            st.count("convert:zero-or-nonfinite");
        }
        if !y.is_finite() {
            st.count("result:nonfinite");
        }
    }
    let desc = json!({"id": id, "family": "convert", "unit_family": fam, "from": u, "to": v,
        "values_bits": xs.iter().map(|x| bits(*x)).collect::<Vec<_>>(), "values_approx": approx(xs)});
    st.case(vec![term], vec![format!("I {} {}", id, show_list(&ys, |y| show_f64(*y)))], desc);
}
fn case_builder(st: &mut Stream, kind: &str, a: &str, b: &str, c: &str, ps: &[(f64, f64)]) {
    let id = st.next_id();
    let (term, out, outs): (String, String, Vec<String>) = match kind {
        "create_time" => {
            let rs: Vec<_> = ps.iter().map(|(s, d)| create_time(a, b, c, *s, *d)).collect();
            (
                format!("UnitsRun.line_create_time {} {} {} {} {}", id, cu(a), cu(b), cu(c), coq_pairs(ps)),
                show_list(&rs, show_res_f),
                rs.iter().map(|r| show_res_f(r)).collect(),
            )
        }
        "create_speed" => {
            let rs: Vec<_> = ps.iter().map(|(t, d)| create_speed(a, b, c, *t, *d)).collect();
            (
                format!("UnitsRun.line_create_speed {} {} {} {} {}", id, cu(a), cu(b), cu(c), coq_pairs(ps)),
                show_list(&rs, show_res_f),
                rs.iter().map(|r| show_res_f(r)).collect(),
            )
        }
        "create_energy" => {
            let rs: Vec<_> = ps.iter().map(|(r, d)| create_energy(a, b, *r, *d)).collect();
            (
                format!("UnitsRun.line_create_energy {} {} {} {}", id, cu(a), cu(b), coq_pairs(ps)),
                show_list(&rs, show_res_e),
                rs.iter().map(|r| show_res_e(r)).collect(),
            )
        }
        _ => panic!("kind {}", kind),
    };
    st.count(&format!("kind:{}", kind));
    for (o, p) in outs.iter().zip(ps.iter()) {
        st.count("evaluations");
        let class = if o.starts_with("Ok") { "Ok" } else if o.starts_with("Err") { "Err" } else { "Panic" };
        st.count(&format!("{}:{}", kind, class));
        let finite = p.0.is_finite() && p.1.is_finite() && p.0 != 0.0 && p.1 != 0.0;
        if class == "Ok" && finite && !o.contains("inf") && !o.contains("nan") && !o.starts_with("Ok +0") && !o.starts_with("Ok -0") {
            st.mark_nontrivial(&format!("{}/{}/{}/{}/{}/{}", kind, a, b, c, bits(p.0), bits(p.1)));
        }
    }
    let desc = json!({"id": id, "family": kind, "units": [a, b, c], "pairs_bits": json_pairs(ps),
        "pairs_approx": approx(&ps.iter().flat_map(|p| [p.0, p.1]).collect::<Vec<_>>())});
    st.case(vec![term], vec![format!("I {} {}", id, out)], desc);
}
fn case_names(st: &mut Stream) {
    let id = st.next_id();
    fn l<T: std::fmt::Display>(xs: &[T]) -> String {
        show_list(xs, |x| x.to_string())
    }
    let out = format!(
        "distance={} time={} speed={} energy={} energy_rate={} grade={} weight={}",
        l(&DIST), l(&TIME), l(&SPEED), l(&ENERGY), l(&RATE), l(&GRADE), l(&WEIGHT)
    );
    // FromStr must accept exactly the Display spelling
    for u in DIST.iter() {
        assert_eq!(u.to_string().parse::<DistanceUnit>().unwrap(), *u);
    }
    for u in TIME.iter() {
        assert_eq!(u.to_string().parse::<TimeUnit>().unwrap(), *u);
    }
    st.count("kind:names");
    st.case(vec![format!("UnitsRun.line_names {}", id)], vec![format!("I {} {}", id, out)], json!({"id": id, "family": "names"}));
    let id = st.next_id();
    let out = format!(
        "base={},{},{} speed={} energy_rate={}",
        BASE_DISTANCE_UNIT,
        BASE_TIME_UNIT,
        BASE_SPEED_UNIT,
        show_list(&SPEED, |u| format!("{}/{}", u.associated_distance_unit(), u.associated_time_unit())),
        show_list(&RATE, |u| format!("{}/{}", u.associated_energy_unit(), u.associated_distance_unit()))
    );
    st.count("kind:assoc");
    st.case(vec![format!("UnitsRun.line_assoc {}", id)], vec![format!("I {} {}", id, out)], json!({"id": id, "family": "assoc"}));
}

fn triples(kind: &str) -> Vec<(String, String, String)> {
    let mut v = vec![];
    match kind {
        "create_time" => {
            for su in SPEED.iter() {
                for du in DIST.iter() {
                    for tu in TIME.iter() {
                        v.push((dbg(su), dbg(du), dbg(tu)));
                    }
                }
            }
        }
        "create_speed" => {
            for tu in TIME.iter() {
                for du in DIST.iter() {
                    for su in SPEED.iter() {
                        v.push((dbg(tu), dbg(du), dbg(su)));
                    }
                }
            }
        }
        _ => {
            for eru in RATE.iter() {
                for du in DIST.iter() {
                    v.push((dbg(eru), dbg(du), String::new()));
                }
            }
        }
    }
    v
}

fn stream_convert(a: &Args, st: &mut Stream) {
    if let Some(p) = &a.replay {
        st.full = true;
        let v: Value = serde_json::from_str(&std::fs::read_to_string(p).unwrap()).unwrap();
        let c = &v["case"];
        match c["family"].as_str().unwrap() {
            "convert" => {
                let xs: Vec<f64> = c["values_bits"].as_array().unwrap().iter().map(from_bits).collect();
                case_convert(st, c["unit_family"].as_str().unwrap(), c["from"].as_str().unwrap(), c["to"].as_str().unwrap(), &xs);
            }
            "names" | "assoc" => case_names(st),
            k => {
                let u: Vec<String> = c["units"].as_array().unwrap().iter().map(|x| x.as_str().unwrap().to_string()).collect();
                case_builder(st, k, &u[0], &u[1], &u[2], &parse_pairs(&c["pairs_bits"]));
            }
        }
        return;
    }
    case_names(st);
    let mut rng = Rng::new(a.seed);
    // every ordered pair of every family x n values (boundary values first, then random)
    for fam in FAMILIES.iter() {
        let names = unit_names(fam);
        for u in names.iter() {
            for v in names.iter() {
                let mut r = rng.fork();
                let xs = values(&mut r, a.n);
                for ch in xs.chunks(CHUNK) {
                    case_convert(st, fam, u, v, ch);
                }
            }
        }
    }
    // every unit triple accepted by the constructors x n input pairs
    for kind in ["create_time", "create_speed", "create_energy"] {
        for (x, y, z) in triples(kind) {
            let mut r = rng.fork();
            let ps = pairs(&mut r, a.n);
            for ch in ps.chunks(CHUNK) {
                case_builder(st, kind, &x, &y, &z, ch);
            }
        }
    }
}

// ---------- stream `spec` ----------
fn spec_convert(st: &mut Stream, fam: &str, u: &str, v: &str, x: f64) {
    let id = st.next_id();
    let y = convert(fam, u, v, x);
    let z = convert(fam, v, u, y);
    let yn = convert(fam, u, v, -x);
    let y2 = convert(fam, u, v, 2.0 * x);
    let term = format!(
        "UnitsRun.spec_{} {} {} {} {} {} {} {} {}",
        coq_fam(fam), id, cu(u), cu(v), coq_f64(x), coq_f64(y), coq_f64(z), coq_f64(yn), coq_f64(y2)
    );
    st.count("kind:convert");
    st.count(&format!("family:{}", fam));
    st.count("evaluations");
    if u != v {
        st.mark_nontrivial(&format!("{}/{}/{}/{}", fam, u, v, bits(x)));
    }
    let desc = json!({"id": id, "family": "convert", "unit_family": fam, "from": u, "to": v, "x": x, "x_bits": bits(x),
        "impl": {"convert(from,to,x)": y, "convert(to,from,that)": z}});
    st.case(vec![term], vec![format!("I {} ok", id)], desc);
}
fn spec_builder(st: &mut Stream, kind: &str, a: &str, b: &str, c: &str, p: (f64, f64)) {
    let id = st.next_id();
    let (term, shown, readable) = match kind {
        "create_time" => {
            let r = create_time(a, b, c, p.0, p.1);
            (
                format!("UnitsRun.spec_create_time {} {} {} {} {} {} {}", id, cu(a), cu(b), cu(c), coq_f64(p.0), coq_f64(p.1), coq_res_f(&r)),
                show_res_f(&r),
                format!("{:?}", r),
            )
        }
        "create_speed" => {
            let r = create_speed(a, b, c, p.0, p.1);
            (
                format!("UnitsRun.spec_create_speed {} {} {} {} {} {} {}", id, cu(a), cu(b), cu(c), coq_f64(p.0), coq_f64(p.1), coq_res_f(&r)),
                show_res_f(&r),
                format!("{:?}", r),
            )
        }
        _ => {
            let r = create_energy(a, b, p.0, p.1);
            (
                format!("UnitsRun.spec_create_energy {} {} {} {} {} {}", id, cu(a), cu(b), coq_f64(p.0), coq_f64(p.1), coq_res_e(&r)),
                show_res_e(&r),
                format!("{:?}", r),
            )
        }
    };
    st.count(&format!("kind:{}", kind));
    st.count("evaluations");
    st.count(&format!("{}:{}", kind, shown.split(' ').next().unwrap_or("")));
    st.mark_nontrivial(&format!("{}/{}/{}/{}/{}/{}", kind, a, b, c, bits(p.0), bits(p.1)));
    let desc = json!({"id": id, "family": kind, "units": [a, b, c], "inputs": [p.0, p.1], "inputs_bits": [bits(p.0), bits(p.1)],
        "impl": readable, "impl_bits": shown});
    st.case(vec![term], vec![format!("I {} ok", id)], desc);
}
fn moderate(r: &mut Rng) -> f64 {
    let e = r.unit_f64() * 12.0 - 4.0;
    10f64.powf(e) * (1.0 + r.unit_f64())
}
fn stream_spec(a: &Args, st: &mut Stream) {
    if let Some(p) = &a.replay {
        st.full = true;
        let v: Value = serde_json::from_str(&std::fs::read_to_string(p).unwrap()).unwrap();
        let c = &v["case"];
        match c["family"].as_str().unwrap() {
            "convert" => spec_convert(
                st,
                c["unit_family"].as_str().unwrap(),
                c["from"].as_str().unwrap(),
                c["to"].as_str().unwrap(),
                from_bits(&c["x_bits"]),
            ),
            k => {
                let u: Vec<String> = c["units"].as_array().unwrap().iter().map(|x| x.as_str().unwrap().to_string()).collect();
                spec_builder(st, k, &u[0], &u[1], &u[2], (from_bits(&c["inputs_bits"][0]), from_bits(&c["inputs_bits"][1])));
            }
        }
        return;
    }
    let mut rng = Rng::new(a.seed ^ 0x5bec);
    // inputs: 1.0 first (the canonical witness value), then fixed, then random moderate magnitudes
    let mut xs: Vec<f64> = vec![1.0, -2.5, 1e-9, 12345.678, 1e9];
    xs.truncate(a.n.max(1));
    while xs.len() < a.n {
        let m = moderate(&mut rng);
        xs.push(if rng.chance(1, 3) { -m } else { m });
    }
    for x in xs.iter() {
        for fam in FAMILIES.iter() {
            let names = unit_names(fam);
            for u in names.iter() {
                for v in names.iter() {
                    spec_convert(st, fam, u, v, *x);
                }
            }
        }
    }
    // constructors: (1, 1) first (the canonical witness), one ordinary pair, then EVERY sign combination of the two
    // operands, {+, 0, -0, -} x {+, 0, -0, -} (magnitudes 50 and 100): "a non-positive speed or distance is rejected
    // rather than turned into a time" must hold when both are negative too (their quotient is positive), and the
    // same for a non-positive time in Speed::create; then random moderate magnitudes
    let signs = |m: f64| [m, 0.0, -0.0, -m];
    let mut ps: Vec<(f64, f64)> = vec![(1.0, 1.0), (30.0, 1000.0)];
    for x in signs(50.0) {
        for y in signs(100.0) {
            ps.push((x, y));
        }
    }
    let mut pe: Vec<(f64, f64)> = vec![(1.0, 1.0), (30.0, 1000.0), (0.0, 1.0), (1.0, 0.0), (-1.0, 5.0), (5.0, -1.0), (-50.0, -100.0), (-0.0, -0.0)];
    for _ in 0..a.n.saturating_sub(1) {
        let p = (moderate(&mut rng), moderate(&mut rng));
        ps.push(p);
        pe.push(p);
    }
    for kind in ["create_time", "create_speed", "create_energy"] {
        for p in (if kind == "create_energy" { &pe } else { &ps }).iter() {
            for (x, y, z) in triples(kind) {
                let sign = |v: f64| if v == 0.0 { if v.is_sign_negative() { "-0" } else { "0" } } else if v < 0.0 { "-" } else { "+" };
                st.count(&format!("{}:signs({},{})", kind, sign(p.0), sign(p.1)));
                spec_builder(st, kind, &x, &y, &z, *p);
            }
        }
    }
}

// ---------- stream `table` (behavioural extraction) ----------
/// probes: six fixed values, then 200 values from a FIXED seed (the table must not depend on VERIF_SEED):
/// moderate magnitudes, both signs, full 53-bit mantissas, so that `x * k`, `x / k'` and composite arm bodies
/// are told apart bit for bit
fn table_probes() -> Vec<f64> {
    let mut v = vec![1.0f64, 3.0, 7.0, 0.1, 1e6, -2.5];
    let mut r = Rng::new(0xC09);
    while v.len() < 206 {
        let e = r.unit_f64() * 12.0 - 6.0;
        let m = 10f64.powf(e) * (1.0 + r.unit_f64());
        v.push(if r.chance(1, 4) { -m } else { m });
    }
    v
}
fn stream_table(a: &Args) {
    let probes = table_probes();
    let mut fams = serde_json::Map::new();
    for fam in FAMILIES.iter() {
        let names = unit_names(fam);
        let mut rows = vec![];
        for u in names.iter() {
            for v in names.iter() {
                let obs: Vec<Value> = probes.iter().map(|x| json!([bits(*x), bits(convert(fam, u, v, *x))])).collect();
                rows.push(json!({"from": u, "to": v, "obs": obs}));
            }
        }
        fams.insert(fam.to_string(), json!({"variants": names, "rows": rows}));
    }
    // everything else the generated file holds, as the COMPILED code has it (variant identifiers)
    fams.insert("energy_rate".to_string(), json!({"variants": RATE.iter().map(dbg).collect::<Vec<_>>(), "rows": []}));
    let pair = |a: String, b: String| json!([a, b]);
    fams.insert(
        "_associated".to_string(),
        json!({
            "speed_time_unit": SPEED.iter().map(|u| pair(dbg(u), dbg(&u.associated_time_unit()))).collect::<Vec<_>>(),
            "speed_distance_unit": SPEED.iter().map(|u| pair(dbg(u), dbg(&u.associated_distance_unit()))).collect::<Vec<_>>(),
            "energy_rate_distance_unit": RATE.iter().map(|u| pair(dbg(u), dbg(&u.associated_distance_unit()))).collect::<Vec<_>>(),
            "energy_rate_energy_unit": RATE.iter().map(|u| pair(dbg(u), dbg(&u.associated_energy_unit()))).collect::<Vec<_>>(),
        }),
    );
    fams.insert(
        "_bases".to_string(),
        json!({"base_distance_unit": dbg(&BASE_DISTANCE_UNIT), "base_time_unit": dbg(&BASE_TIME_UNIT), "base_speed_unit": dbg(&BASE_SPEED_UNIT)}),
    );
    std::fs::create_dir_all(&a.out).unwrap();
    std::fs::write(a.out.join("table.json"), Value::Object(fams).to_string()).unwrap();
}

// ---------- stream `approx` (tolerance-band re-judgement of cases whose bits differ) ----------
/// input: `--replay FILE` with {"cases": [<case descriptions of stream `convert`>]}.  Every case is re-run on the
/// real code; its inputs AND the implementation's outputs are embedded in a Coq term that judges each output
/// against the exact (rational) value of the model: A line "ok" / "FAIL ...", impl line "ok".
fn stream_approx(a: &Args, st: &mut Stream) {
    let p = a.replay.as_ref().expect("stream approx needs --replay");
    let v: Value = serde_json::from_str(&std::fs::read_to_string(p).unwrap()).unwrap();
    for c in v["cases"].as_array().unwrap().iter() {
        let id = st.next_id();
        let mut desc = c.clone();
        desc["orig_id"] = c["id"].clone();
        desc["id"] = json!(id);
        st.count("evaluations");
        let term = match c["family"].as_str().unwrap() {
            "convert" => {
                let (fam, u, w) = (c["unit_family"].as_str().unwrap(), c["from"].as_str().unwrap(), c["to"].as_str().unwrap());
                let xs: Vec<f64> = c["values_bits"].as_array().unwrap().iter().map(from_bits).collect();
                let ys: Vec<f64> = xs.iter().map(|x| convert(fam, u, w, *x)).collect();
                format!("UnitsRun.approx_{} {} {} {} {} {}", coq_fam(fam), id, cu(u), cu(w), coq_list(&xs, |x| coq_f64(*x)), coq_list(&ys, |y| coq_f64(*y)))
            }
            k @ ("create_time" | "create_speed" | "create_energy") => {
                let u: Vec<String> = c["units"].as_array().unwrap().iter().map(|x| x.as_str().unwrap().to_string()).collect();
                let ps = parse_pairs(&c["pairs_bits"]);
                match k {
                    "create_time" => {
                        let rs: Vec<_> = ps.iter().map(|(s, d)| create_time(&u[0], &u[1], &u[2], *s, *d)).collect();
                        format!("UnitsRun.approx_create_time {} {} {} {} {} {}", id, cu(&u[0]), cu(&u[1]), cu(&u[2]), coq_pairs(&ps), coq_list(&rs, coq_res_f))
                    }
                    "create_speed" => {
                        let rs: Vec<_> = ps.iter().map(|(t, d)| create_speed(&u[0], &u[1], &u[2], *t, *d)).collect();
                        format!("UnitsRun.approx_create_speed {} {} {} {} {} {}", id, cu(&u[0]), cu(&u[1]), cu(&u[2]), coq_pairs(&ps), coq_list(&rs, coq_res_f))
                    }
                    _ => {
                        let rs: Vec<_> = ps.iter().map(|(r, d)| create_energy(&u[0], &u[1], *r, *d)).collect();
                        format!("UnitsRun.approx_create_energy {} {} {} {} {}", id, cu(&u[0]), cu(&u[1]), coq_pairs(&ps), coq_list(&rs, coq_res_e))
                    }
                }
            }
            // names / associated units are text: nothing to re-judge
            _ => format!("Show.line \"A\" {} \"FAIL not-numeric\"", id),
        };
        st.case(vec![term], vec![format!("I {} ok", id)], desc);
    }
}

fn main() {
    silence_panics();
    let a = parse_args();
    let header = "From Coq Require Import ZArith List String Floats.\nFrom RC Require Import Base.Show Base.Num Base.Res Model.Units Model.UnitsRun.\nImport ListNotations.\nOpen Scope Z_scope.";
    match a.stream.as_str() {
        "convert" => {
            let mut st = Stream::new(&a.out, "convert", header, a.shards);
            stream_convert(&a, &mut st);
            st.finish();
        }
        "spec" => {
            let mut st = Stream::new(&a.out, "spec", header, a.shards);
            stream_spec(&a, &mut st);
            st.finish();
        }
        "approx" => {
            let mut st = Stream::new(&a.out, "approx", header, a.shards);
            st.full = true;
            stream_approx(&a, &mut st);
            st.finish();
        }
        "table" => stream_table(&a),
        s => panic!("unknown stream {}", s),
    }
}
