//! C10 harness: search limits bound the work and never alter an answer, only stop it.
//!
//! Streams (all drive the REAL routee_compass_core / routee_compass code):
//!   limits  one case = one world + one query with a whole SWEEP of termination models: IterationsLimit 0..needed+3,
//!           SolutionSizeLimit 0..needed+3, Combined (nested, empty, mixed), QueryRuntimeLimit with frequencies 1..5
//!           under clock scripts played through hook H2 (crossing the limit between two scheduled checks, equal to the
//!           limit, non-monotone, never), zero frequency.  Plain searches: Dijkstra / A*, vertex- and edge-oriented,
//!           forward and reverse.  Observed per entry: status, explanation, iterations, trees, routes, digest of the
//!           full-detail outcome, and the (solution size, iterations) counters of every TerminationModel::test call
//!           (hook H2).
//!   ksp     the same sweep through SearchAlgorithm::KspSingleVia / Yens { underlying: Dijkstra | A* }: every
//!           sub-search runs under the limit.
//!   pred    TerminationModel::{terminate_search, explain_termination, test} called directly.
//!   config  JSON -> TerminationModelBuilder::build -> TerminationModel (or the configuration error).
//! Coq counterpart: coq/Model/Termination.v (module TM), coq/Model/TerminationRun.v (module TR).
use routee_compass::app::compass::config::compass_configuration_error::CompassConfigurationError;
use routee_compass::app::compass::config::termination_model_builder::TerminationModelBuilder;
use routee_compass_core::algorithm::search::direction::Direction;
use routee_compass_core::algorithm::search::search_algorithm::SearchAlgorithm;
use routee_compass_core::algorithm::search::search_algorithm_result::SearchAlgorithmResult;
use routee_compass_core::algorithm::search::search_error::SearchError;
use routee_compass_core::algorithm::search::util::route_similarity_function::RouteSimilarityFunction;
use routee_compass_core::model::network::{EdgeId, VertexId};
use routee_compass_core::model::termination::termination_model::{verif_clock, TerminationModel};
use routee_compass_core::model::termination::termination_model_error::TerminationModelError;
use serde_json::{json, Value};
use std::sync::Arc;
use std::time::{Duration, Instant};
use verif_harness::searchkit::*;
use verif_harness::*;

const WATCHDOG_MS: u64 = 1500;

// ------------------------------------------------------------------------------------- termination models

#[derive(Clone, Debug, PartialEq)]
enum T {
    Runtime { lim: u64, f: u64 }, // limit in nanoseconds
    Size(u64),
    Iter(u64),
    Combined(Vec<T>),
}
#[derive(Clone, Debug)]
struct Entry {
    t: T,
    script: Vec<u64>, // elapsed nanoseconds at iteration i (last value repeats)
}

fn to_tm(t: &T) -> TerminationModel {
    match t {
        T::Runtime { lim, f } => TerminationModel::QueryRuntimeLimit { limit: Duration::from_nanos(*lim), frequency: *f },
        T::Size(n) => TerminationModel::SolutionSizeLimit { limit: *n as usize },
        T::Iter(n) => TerminationModel::IterationsLimit { limit: *n },
        T::Combined(v) => TerminationModel::Combined { models: v.iter().map(to_tm).collect() },
    }
}
fn of_tm(m: &TerminationModel) -> T {
    match m {
        TerminationModel::QueryRuntimeLimit { limit, frequency } => T::Runtime { lim: limit.as_nanos() as u64, f: *frequency },
        TerminationModel::SolutionSizeLimit { limit } => T::Size(*limit as u64),
        TerminationModel::IterationsLimit { limit } => T::Iter(*limit),
        TerminationModel::Combined { models } => T::Combined(models.iter().map(of_tm).collect()),
    }
}
fn show_term(t: &T) -> String {
    match t {
        T::Runtime { lim, f } => format!("rt{}/{}", lim, f),
        T::Size(n) => format!("sz{}", n),
        T::Iter(n) => format!("it{}", n),
        T::Combined(v) => format!("cb{}", show_list(v, show_term)),
    }
}
fn coq_t(t: &T) -> String {
    match t {
        T::Runtime { lim, f } => format!("(TM.Runtime {}%N {}%N)", lim, f),
        T::Size(n) => format!("(TM.Size {}%N)", n),
        T::Iter(n) => format!("(TM.Iter {}%N)", n),
        T::Combined(v) => format!("(TM.Combined {})", coq_list(v, coq_t)),
    }
}
fn coq_script(s: &[u64]) -> String {
    coq_list(s, |x| format!("{}%N", x))
}
fn coq_entry(e: &Entry) -> String {
    format!("({}, {})", coq_t(&e.t), coq_script(&e.script))
}
fn t_to_json(t: &T) -> Value {
    match t {
        T::Runtime { lim, f } => json!({"rt": [lim, f]}),
        T::Size(n) => json!({ "sz": n }),
        T::Iter(n) => json!({ "it": n }),
        T::Combined(v) => json!({"cb": v.iter().map(t_to_json).collect::<Vec<_>>()}),
    }
}
fn t_from_json(v: &Value) -> T {
    if let Some(a) = v.get("rt") {
        T::Runtime { lim: a[0].as_u64().unwrap(), f: a[1].as_u64().unwrap() }
    } else if let Some(n) = v.get("sz") {
        T::Size(n.as_u64().unwrap())
    } else if let Some(n) = v.get("it") {
        T::Iter(n.as_u64().unwrap())
    } else {
        T::Combined(v["cb"].as_array().unwrap().iter().map(t_from_json).collect())
    }
}
fn entry_to_json(e: &Entry) -> Value {
    json!({"t": t_to_json(&e.t), "script": e.script, "text": show_term(&e.t)})
}
fn entry_from_json(v: &Value) -> Entry {
    Entry { t: t_from_json(&v["t"]), script: v["script"].as_array().map(|a| a.iter().map(|x| x.as_u64().unwrap()).collect()).unwrap_or_default() }
}
fn unlimited() -> Entry {
    Entry { t: T::Combined(vec![]), script: vec![] }
}

// ------------------------------------------------------------------------------------------- observations

#[derive(Clone, Debug)]
struct Obs {
    status: String,
    msg: String,
    iters: u64,
    trees: Vec<Vec<(usize, usize, usize)>>,
    routes: Vec<Vec<usize>>,
    digest: u64,
    trace: Vec<(usize, u64)>,
}
fn obs_status(s: &str, trace: Vec<(usize, u64)>) -> Obs {
    Obs { status: s.into(), msg: String::new(), iters: 0, trees: vec![], routes: vec![], digest: 0, trace }
}
/// `subsearch_only` (no longer used by any stream; kept for experiments): keep only what the sub-searches determine.
/// Since /repo 78a1dc2 single-via offers its candidates in vertex-id order, so the drivers' complete results
/// (every route, iteration count, all costs and states) are deterministic and are compared in full.
fn obs_of(r: Result<SearchAlgorithmResult, SearchError>, trace: Vec<(usize, u64)>, subsearch_only: bool) -> Obs {
    let r = r.map(|mut res| {
        if subsearch_only {
            res.routes = vec![];
            res.iterations = 0;
        }
        res
    });
    match r {
        Err(SearchError::TerminationModelFailure { source: TerminationModelError::QueryTerminated(m) }) => {
            Obs { msg: m, ..obs_status("terminated", trace) }
        }
        Err(SearchError::QueryTerminated(m)) => Obs { msg: m, ..obs_status("terminated", trace) },
        Err(e) => obs_status(&classify_error(&e), trace),
        Ok(res) => {
            let o = outcome_of(Ok(res));
            Obs {
                status: "Ok".into(),
                msg: String::new(),
                iters: o.iters,
                trees: o.trees.iter().map(|t| t.iter().map(|b| (b.v, b.parent, b.edge)).collect()).collect(),
                routes: o.routes.iter().map(|r| r.iter().map(|h| h.edge).collect()).collect(),
                digest: fnv(&show_outcome(&o, 1)) >> 2,
                trace,
            }
        }
    }
}
fn same_result(a: &Obs, b: &Obs) -> bool {
    a.status == b.status && a.msg == b.msg && a.iters == b.iters && a.trees == b.trees && a.routes == b.routes && a.digest == b.digest
}
fn show_obs_full(o: &Obs) -> String {
    if o.status == "Ok" {
        format!(
            "Ok it={} trees={} routes={}",
            o.iters,
            show_list(&o.trees, |t| show_list(t, |(v, p, e)| format!("({},{},{})", v, p, e))),
            show_list(&o.routes, |r| show_list(r, |e| e.to_string()))
        )
    } else if o.status == "terminated" {
        format!("T[{}]", o.msg)
    } else {
        o.status.clone()
    }
}
fn show_pair(p: &(usize, u64)) -> String {
    format!("({},{})", p.0, p.1)
}
fn show_entry(unl: &Obs, e: &Entry, o: &Obs) -> String {
    format!(
        "{}/{}:{}@{}{}",
        show_term(&e.t),
        show_list(&e.script, |x| x.to_string()),
        if same_result(o, unl) { "=".to_string() } else { show_obs_full(o) },
        o.trace.len(),
        o.trace.last().map(show_pair).unwrap_or("-".into())
    )
}
fn show_case(full: bool, unl: &Obs, es: &[(Entry, Obs)]) -> String {
    format!(
        "U{{{}tr={}}} {}",
        if full { format!("{} ", show_obs_full(unl)) } else { String::new() },
        show_list(&unl.trace, show_pair),
        es.iter().map(|(e, o)| show_entry(unl, e, o)).collect::<Vec<_>>().join(" ")
    )
}
fn coq_obs(o: &Obs) -> String {
    format!(
        "(TR.mkObs {} {} {} {} {} {}%Z {})",
        coq_string(&o.status),
        coq_string(&o.msg),
        o.iters,
        coq_list(&o.trees, |t| coq_list(t, |(v, p, e)| format!("({}, {}, {})", v, p, e))),
        coq_list(&o.routes, |r| coq_list(r, |e| e.to_string())),
        o.digest,
        coq_list(&o.trace, |(z, i)| format!("({}, {})", z, i))
    )
}

/// an entry's observation as a Gallina term; a result that repeats the unlimited one is written as a reference to it
/// (`u` is bound by the case term) with its own trace -- the comparison itself is made in Coq
fn coq_obs_rel(unl: &Obs, o: &Obs) -> String {
    if same_result(o, unl) {
        format!("(TR.with_trace u {})", coq_list(&o.trace, |(z, i)| format!("({}, {})", z, i)))
    } else {
        coq_obs(o)
    }
}

/// run `job` on this thread with the clock script installed and the test counters recorded (hook H2)
fn observe(script: &[u64], subsearch_only: bool, job: impl FnOnce() -> Result<SearchAlgorithmResult, SearchError> + std::panic::UnwindSafe) -> Obs {
    verif_clock::set_clock_script(Some(script.iter().map(|n| Duration::from_nanos(*n)).collect()));
    verif_clock::start_test_trace();
    let r = catch(job);
    let trace = verif_clock::take_test_trace();
    verif_clock::set_clock_script(None);
    match r {
        Ok(r) => obs_of(r, trace, subsearch_only),
        Err(_) => obs_status("Panic", trace),
    }
}
/// the same in a helper thread; no answer within `ms` milliseconds => status "Hang"
fn observe_watchdog(script: Vec<u64>, ms: u64, job: impl FnOnce() -> Result<SearchAlgorithmResult, SearchError> + std::panic::UnwindSafe + Send + 'static) -> Obs {
    let (tx, rx) = std::sync::mpsc::channel();
    std::thread::spawn(move || {
        let o = observe(&script, false, job);
        let _ = tx.send(o);
    });
    match rx.recv_timeout(Duration::from_millis(ms)) {
        Ok(o) => o,
        Err(_) => obs_status("Hang", vec![]),
    }
}

fn obs_to_json(o: &Obs) -> Value {
    json!({"status": o.status, "msg": o.msg, "iters": o.iters, "trees": o.trees, "routes": o.routes, "digest": o.digest, "trace": o.trace})
}
fn obs_from_json(v: &Value) -> Option<Obs> {
    Some(Obs {
        status: v["status"].as_str()?.to_string(),
        msg: v["msg"].as_str()?.to_string(),
        iters: v["iters"].as_u64()?,
        trees: serde_json::from_value(v["trees"].clone()).ok()?,
        routes: serde_json::from_value(v["routes"].clone()).ok()?,
        digest: v["digest"].as_u64()?,
        trace: serde_json::from_value(v["trace"].clone()).ok()?,
    })
}
static CHILD_SEQ: std::sync::atomic::AtomicU64 = std::sync::atomic::AtomicU64::new(0);
/// one search in a CHILD process of this binary (`c10 child <file>`) with its address space capped at 4 GB: a search
/// that tries to reserve memory in proportion to a huge limit dies there (status "Abort") instead of taking the
/// stream -- or the machine -- down.  `desc` = {world, query, script, and either "t" (a model) or "config" (JSON for
/// TerminationModelBuilder::build)}.
fn run_isolated(desc: &Value) -> Obs {
    let n = CHILD_SEQ.fetch_add(1, std::sync::atomic::Ordering::SeqCst);
    let path = std::env::temp_dir().join(format!("c10_child_{}_{}.json", std::process::id(), n));
    std::fs::write(&path, desc.to_string()).unwrap();
    let exe = std::env::current_exe().unwrap();
    let out = std::process::Command::new("sh")
        .arg("-c")
        .arg("ulimit -v 4000000; exec \"$0\" child \"$1\"")
        .arg(&exe)
        .arg(&path)
        .output();
    let _ = std::fs::remove_file(&path);
    match out {
        Ok(o) if o.status.success() => serde_json::from_slice::<Value>(&o.stdout).ok().and_then(|v| obs_from_json(&v)).unwrap_or_else(|| obs_status("Abort", vec![])),
        _ => obs_status("Abort", vec![]),
    }
}
fn child_main(file: &str) {
    let v: Value = serde_json::from_str(&std::fs::read_to_string(file).unwrap()).unwrap();
    let w = world_from_json(&v["world"]);
    let q = query_from_json(&v["query"]);
    let script: Vec<u64> = v["script"].as_array().map(|a| a.iter().map(|x| x.as_u64().unwrap()).collect()).unwrap_or_default();
    let o = if v.get("config").is_some() { run_built(&w, &q, &script, &v["config"]) } else { run_plain(&w, &q, &Entry { t: t_from_json(&v["t"]), script }) };
    println!("{}", obs_to_json(&o));
}
fn run_plain_maybe_isolated(w: &World, q: &Query, e: &Entry, isolate: bool) -> Obs {
    if isolate {
        run_isolated(&json!({"world": world_to_json(w), "query": query_to_json(q), "script": e.script, "t": t_to_json(&e.t)}))
    } else {
        run_plain(w, q, e)
    }
}

fn run_plain(w: &World, q: &Query, e: &Entry) -> Obs {
    let (w2, q2, t2) = (w.clone(), q.clone(), e.t.clone());
    observe(&e.script, false, move || {
        let mut si = build_instance(&w2);
        si.termination_model = Arc::new(to_tm(&t2));
        let alg = search_algorithm(&q2.alg);
        let qj = query_json(&q2);
        let d = direction(q2.dir);
        match q2.orient {
            Orient::Vertex => alg.run_vertex_oriented(VertexId(q2.source), q2.target.map(VertexId), &qj, &d, &si),
            Orient::Edge => alg.run_edge_oriented(EdgeId(q2.source), q2.target.map(EdgeId), &qj, &d, &si),
        }
    })
}

#[derive(Clone, Debug, PartialEq)]
enum Ksp {
    SingleVia { k: usize, cosine: bool },
    Yens { k: usize },
}
fn ksp_algorithm(k: &Ksp, underlying: &Alg) -> SearchAlgorithm {
    let u = Box::new(search_algorithm(underlying));
    match k {
        Ksp::SingleVia { k, cosine } => SearchAlgorithm::KspSingleVia {
            k: *k,
            underlying: u,
            similarity: if *cosine { Some(RouteSimilarityFunction::EdgeIdCosineSimilarity { threshold: 0.9 }) } else { None },
            termination: None,
        },
        Ksp::Yens { k } => SearchAlgorithm::Yens { k: *k, underlying: u, similarity: None, termination: None },
    }
}
/// Yen's driver is known not to return on some inputs (C13/C12): its UNLIMITED run gets a short watchdog (a false
/// alarm on a loaded machine only skips the case); a limited run gets a long one -- by the prefix property it cannot
/// outlast the unlimited run, so a "Hang" there is a finding, never a scheduling accident.  Single-via runs inline.
fn run_ksp(w: &World, q: &Query, ksp: &Ksp, e: &Entry, is_unlimited: bool) -> Obs {
    let (w2, q2, k2, t2) = (w.clone(), q.clone(), ksp.clone(), e.t.clone());
    let job = move || {
        let mut si = build_instance(&w2);
        si.termination_model = Arc::new(to_tm(&t2));
        let alg = ksp_algorithm(&k2, &q2.alg);
        alg.run_vertex_oriented(VertexId(q2.source), q2.target.map(VertexId), &query_json(&q2), &Direction::Forward, &si)
    };
    match ksp {
        Ksp::SingleVia { .. } => observe(&e.script, false, job),
        Ksp::Yens { .. } => observe_watchdog(e.script.clone(), if is_unlimited { WATCHDOG_MS } else { 20 * WATCHDOG_MS }, job),
    }
}

// ------------------------------------------------------------------------------------------------ sweeps

const SEC: u64 = 1_000_000_000;

/// limits 0..=hi; when that is more than `cap` values keep both ends and a random sample of the middle
fn limit_range(rng: &mut Rng, hi: u64, cap: usize) -> Vec<u64> {
    let all: Vec<u64> = (0..=hi).collect();
    if all.len() <= cap {
        return all;
    }
    let mut keep: Vec<u64> = vec![0, 1, 2, 3];
    for x in hi.saturating_sub(6)..=hi {
        keep.push(x);
    }
    while keep.len() < cap {
        keep.push(4 + rng.below(hi - 10));
    }
    keep.sort();
    keep.dedup();
    keep
}

/// a clock script for a runtime limit `lim`: below (or equal to) the limit before iteration i0, above it from i0 on
fn crossing_script(rng: &mut Rng, lim: u64, i0: usize, len: usize) -> Vec<u64> {
    let mut s = vec![];
    for i in 0..len.max(i0 + 1) {
        if i < i0 {
            // the last value before the crossing is sometimes exactly the limit (`dur > limit` is strict)
            s.push(if i + 1 == i0 && rng.chance(1, 2) { lim } else { rng.below(lim + 1) });
        } else {
            s.push(lim + 1 + rng.below(3) * rng.below(SEC));
        }
    }
    s
}

/// the sweep of one case; `needed_it` = number of limit tests of the longest (sub-)search of the unlimited run
/// (= the least iteration limit under which it completes), `needed_sz` = largest solution size it reaches
fn gen_sweep(rng: &mut Rng, needed_it: u64, needed_sz: u64, cap: usize) -> Vec<Entry> {
    let mut es: Vec<Entry> = vec![];
    for l in limit_range(rng, needed_it + 3, cap) {
        es.push(Entry { t: T::Iter(l), script: vec![] });
    }
    for l in limit_range(rng, needed_sz + 3, cap) {
        es.push(Entry { t: T::Size(l), script: vec![] });
    }
    // combinations
    let ri = |rng: &mut Rng| rng.below(needed_it + 3);
    let rs = |rng: &mut Rng| rng.below(needed_sz + 3);
    let (a, b, c, d) = (ri(rng), rs(rng), ri(rng), rs(rng));
    es.push(Entry { t: T::Combined(vec![]), script: vec![] });
    es.push(Entry { t: T::Combined(vec![T::Iter(a), T::Size(b)]), script: vec![] });
    es.push(Entry { t: T::Combined(vec![T::Size(b), T::Iter(a)]), script: vec![] });
    es.push(Entry { t: T::Combined(vec![T::Size(d), T::Iter(c), T::Size(b)]), script: vec![] });
    es.push(Entry { t: T::Combined(vec![T::Combined(vec![T::Iter(c)]), T::Combined(vec![]), T::Combined(vec![T::Size(d), T::Iter(a)])]), script: vec![] });
    // the limit exactly at what the search needs, together with a generous other limit
    es.push(Entry { t: T::Combined(vec![T::Iter(needed_it), T::Size(needed_sz)]), script: vec![] });
    es.push(Entry { t: T::Combined(vec![T::Iter(needed_it.saturating_sub(1)), T::Size(needed_sz + 9)]), script: vec![] });
    es.push(Entry { t: T::Combined(vec![T::Iter(needed_it + 9), T::Size(needed_sz.saturating_sub(1))]), script: vec![] });
    // runtime limits: every frequency 1..5, the budget runs out at iteration i0
    let len = needed_it as usize + 2;
    for f in 1..=5u64 {
        let lim = *rng.pick(&[SEC, 2 * SEC, 5 * SEC + 1, 1_500_000, 7]);
        let i0 = rng.below(needed_it + 2) as usize;
        let script = crossing_script(rng, lim, i0, len);
        es.push(Entry { t: T::Runtime { lim, f }, script: script.clone() });
        if f == 2 || f == 3 {
            // crossing right after a scheduled check: the search may run on until the next one
            let i1 = (rng.below(needed_it / f + 1) * f + 1) as usize;
            let s2 = crossing_script(rng, lim, i1, len.max(i1 + 1));
            es.push(Entry { t: T::Runtime { lim, f }, script: s2.clone() });
            // the same clock under a larger and a smaller budget (monotonicity in the runtime limit)
            es.push(Entry { t: T::Runtime { lim: lim + 3 * SEC, f }, script: s2.clone() });
            es.push(Entry { t: T::Runtime { lim: lim / 2, f }, script: s2 });
            // together with the other kinds
            es.push(Entry { t: T::Combined(vec![T::Iter(a), T::Runtime { lim, f }, T::Size(b)]), script: script.clone() });
        }
    }
    // never exhausted; exhausted from the start; exactly the limit for ever; a clock that jumps back (not a real
    // clock, but the code only ever compares the current reading)
    es.push(Entry { t: T::Runtime { lim: 3 * SEC, f: 1 }, script: vec![0, SEC, 2 * SEC] });
    es.push(Entry { t: T::Runtime { lim: 3 * SEC, f: 4 }, script: vec![3 * SEC + 1] });
    es.push(Entry { t: T::Runtime { lim: 3 * SEC, f: 1 }, script: vec![3 * SEC] });
    es.push(Entry { t: T::Runtime { lim: SEC, f: 2 }, script: vec![0, 2 * SEC, 0, 2 * SEC, 0, 0, 2 * SEC] });
    es.push(Entry { t: T::Runtime { lim: 0, f: 3 }, script: vec![] });
    // "effectively unlimited" limits as operators write them (usize::MAX, i64::MAX): larger than anything the search
    // needs, so the answer must be the unlimited one.  (Values in between -- 2^31 .. 2^53 -- could make a defective
    // implementation exhaust memory and abort the process: they live in the isolated family huge_limits.)
    for v in [u64::MAX, i64::MAX as u64] {
        es.push(Entry { t: T::Size(v), script: vec![] });
        es.push(Entry { t: T::Iter(v), script: vec![] });
    }
    es.push(Entry { t: T::Combined(vec![T::Size(u64::MAX), T::Iter(needed_it)]), script: vec![] });
    es.push(Entry { t: T::Combined(vec![T::Iter(a), T::Size(u64::MAX - 1)]), script: vec![] });
    // zero frequency (configuration error: `iteration % 0` panics), alone and inside a combination
    if rng.chance(1, 4) {
        es.push(Entry { t: T::Runtime { lim: SEC, f: 0 }, script: vec![0] });
        es.push(Entry { t: T::Combined(vec![T::Iter(needed_it + 1), T::Runtime { lim: SEC, f: 0 }]), script: vec![0] });
    }
    es
}

fn max_seg_len(trace: &[(usize, u64)]) -> u64 {
    trace.iter().map(|(_, i)| *i + 1).max().unwrap_or(0)
}
fn max_size(trace: &[(usize, u64)]) -> u64 {
    trace.iter().map(|(z, _)| *z as u64).max().unwrap_or(0)
}

fn count_entries(st: &mut Stream, unl: &Obs, es: &[(Entry, Obs)]) {
    for (e, o) in es {
        let kind = match &e.t {
            T::Runtime { f, .. } if *f == 0 => "kind:runtime_f0".to_string(),
            T::Runtime { f, .. } => format!("kind:runtime_f{}", f),
            T::Size(_) => "kind:size".into(),
            T::Iter(_) => "kind:iterations".into(),
            T::Combined(v) if v.is_empty() => "kind:combined_empty".into(),
            T::Combined(_) => "kind:combined".into(),
        };
        st.count(&kind);
        let res = if o.status == "terminated" {
            "terminated"
        } else if same_result(o, unl) {
            "same_as_unlimited"
        } else {
            "other"
        };
        st.count(&format!("entry:{}", res));
        if o.status == "terminated" {
            st.count(&format!("{}:terminated", kind));
            if o.msg.contains(", ") {
                st.count("explanation_names_2+_limits");
            }
        }
    }
    st.count(&format!("unlimited_status:{}", unl.status));
    st.count(&format!("unlimited_tests:{}", (unl.trace.len() + 3) / 4 * 4));
}

const HEADER10: &str = "From Coq Require Import ZArith NArith QArith List String Floats.\nFrom RC Require Import Base.Show Base.Num Base.Json Model.Search Model.SearchRun Model.Termination Model.TerminationRun.\nImport ListNotations.\nOpen Scope nat_scope.";

// ------------------------------------------------------------------------------------------ stream limits

fn add_limits_case(st: &mut Stream, family: &str, w: &World, q: &Query, entries: Option<Vec<Entry>>, rng: &mut Rng) {
    add_limits_case_iso(st, family, w, q, entries, rng, false)
}
/// the huge limits of the isolated family: 2^31, 2^32, 2^53, i64::MAX, u64::MAX for both count kinds, alone and combined
fn huge_entries(needed_it: u64) -> Vec<Entry> {
    let mut es = vec![];
    for v in [1u64 << 31, 1u64 << 32, 1u64 << 53, i64::MAX as u64, u64::MAX] {
        es.push(Entry { t: T::Size(v), script: vec![] });
        es.push(Entry { t: T::Iter(v), script: vec![] });
        es.push(Entry { t: T::Combined(vec![T::Size(v), T::Iter(needed_it + 3)]), script: vec![] });
    }
    // the tightest member decides: a huge limit next to a small one of the same kind
    es.push(Entry { t: T::Combined(vec![T::Size(u64::MAX), T::Size(2)]), script: vec![] });
    es.push(Entry { t: T::Combined(vec![T::Size(1 << 53), T::Combined(vec![T::Size(1)])]), script: vec![] });
    es
}
fn add_limits_case_iso(st: &mut Stream, family: &str, w: &World, q: &Query, entries: Option<Vec<Entry>>, rng: &mut Rng, isolate: bool) {
    let id = st.next_id();
    let unl = run_plain(w, q, &unlimited());
    let entries = entries.unwrap_or_else(|| if isolate { huge_entries(max_seg_len(&unl.trace)) } else { gen_sweep(rng, max_seg_len(&unl.trace), max_size(&unl.trace), 18) });
    let es: Vec<(Entry, Obs)> = entries.iter().map(|e| (e.clone(), run_plain_maybe_isolated(w, q, e, isolate))).collect();
    let wq = format!("{} {}", coq_world(w, NumKind::F), coq_query(q, NumKind::F));
    let terms = vec![
        format!("TR.line_M FN {} {}%Z {} {}", default_fuel(w), id, wq, coq_list(&entries, coq_entry)),
        format!("let u := {} in TR.line_S FN {}%Z {} u {}", coq_obs(&unl), id, wq, coq_list(&es, |(e, o)| format!("({}, {})", coq_entry(e), coq_obs_rel(&unl, o)))),
    ];
    let line = format!("I {} {}", id, show_case(true, &unl, &es));
    let desc = json!({"id": id, "stream": "limits", "family": family, "isolate": isolate, "world": world_to_json(w), "query": query_to_json(q),
                      "entries": entries.iter().map(entry_to_json).collect::<Vec<_>>(),
                      "unlimited": show_obs_full(&unl).chars().take(160).collect::<String>()});
    st.count(&format!("family:{}", family));
    st.count(&format!("orient:{:?}", q.orient));
    st.count(&format!("dir:{:?}", q.dir));
    st.count(&format!("target:{}", if q.target.is_some() { "some" } else { "none" }));
    st.count(&format!("n:{}", (w.n + 7) / 8 * 8));
    count_entries(st, &unl, &es);
    // non-trivial: the unlimited search makes at least 3 limit tests and some entry of the sweep stops it
    if unl.trace.len() >= 3 && es.iter().any(|(_, o)| o.status == "terminated") {
        st.mark_nontrivial(&format!("{}|{}", world_to_json(w), query_to_json(q)));
    }
    st.case(terms, vec![line], desc);
}

fn fixed_worlds() -> Vec<(String, World, Query)> {
    let mut out = vec![];
    let vq = |alg: Alg, dir: Dir, s: usize, t: Option<usize>| Query { alg, dir, orient: Orient::Vertex, source: s, target: t, query_wf: None };
    // a vertex of out-degree 6 at the origin: the size limit is passed by up to 6 entries in one expansion
    let star = World::new(
        9,
        vec![(0, 1), (0, 2), (0, 3), (0, 4), (0, 5), (0, 6), (6, 7), (7, 8), (1, 0), (2, 0), (3, 0), (4, 0), (5, 0), (6, 0), (7, 6), (8, 7)],
        vec![6.0, 5.0, 4.0, 3.0, 2.0, 1.0, 1.5, 1.25, 6.0, 5.0, 4.0, 3.0, 2.0, 1.0, 1.5, 1.25],
    );
    for dir in [Dir::Forward, Dir::Reverse] {
        out.push(("star_degree_six".into(), star.clone(), vq(Alg::Dijkstra, dir, 0, Some(8))));
        out.push(("star_degree_six_no_target".into(), star.clone(), vq(Alg::AStar(None), dir, 0, None)));
        // a chain: one new tree entry per iteration
        let chain = World::new(6, vec![(0, 1), (1, 2), (2, 3), (3, 4), (4, 5), (5, 4), (4, 3), (3, 2), (2, 1), (1, 0)], vec![1.0, 2.0, 3.0, 4.0, 5.0, 5.0, 4.0, 3.0, 2.0, 1.0]);
        out.push(("chain".into(), chain.clone(), vq(Alg::Dijkstra, dir, 0, Some(5))));
        out.push(("chain_unreachable".into(), World::new(4, vec![(0, 1), (1, 0), (2, 3), (3, 2)], vec![1.0, 1.0, 1.0, 1.0]), vq(Alg::Dijkstra, dir, 0, Some(3))));
        out.push(("source_is_target".into(), chain.clone(), vq(Alg::Dijkstra, dir, 2, Some(2))));
        out.push(("target_is_neighbour".into(), chain.clone(), vq(Alg::AStar(Some(1.0)), dir, 2, Some(3))));
        out.push(("unknown_source".into(), chain.clone(), vq(Alg::Dijkstra, dir, 17, Some(3))));
        out.push(("isolated_source".into(), World::new(3, vec![(1, 2), (2, 1)], vec![1.0, 1.0]), vq(Alg::Dijkstra, dir, 0, None)));
        let mut werr = chain.clone();
        werr.terr = vec![2, 7];
        out.push(("traversal_error_midway".into(), werr, vq(Alg::Dijkstra, dir, 0, Some(5))));
        let mut eq = vq(Alg::Dijkstra, dir, 0, Some(if dir == Dir::Forward { 4 } else { 9 }));
        eq.orient = Orient::Edge;
        eq.source = if dir == Dir::Forward { 0 } else { 5 };
        out.push(("edge_oriented_chain".into(), chain.clone(), eq));
    }
    out
}

/// the best of three random vertices by the number of vertices reachable in the search direction
fn pick_source(rng: &mut Rng, w: &World, dir: Dir) -> (usize, Vec<bool>) {
    let mut best: Option<(usize, Vec<bool>, usize)> = None;
    for _ in 0..3 {
        let v = rng.below(w.n as u64) as usize;
        let reach = reachable(w, dir, v);
        let k = reach.iter().filter(|b| **b).count();
        if best.as_ref().map_or(true, |b| k > b.2) {
            best = Some((v, reach, k));
        }
    }
    let b = best.unwrap();
    (b.0, b.1)
}

/// a random world and query for the plain-search sweeps: long searches preferred
fn gen_world_query(r: &mut Rng) -> (World, Query, &'static str) {
    let fam = if r.chance(3, 4) { CostFamily::TieFree } else { CostFamily::TieRich };
    let (mut w, _flags) = gen_world(r, fam);
    let (mut q, _hk) = gen_query(r, &mut w);
    if q.orient == Orient::Vertex {
        // start where much is reachable, aim at a reachable vertex (or at none: explore everything)
        let (src, reach) = pick_source(r, &w, q.dir);
        q.source = src;
        q.target = match r.below(20) {
            0..=4 => None,
            5..=16 => {
                let cands: Vec<usize> = (0..w.n).filter(|v| reach[*v] && *v != src).collect();
                if cands.is_empty() { Some((src + 1) % w.n) } else { Some(*r.pick(&cands)) }
            }
            _ => Some(r.below(w.n as u64) as usize),
        };
        let kind = *r.pick(&[HKind::Zero, HKind::Exact, HKind::Half, HKind::Admissible, HKind::Wild]);
        gen_heuristic(r, &mut w, q.dir, q.target, kind);
    } else if q.target.is_none() && r.chance(1, 2) {
        q.target = Some(r.below(w.edges.len() as u64) as usize);
    }
    let family = match fam {
        CostFamily::TieFree => "random_tie_free",
        CostFamily::TieRich => "random_tie_rich",
        _ => "random_long_haul",
    };
    (w, q, family)
}

fn stream_limits(a: &Args) {
    let mut st = Stream::new(&a.out, "limits", HEADER10, a.shards);
    if let Some(p) = &a.replay {
        st.full = true;
        let v: Value = serde_json::from_str(&std::fs::read_to_string(p).unwrap()).unwrap();
        let case = &v["case"];
        let w = world_from_json(&case["world"]);
        let q = query_from_json(&case["query"]);
        let es: Vec<Entry> = case["entries"].as_array().unwrap().iter().map(entry_from_json).collect();
        let mut rng = Rng::new(0);
        add_limits_case_iso(&mut st, "replay", &w, &q, Some(es), &mut rng, case["isolate"].as_bool().unwrap_or(false));
        st.finish();
        return;
    }
    let mut rng = Rng::new(a.seed);
    for (name, w, q) in fixed_worlds() {
        let mut r = rng.fork();
        add_limits_case(&mut st, &name, &w, &q, None, &mut r);
    }
    // limits of 2^31 .. 2^64-1, each search in its own memory-capped child process
    for (name, w, q) in fixed_worlds() {
        if q.dir == Dir::Forward && ["chain", "star_degree_six_no_target", "edge_oriented_chain"].contains(&name.as_str()) {
            let mut r = rng.fork();
            add_limits_case_iso(&mut st, &format!("huge_limits_{}", name), &w, &q, None, &mut r, true);
        }
    }
    while st.next_id() < a.n {
        let mut r = rng.fork();
        let (w, q, family) = gen_world_query(&mut r);
        add_limits_case(&mut st, family, &w, &q, None, &mut r);
    }
    st.finish();
}

// --------------------------------------------------------------------------------------------- stream ksp

fn add_ksp_case(st: &mut Stream, family: &str, w: &World, q: &Query, ksp: &Ksp, entries: Option<Vec<Entry>>, rng: &mut Rng, cap: usize) -> bool {
    let unl = run_ksp(w, q, ksp, &unlimited(), true);
    if unl.status == "Hang" || unl.status == "Panic" {
        // the unlimited driver itself does not return on this input (Yen's algorithm, known finding of C13/C12)
        st.count(&format!("skipped_unlimited_{}", unl.status));
        return false;
    }
    let id = st.next_id();
    let entries = entries.unwrap_or_else(|| gen_sweep(rng, max_seg_len(&unl.trace), max_size(&unl.trace), cap));
    let es: Vec<(Entry, Obs)> = entries.iter().map(|e| (e.clone(), run_ksp(w, q, ksp, e, false))).collect();
    let obs_terms = format!("u {}", coq_list(&es, |(e, o)| format!("({}, {})", coq_entry(e), coq_obs_rel(&unl, o))));
    let m = match ksp {
        Ksp::SingleVia { .. } => format!(
            "TR.line_M_ksp FN {} {}%Z {} {} {} {} {}",
            default_fuel(w),
            id,
            coq_world(w, NumKind::F),
            coq_query(q, NumKind::F),
            q.source,
            q.target.unwrap(),
            coq_list(&entries, coq_entry)
        ),
        Ksp::Yens { .. } => format!("Show.line \"M\"%string {}%Z \"NOMODEL\"%string", id),
    };
    let terms = vec![m, format!("let u := {} in TR.line_S_ksp FN {}%Z {} {}", coq_obs(&unl), id, coq_world(w, NumKind::F), obs_terms)];
    let line = format!("I {} {}", id, show_case(false, &unl, &es));
    let desc = json!({"id": id, "stream": "ksp", "family": family, "world": world_to_json(w), "query": query_to_json(q),
                      "ksp": match ksp { Ksp::SingleVia { k, cosine } => json!({"single_via": k, "cosine": cosine}), Ksp::Yens { k } => json!({"yens": k}) },
                      "entries": entries.iter().map(entry_to_json).collect::<Vec<_>>(),
                      "unlimited": show_obs_full(&unl).chars().take(160).collect::<String>()});
    st.count(&format!("family:{}", family));
    st.count(&format!("driver:{}", match ksp { Ksp::SingleVia { .. } => "single_via", Ksp::Yens { .. } => "yens" }));
    let subs = unl.trace.iter().filter(|(_, i)| *i == 0).count();
    st.count(&format!("unlimited_sub_searches:{}", subs.min(6)));
    count_entries(st, &unl, &es);
    if subs >= 2 && es.iter().any(|(_, o)| o.status == "terminated") {
        st.mark_nontrivial(&format!("{}|{}|{:?}", world_to_json(w), query_to_json(q), ksp));
    }
    st.case(terms, vec![line], desc);
    true
}

fn ksp_from_json(v: &Value) -> Ksp {
    if let Some(k) = v.get("single_via") {
        Ksp::SingleVia { k: k.as_u64().unwrap() as usize, cosine: v["cosine"].as_bool().unwrap_or(false) }
    } else {
        Ksp::Yens { k: v["yens"].as_u64().unwrap() as usize }
    }
}

/// a first path 0 -> 1 -> .. -> len (unit costs, target = len) and, from every inner vertex i = 1 .. len-2 (the spur
/// vertices of Yen's first round), a detour to the target: one entry edge of cost `entry_cost[i-1]` followed by a chain
/// of `detours[i-1]` unit edges over fresh vertices.  The spur search from vertex i needs about detours[i-1] + 1
/// expansions.  With detours = [20, 0], entry costs [10, 5] and len = 4 this is the network of seeded/C10-3
/// (vertex and edge numbering differ, the shape and the expansion counts do not).
fn spur_world(detours: &[usize], entry_cost: &[f64], len: usize) -> (World, Query) {
    let target = len;
    let mut n = len + 1;
    let mut edges: Vec<(usize, usize)> = (0..len).map(|i| (i, i + 1)).collect();
    let mut cost: Vec<f64> = vec![1.0; len];
    for (k, d) in detours.iter().enumerate() {
        let from = k + 1;
        if *d == 0 {
            edges.push((from, target));
            cost.push(entry_cost[k]);
        } else {
            edges.push((from, n));
            cost.push(entry_cost[k]);
            for j in 0..*d {
                let to = if j + 1 == *d { target } else { n + j + 1 };
                edges.push((n + j, to));
                cost.push(1.0);
            }
            n += *d;
        }
    }
    let w = World::new(n, edges, cost);
    let q = Query { alg: Alg::Dijkstra, dir: Dir::Forward, orient: Orient::Vertex, source: 0, target: Some(target), query_wf: None };
    (w, q)
}
/// origin 0, destination 1 and m two-link alternatives 0 -> v_i -> 1; alternative i costs about 2 * (1 + 3 i), so the
/// forward and the reverse search each pop the origin, v_0 and then the destination (3 limit tests) while every v_i
/// is in both trees: m via candidates
fn hub_world(rng: &mut Rng, m: usize) -> (World, Query) {
    let mut edges = vec![];
    let mut cost = vec![];
    for i in 0..m {
        let c = 1.0 + 3.0 * i as f64;
        edges.push((0, 2 + i));
        cost.push(c + rng.below(32) as f64 / 64.0);
        edges.push((2 + i, 1));
        cost.push(c + rng.below(32) as f64 / 64.0);
    }
    let w = World::new(m + 2, edges, cost);
    let q = Query { alg: Alg::Dijkstra, dir: Dir::Forward, orient: Orient::Vertex, source: 0, target: Some(1), query_wf: None };
    (w, q)
}
/// every edge also in the other direction (same cost): gives the reverse sub-search of single-via something to do
fn two_way(w: &World) -> World {
    let mut w2 = w.clone();
    for (i, (s, d)) in w.edges.iter().enumerate() {
        w2.edges.push((*d, *s));
        w2.cost.push(w.cost[i]);
    }
    w2
}

fn stream_ksp(a: &Args) {
    let mut st = Stream::new(&a.out, "ksp", HEADER10, a.shards);
    if let Some(p) = &a.replay {
        st.full = true;
        let v: Value = serde_json::from_str(&std::fs::read_to_string(p).unwrap()).unwrap();
        let case = &v["case"];
        let w = world_from_json(&case["world"]);
        let q = query_from_json(&case["query"]);
        let es: Vec<Entry> = case["entries"].as_array().unwrap().iter().map(entry_from_json).collect();
        let mut rng = Rng::new(0);
        add_ksp_case(&mut st, "replay", &w, &q, &ksp_from_json(&case["ksp"]), Some(es), &mut rng, 10);
        st.finish();
        std::process::exit(0);
    }
    let mut rng = Rng::new(a.seed);
    let vq = |alg: Alg, s: usize, t: usize| Query { alg, dir: Dir::Forward, orient: Orient::Vertex, source: s, target: Some(t), query_wf: None };
    // the diamond with a long way round (C13's shape): two-way streets so that the reverse search has edges too
    let diamond = World::new(
        5,
        vec![(0, 1), (1, 3), (0, 2), (2, 3), (0, 3), (3, 4), (1, 0), (3, 1), (2, 0), (3, 2), (4, 3)],
        vec![1.0, 1.25, 2.0, 2.5, 10.0, 1.5, 1.0, 1.25, 2.0, 2.5, 1.5],
    );
    for alg in [Alg::Dijkstra, Alg::AStar(None)] {
        for k in [1usize, 3] {
            let mut r = rng.fork();
            add_ksp_case(&mut st, "diamond", &diamond, &vq(alg, 0, 4), &Ksp::SingleVia { k, cosine: k == 3 }, None, &mut r, 40);
        }
        let mut r = rng.fork();
        add_ksp_case(&mut st, "diamond_yens", &diamond, &vq(alg, 0, 4), &Ksp::Yens { k: 2 }, None, &mut r, 40);
    }
    // Yen's driver with spur searches of very different lengths (seeded/C10-3's network: first path [0,1,2,3] with 4
    // expansions, a 21-expansion spur search from vertex 1 and a 1-expansion spur search from vertex 2): a limit that
    // lets the first search and one spur search through but stops another spur search must stop the QUERY
    {
        let (w, q) = spur_world(&[20, 0], &[10.0, 5.0], 4);
        for alg in [Alg::Dijkstra, Alg::AStar(None)] {
            let mut r = rng.fork();
            add_ksp_case(&mut st, "yens_spur_21_vs_1", &w, &Query { alg, ..q.clone() }, &Ksp::Yens { k: 2 }, None, &mut r, 64);
        }
        let mut r = rng.fork();
        add_ksp_case(&mut st, "single_via_on_spur_network", &two_way(&w), &q, &Ksp::SingleVia { k: 3, cosine: false }, None, &mut r, 64);
    }
    for _ in 0..(a.n / 8).max(4) {
        let mut r = rng.fork();
        let len = 3 + r.below(3) as usize; // edges of the first path
        let detours: Vec<usize> = (0..len - 2).map(|_| *r.pick(&[0usize, 0, 1, 2, 4, 7, 12, 18])).collect();
        let entry_cost: Vec<f64> = detours.iter().map(|d| (len + d + 2) as f64 + r.below(640) as f64 / 64.0).collect();
        let (w, q) = spur_world(&detours, &entry_cost, len);
        let alg = if r.chance(1, 2) { Alg::Dijkstra } else { Alg::AStar(None) };
        let k = if r.chance(1, 5) { 3 } else { 2 };
        add_ksp_case(&mut st, "yens_spurs_of_different_length", &w, &Query { alg, ..q }, &Ksp::Yens { k }, None, &mut r, 24);
    }
    // hub networks and a large k: single-via examines many via candidates AFTER its two (short) searches; an iteration
    // limit between what the searches need and the number of candidates must not stop the query
    for _ in 0..(a.n / 12).max(3) {
        let mut r = rng.fork();
        let m = 8 + r.below(25) as usize;
        let (w, q) = hub_world(&mut r, m);
        let alg = if r.chance(1, 2) { Alg::Dijkstra } else { Alg::AStar(None) };
        let k = if r.chance(1, 3) { m + 3 } else { m / 2 + r.below(m as u64 / 2 + 1) as usize };
        add_ksp_case(&mut st, "single_via_hub_large_k", &w, &Query { alg, ..q }, &Ksp::SingleVia { k, cosine: false }, None, &mut r, 24);
    }
    let mut attempts = 0;
    while st.next_id() < a.n && attempts < 20 * a.n {
        attempts += 1;
        let mut r = rng.fork();
        let fam = if r.chance(4, 5) { CostFamily::TieFree } else { CostFamily::TieRich };
        let (mut w, _flags) = gen_world(&mut r, fam);
        if w.n > 16 {
            continue;
        }
        // two-way streets help the forward and the reverse search to meet
        if r.chance(1, 2) {
            let m = w.edges.len();
            for i in 0..m {
                if r.chance(1, 2) {
                    let (s, d) = w.edges[i];
                    w.edges.push((d, s));
                    w.cost.push(w.cost[i]);
                }
            }
        }
        let (s, reach) = pick_source(&mut r, &w, Dir::Forward);
        let cands: Vec<usize> = (0..w.n).filter(|v| reach[*v] && *v != s).collect();
        let t = if cands.is_empty() || r.chance(1, 8) { (s + 1 + r.below(w.n as u64 - 1) as usize) % w.n } else { *r.pick(&cands) };
        let alg = match r.below(3) {
            0 => Alg::Dijkstra,
            1 => Alg::AStar(None),
            _ => Alg::AStar(Some(*r.pick(&WEIGHT_FACTORS))),
        };
        let kind = *r.pick(&[HKind::Zero, HKind::Exact, HKind::Half, HKind::Admissible, HKind::Wild]);
        gen_heuristic(&mut r, &mut w, Dir::Forward, Some(t), kind);
        let q = vq(alg, s, t);
        let ksp = if r.chance(1, 5) { Ksp::Yens { k: 2 } } else { Ksp::SingleVia { k: 1 + r.below(3) as usize, cosine: r.chance(1, 3) } };
        let family = match ksp {
            Ksp::Yens { .. } => "random_yens",
            _ => "random_single_via",
        };
        add_ksp_case(&mut st, family, &w, &q, &ksp, None, &mut r, 10);
    }
    st.finish();
    // abandoned watchdog threads die here
    std::process::exit(0);
}

// -------------------------------------------------------------------------------------------- stream pred

fn gen_t(rng: &mut Rng, depth: u32) -> T {
    let big = |rng: &mut Rng| match rng.below(6) {
        0 => 0,
        1 => rng.below(5),
        2 => rng.below(40),
        3 => rng.below(2000),
        4 => u64::MAX - rng.below(3),
        _ => rng.next_u64() >> rng.below(60),
    };
    match rng.below(if depth == 0 { 3 } else { 5 }) {
        0 => T::Iter(big(rng)),
        1 => T::Size(big(rng)),
        2 => T::Runtime {
            lim: match rng.below(4) {
                0 => rng.below(10) * SEC,
                1 => rng.below(400_000) * 1_000_000 + rng.below(1_000_000),
                2 => rng.next_u64() >> rng.below(40),
                _ => rng.below(100),
            },
            f: if rng.chance(1, 12) { 0 } else if rng.chance(1, 8) { rng.next_u64() >> rng.below(60) } else { 1 + rng.below(6) },
        },
        _ => {
            let n = rng.below(5) as usize;
            T::Combined((0..n).map(|_| gen_t(rng, depth - 1)).collect())
        }
    }
}
fn first_runtime_limit(t: &T) -> Option<u64> {
    match t {
        T::Runtime { lim, .. } => Some(*lim),
        T::Combined(v) => v.iter().filter_map(first_runtime_limit).next(),
        _ => None,
    }
}

fn add_pred_case(st: &mut Stream, family: &str, t: &T, script: &[u64], z: usize, i: u64) {
    let id = st.next_id();
    let m = std::panic::AssertUnwindSafe(to_tm(t));
    verif_clock::set_clock_script(Some(script.iter().map(|n| Duration::from_nanos(*n)).collect()));
    let start = Instant::now();
    let ts = match catch(|| m.terminate_search(&start, z, i)) {
        Ok(Ok(b)) => format!("Ok {}", show_bool(b)),
        Ok(Err(e)) => format!("Err {}", e),
        Err(_) => "Panic".to_string(),
    };
    let ex = match catch(|| m.explain_termination(&start, z, i)) {
        Ok(o) => format!("Ok {}", show_opt(&o, |s| s.clone())),
        Err(_) => "Panic".to_string(),
    };
    let te = match catch(|| m.test(&start, z, i)) {
        Ok(Ok(())) => "Ok ()".to_string(),
        Ok(Err(TerminationModelError::QueryTerminated(s))) => format!("Err terminated: {}", s),
        Ok(Err(TerminationModelError::RuntimeError(_))) => "Err termination: unable to explain termination".to_string(),
        Err(_) => "Panic".to_string(),
    };
    verif_clock::set_clock_script(None);
    let line = format!("I {} ts={} ex={} test={}", id, ts, ex, te);
    let terms = vec![format!("TR.line_pred {}%Z {} {} {} {}", id, coq_t(t), coq_script(script), z, i)];
    st.count(&format!("family:{}", family));
    st.count(&format!("ts:{}", ts));
    st.count(&format!("top:{}", match t { T::Runtime { .. } => "runtime", T::Size(_) => "size", T::Iter(_) => "iterations", T::Combined(_) => "combined" }));
    if te.contains(", ") {
        st.count("explanation_names_2+_limits");
    }
    if te.starts_with("Err") {
        st.mark_nontrivial(&format!("{:?}{:?}{}{}", t, script, z, i));
    }
    st.case(terms, vec![line], json!({"id": id, "stream": "pred", "family": family, "t": t_to_json(t), "text": show_term(t), "script": script, "size": z, "iteration": i}));
}

fn stream_pred(a: &Args) {
    let mut st = Stream::new(&a.out, "pred", HEADER10, a.shards);
    if let Some(p) = &a.replay {
        st.full = true;
        let v: Value = serde_json::from_str(&std::fs::read_to_string(p).unwrap()).unwrap();
        let c = &v["case"];
        let script: Vec<u64> = c["script"].as_array().unwrap().iter().map(|x| x.as_u64().unwrap()).collect();
        add_pred_case(&mut st, "replay", &t_from_json(&c["t"]), &script, c["size"].as_u64().unwrap() as usize, c["iteration"].as_u64().unwrap());
        st.finish();
        return;
    }
    // the crate's own unit-test points, and the boundaries of every comparison
    for (z, i) in [(4usize, 4u64), (5, 5), (6, 6), (0, 0)] {
        add_pred_case(&mut st, "unit_test_points", &T::Iter(5), &[0], z, i);
        add_pred_case(&mut st, "unit_test_points", &T::Size(5), &[0], z, i);
    }
    for i in 0..=11u64 {
        add_pred_case(&mut st, "runtime_frequency_10", &T::Runtime { lim: 2 * SEC, f: 10 }, &[3 * SEC], 0, i);
        add_pred_case(&mut st, "runtime_frequency_10", &T::Runtime { lim: 2 * SEC, f: 10 }, &[SEC], 0, i);
        add_pred_case(&mut st, "runtime_equal_to_limit", &T::Runtime { lim: 2 * SEC, f: 1 }, &[2 * SEC, 2 * SEC + 1], 0, i);
    }
    let three = T::Combined(vec![T::Runtime { lim: 2 * SEC, f: 1 }, T::Iter(5), T::Size(3)]);
    add_pred_case(&mut st, "combined_3", &three, &[3 * SEC], 4, 6);
    add_pred_case(&mut st, "combined_2_of_3", &three, &[3 * SEC], 2, 6);
    add_pred_case(&mut st, "combined_none", &three, &[SEC], 2, 3);
    add_pred_case(&mut st, "combined_empty", &T::Combined(vec![]), &[SEC], 2, 3);
    add_pred_case(&mut st, "hhmmss", &T::Runtime { lim: 108_208_019 * 1_000_000 + 999_999, f: 1 }, &[u64::MAX], 0, 0);
    add_pred_case(&mut st, "hhmmss", &T::Runtime { lim: 28_800 * SEC + 543 * SEC + 7_000_000, f: 1 }, &[u64::MAX], 0, 0);
    add_pred_case(&mut st, "zero_frequency", &T::Runtime { lim: SEC, f: 0 }, &[0], 0, 0);
    add_pred_case(&mut st, "zero_frequency", &T::Combined(vec![T::Iter(0), T::Runtime { lim: SEC, f: 0 }]), &[0], 0, 0);
    let mut rng = Rng::new(a.seed);
    while st.next_id() < a.n {
        let mut r = rng.fork();
        let t = gen_t(&mut r, 3);
        let lim = first_runtime_limit(&t).unwrap_or(SEC);
        let n = r.below(6) as usize;
        let script: Vec<u64> = (0..n)
            .map(|_| match r.below(4) {
                0 => lim,
                1 => lim.saturating_add(1),
                2 => r.below(lim.saturating_add(2).max(1)),
                _ => lim.saturating_add(r.below(5 * SEC)),
            })
            .collect();
        let z = match r.below(3) {
            0 => r.below(6),
            1 => r.below(50),
            _ => r.below(2001),
        } as usize;
        let i = match r.below(3) {
            0 => r.below(8),
            1 => r.below(50),
            _ => r.below(2001),
        };
        add_pred_case(&mut st, "random", &t, &script, z, i);
    }
    st.finish();
}

// ------------------------------------------------------------------------------------------ stream config

fn show_built(r: &Result<TerminationModel, CompassConfigurationError>) -> String {
    match r {
        Ok(m) => format!("Ok {}", show_term(&of_tm(m))),
        Err(CompassConfigurationError::ExpectedFieldForComponent(_, _)) => "Err config: expected field".into(),
        Err(CompassConfigurationError::ExpectedFieldWithType(_, _)) => "Err config: expected type".into(),
        Err(CompassConfigurationError::UnknownModelNameForComponent(_, _, _)) => "Err config: unknown model name".into(),
        Err(CompassConfigurationError::ConversionError(_)) => "Err config: duration".into(),
        Err(CompassConfigurationError::UserConfigurationError(_)) => "Err config: user configuration".into(),
        Err(e) => format!("Err other: {}", e),
    }
}
fn hms(rng: &mut Rng) -> String {
    match rng.below(4) {
        0 => format!("{}:{:02}:{:02}", rng.below(30), rng.below(60), rng.below(60)),
        1 => (*rng.pick(&["100:00:00", "999:59:59", "168:00:00", "1000:00:00", "00100:00:00", "0:99:99", "12345:60:60", "0:00:00"])).to_string(),
        _ => gen_hms_text(rng),
    }
}
fn gen_config(rng: &mut Rng, depth: u32) -> Value {
    let int = |rng: &mut Rng| -> Value {
        match rng.below(8) {
            0 => json!(-(rng.below(5) as i64) - 1), // negative: `as u64` wraps
            1 => json!(0),
            2 => json!(rng.below(1u64 << 40)),
            3 => json!(i64::MAX),
            _ => json!(rng.below(50)),
        }
    };
    let ty = |rng: &mut Rng, s: &str| -> String {
        match rng.below(6) {
            0 => s.to_uppercase(),
            1 => {
                let mut c: Vec<char> = s.chars().collect();
                c[0] = c[0].to_ascii_uppercase();
                c.into_iter().collect()
            }
            _ => s.to_string(),
        }
    };
    let mut v = match rng.below(if depth == 0 { 3 } else { 4 }) {
        0 => json!({"type": ty(rng, "iterations"), "limit": int(rng)}),
        1 => json!({"type": ty(rng, "solution_size"), "limit": int(rng)}),
        2 => json!({"type": ty(rng, "query_runtime"), "limit": hms(rng), "frequency": int(rng)}),
        _ => {
            let n = rng.below(4) as usize;
            json!({"type": ty(rng, "combined"), "models": (0..n).map(|_| gen_config(rng, depth - 1)).collect::<Vec<_>>()})
        }
    };
    // damage
    if rng.chance(1, 4) {
        let o = v.as_object_mut().unwrap();
        match rng.below(9) {
            0 => {
                o.remove("limit");
            }
            1 => {
                o.remove("type");
            }
            2 => {
                o.insert("type".into(), json!("runtime"));
            }
            3 => {
                o.insert("limit".into(), json!(*rng.pick(&["1:2:03", "01:02", "1:02:03.5", "a:00:00", "", "0:00:60", "12:34:56", "0:00:00"])));
            }
            4 => {
                o.insert("limit".into(), json!(2.5));
            }
            5 => {
                o.insert("frequency".into(), json!("3"));
            }
            6 => {
                o.insert("models".into(), json!({"type": "iterations", "limit": 1}));
            }
            7 => {
                o.insert("type".into(), json!(7));
            }
            _ => {
                o.insert("limit".into(), json!(u64::MAX));
            }
        }
    }
    v
}

fn add_config_case(st: &mut Stream, family: &str, js: Vec<Value>) {
    let id = st.next_id();
    let shown: Vec<String> = js
        .iter()
        .map(|j| {
            let j2 = j.clone();
            match catch(move || TerminationModelBuilder::build(&j2, None)) {
                Ok(r) => show_built(&r),
                Err(_) => "Panic".to_string(),
            }
        })
        .collect();
    for s in &shown {
        st.count(&format!("built:{}", if s.starts_with("Ok") { "Ok" } else { s.as_str() }));
    }
    if shown.iter().any(|s| s.starts_with("Ok cb[") && s.len() > 8) {
        st.mark_nontrivial(&format!("{:?}", js));
    }
    st.count(&format!("family:{}", family));
    let line = format!("I {} {}", id, shown.join(" | "));
    let terms = vec![format!("TR.line_build {}%Z {}", id, coq_list(&js, coq_json))];
    st.case(terms, vec![line], json!({"id": id, "stream": "config", "family": family, "configs": js}));
}

/// a search under the model that TerminationModelBuilder::build returns for `j` (the builder's own object, not a
/// reconstruction), with the clock script installed
fn run_built(w: &World, q: &Query, script: &[u64], j: &Value) -> Obs {
    let (w2, q2, j2) = (w.clone(), q.clone(), j.clone());
    observe(script, false, move || {
        let mut si = build_instance(&w2);
        si.termination_model = Arc::new(TerminationModelBuilder::build(&j2, None).expect("built before"));
        let alg = search_algorithm(&q2.alg);
        let qj = query_json(&q2);
        let d = direction(q2.dir);
        match q2.orient {
            Orient::Vertex => alg.run_vertex_oriented(VertexId(q2.source), q2.target.map(VertexId), &qj, &d, &si),
            Orient::Edge => alg.run_edge_oriented(EdgeId(q2.source), q2.target.map(EdgeId), &qj, &d, &si),
        }
    })
}

fn hms_of(secs: u64) -> String {
    format!("{}:{:02}:{:02}", secs / 3600, (secs / 60) % 60, secs % 60)
}

/// the sweep of CONFIGURATIONS of one case (configured limits 0..needed+2 of both count kinds, combinations, runtime
/// budgets in whole seconds under one clock script, other spellings, negative numbers) and the clock script
fn gen_config_sweep(rng: &mut Rng, needed_it: u64, needed_sz: u64) -> Vec<(Value, Vec<u64>)> {
    let mut js: Vec<Value> = vec![];
    for l in limit_range(rng, needed_it + 2, 14) {
        js.push(json!({"type": "iterations", "limit": l}));
    }
    for l in limit_range(rng, needed_sz + 2, 14) {
        js.push(json!({"type": "solution_size", "limit": l}));
    }
    let (a, b) = (rng.below(needed_it + 2), rng.below(needed_sz + 2));
    js.push(json!({"type": "ITERATIONS", "limit": 0}));
    js.push(json!({"type": "Solution_Size", "limit": 0}));
    js.push(json!({"type": "combined", "models": []}));
    js.push(json!({"type": "combined", "models": [{"type": "iterations", "limit": a}, {"type": "solution_size", "limit": b}]}));
    js.push(json!({"type": "combined", "models": [{"type": "solution_size", "limit": 0}, {"type": "iterations", "limit": needed_it + 1}]}));
    js.push(json!({"type": "Combined", "models": [{"type": "combined", "models": [{"type": "iterations", "limit": 0}]}, {"type": "solution_size", "limit": needed_sz + 1}]}));
    // two+ limits of the SAME kind in one combined model, the stricter one first (a strict site limit followed by a
    // looser one, directly or inside a nested combined block), the control order, and exact duplicates: a combined
    // model stops as soon as ANY configured limit at any depth is exceeded and names every exceeded one
    let strict_it = rng.below(needed_it.max(1));
    let strict_sz = rng.below(needed_sz.max(1));
    js.push(json!({"type": "combined", "models": [{"type": "iterations", "limit": strict_it}, {"type": "iterations", "limit": needed_it + 1000}]}));
    js.push(json!({"type": "combined", "models": [{"type": "iterations", "limit": needed_it + 1000}, {"type": "iterations", "limit": strict_it}]}));
    js.push(json!({"type": "combined", "models": [{"type": "solution_size", "limit": strict_sz}, {"type": "iterations", "limit": needed_it + 5}, {"type": "solution_size", "limit": needed_sz + 2000}]}));
    js.push(json!({"type": "combined", "models": [{"type": "iterations", "limit": 1},
        {"type": "combined", "models": [{"type": "query_runtime", "limit": "0:10:00", "frequency": 10}, {"type": "iterations", "limit": 1000}]}]}));
    js.push(json!({"type": "combined", "models": [{"type": "solution_size", "limit": strict_sz},
        {"type": "combined", "models": [{"type": "solution_size", "limit": 2000}, {"type": "query_runtime", "limit": "0:10:00", "frequency": 10}]}]}));
    js.push(json!({"type": "combined", "models": [{"type": "combined", "models": [{"type": "iterations", "limit": strict_it}]},
        {"type": "combined", "models": [{"type": "combined", "models": [{"type": "iterations", "limit": needed_it + 7}]}]}]}));
    js.push(json!({"type": "combined", "models": [{"type": "solution_size", "limit": strict_sz}, {"type": "iterations", "limit": strict_it}, {"type": "solution_size", "limit": strict_sz}]}));
    // outside the property (negative numbers, missing field): whatever the builder does is only compared with the model
    js.push(json!({"type": "iterations", "limit": -1}));
    js.push(json!({"type": "solution_size", "limit": -1}));
    js.push(json!({"type": "solution_size", "limit": -(2 + rng.below(5) as i64)}));
    js.push(json!({"type": "combined", "models": [{"type": "solution_size", "limit": -1}, {"type": "iterations", "limit": a}]}));
    js.push(json!({"type": "iterations"}));
    // "effectively unlimited" as operators write it: the largest value the builder accepts
    js.push(json!({"type": "solution_size", "limit": i64::MAX}));
    js.push(json!({"type": "iterations", "limit": i64::MAX}));
    js.push(json!({"type": "combined", "models": [{"type": "solution_size", "limit": i64::MAX}, {"type": "iterations", "limit": needed_it}]}));
    // runtime budgets in whole seconds; the clock passes 1 s at iteration i0 and 4 s one iteration later
    let i0 = rng.below(needed_it + 1) as usize;
    let mut script: Vec<u64> = vec![];
    for i in 0..(needed_it as usize + 2) {
        script.push(if i < i0 { rng.below(2) * SEC } else if i == i0 { SEC + 1 + rng.below(SEC) } else { 4 * SEC + rng.below(3) * SEC });
    }
    let f = 1 + rng.below(5);
    for secs in [0u64, 1, 3, 10] {
        js.push(json!({"type": "query_runtime", "limit": hms_of(secs), "frequency": f}));
    }
    js.push(json!({"type": "Query_Runtime", "limit": "0:00:01", "frequency": 1 + rng.below(5)}));
    js.push(json!({"type": "combined", "models": [{"type": "query_runtime", "limit": "0:00:01", "frequency": f}, {"type": "iterations", "limit": a}]}));
    // two runtime budgets in one combined model, the tight one first / inside a nested block after a generous one
    js.push(json!({"type": "combined", "models": [{"type": "query_runtime", "limit": "0:00:01", "frequency": f}, {"type": "query_runtime", "limit": "0:10:00", "frequency": f}]}));
    js.push(json!({"type": "combined", "models": [{"type": "query_runtime", "limit": "0:00:00", "frequency": 1},
        {"type": "combined", "models": [{"type": "iterations", "limit": needed_it + 9}, {"type": "query_runtime", "limit": "1:00:00", "frequency": 1}]}]}));
    // a frequency that is not an integer >= 1 (0, negative, fractional, text, missing), at the top level, inside
    // combined and nested: the builder must refuse it (there is no schedule `iteration % 0`); the clock of this case
    // passes every one of these budgets, so a search under an accepted one would have to be stopped
    js.push(json!({"type": "query_runtime", "limit": "0:00:01", "frequency": 0}));
    js.push(json!({"type": "query_runtime", "limit": "00:00:00", "frequency": 0}));
    js.push(json!({"type": "Query_Runtime", "limit": "0:00:00", "frequency": -1}));
    js.push(json!({"type": "query_runtime", "limit": "0:00:00", "frequency": 2.5}));
    js.push(json!({"type": "query_runtime", "limit": "0:00:00", "frequency": "3"}));
    js.push(json!({"type": "query_runtime", "limit": "0:00:00"}));
    js.push(json!({"type": "combined", "models": [{"type": "iterations", "limit": needed_it + 5}, {"type": "query_runtime", "limit": "00:00:00", "frequency": 0}]}));
    js.push(json!({"type": "combined", "models": [{"type": "solution_size", "limit": needed_sz + 5},
        {"type": "combined", "models": [{"type": "query_runtime", "limit": "0:00:01", "frequency": 0}, {"type": "iterations", "limit": needed_it + 5}]}]}));
    let mut out: Vec<(Value, Vec<u64>)> = js.into_iter().map(|j| (j, script.clone())).collect();
    // ---- time budgets over the whole grammar of the `h:mm:ss` notation, each under clocks placed around ITS budget
    let mut texts: Vec<String> = vec!["100:00:00".into(), "999:59:59".into(), "168:00:00".into(), "1000:00:00".into(), "99:00:00".into(), "00:00:00".into()];
    for _ in 0..2 {
        texts.push(gen_hms_text(rng));
    }
    let fq = 1 + rng.below(3);
    for txt in texts {
        let Some(secs) = hms_seconds(&txt) else { continue };
        let b = secs * SEC; // the configured budget in ns
        // (i) the clock stays within the budget (half of it, nine tenths, exactly the budget): the search is answered
        let within: Vec<u64> = (0..needed_it as usize + 2).map(|i| match i % 3 { 0 => b / 2, 1 => b / 10 * 9, _ => b }).collect();
        out.push((json!({"type": "query_runtime", "limit": txt, "frequency": fq}), within.clone()));
        // (ii) it passes the budget at iteration i0: stopped at the next scheduled check, the text names the budget
        let i0 = rng.below(needed_it + 1) as usize;
        let crossing: Vec<u64> = (0..needed_it as usize + 2).map(|i| if i < i0 { b / 10 * 9 } else { b + 1 + rng.below(SEC) }).collect();
        out.push((json!({"type": "query_runtime", "limit": txt, "frequency": fq}), crossing.clone()));
        out.push((json!({"type": "combined", "models": [{"type": "iterations", "limit": needed_it + 4}, {"type": "query_runtime", "limit": txt, "frequency": fq}]}), within));
    }
    // the same clock (30 h .. 150 h) under budgets of two and of three hour digits: success is monotone in the budget
    let mono: Vec<u64> = (0..needed_it as usize + 2).map(|i| (30 + 40 * (i as u64 % 4)) * 3600 * SEC).collect();
    for txt in ["9:00:00", "99:00:00", "100:00:00", "168:00:00", "1000:00:00", "99999:59:59"] {
        out.push((json!({"type": "query_runtime", "limit": txt, "frequency": 1}), mono.clone()));
    }
    // strings outside the notation: the builder must refuse them (compared with the model; nothing runs)
    for bad in [" 1:00:00", "1:00:00 ", "1:00:00\n", "1:0:00", "1:00:0", "1:00:00.5", "1:00", "::", ":00:00", "-1:00:00", "+1:00:00", "1:00:00:00", "1 :00:00", "1:000:00", "0x1:00:00", "1h", "3600", "xx100:00:00", "100:00:00xx"] {
        out.push((json!({"type": "query_runtime", "limit": bad, "frequency": 1}), vec![0]));
    }
    out
}

/// the value of an `h:mm:ss` text as the documentation reads it (None: not in the notation); harness-side twin of the
/// Coq spec parser, used only to place the clock scripts around the configured budget
fn hms_seconds(t: &str) -> Option<u64> {
    let p: Vec<&str> = t.split(':').collect();
    if p.len() != 3 || p[0].is_empty() || p[1].len() != 2 || p[2].len() != 2 || !p.iter().all(|x| x.bytes().all(|c| c.is_ascii_digit())) {
        return None;
    }
    Some(p[0].parse::<u64>().ok()? * 3600 + p[1].parse::<u64>().ok()? * 60 + p[2].parse::<u64>().ok()?)
}
/// a random text of the notation: 1..5 hour digits (leading zeros allowed), minutes and seconds 00..99
fn gen_hms_text(rng: &mut Rng) -> String {
    let nd = 1 + rng.below(5) as usize;
    let mut h = String::new();
    for i in 0..nd {
        let d = if i == 0 && rng.chance(1, 3) { 0 } else { rng.below(10) };
        h.push(char::from(b'0' + d as u8));
    }
    let two = |rng: &mut Rng| if rng.chance(1, 5) { 60 + rng.below(40) } else { rng.below(60) };
    format!("{}:{:02}:{:02}", h, two(rng), two(rng))
}



fn add_config_run_case(st: &mut Stream, family: &str, w: &World, q: &Query, sweep: Option<Vec<(Value, Vec<u64>)>>, rng: &mut Rng, isolate: bool) {
    let id = st.next_id();
    let unl = run_plain(w, q, &unlimited());
    let sweep = sweep.unwrap_or_else(|| gen_config_sweep(rng, max_seg_len(&unl.trace), max_size(&unl.trace)));
    // per configuration: what the builder returned (text, Gallina term) and the search observed under the built model
    let mut shown: Vec<String> = vec![];
    let mut coq_cs: Vec<String> = vec![];
    for (j, script) in &sweep {
        let j2 = j.clone();
        let built = catch(move || TerminationModelBuilder::build(&j2, None));
        let (text, coq_b, obs) = match &built {
            Ok(r @ Ok(m)) => {
                let t = of_tm(m);
                let o = if isolate {
                    run_isolated(&json!({"world": world_to_json(w), "query": query_to_json(q), "script": script, "config": j}))
                } else {
                    run_built(w, q, script, j)
                };
                let e = Entry { t: t.clone(), script: script.clone() };
                (format!("{} => {}", show_built(r), show_entry(&unl, &e, &o)), format!("(Ok {})", coq_t(&t)), Some(o))
            }
            Ok(r @ Err(_)) => {
                let s = show_built(r);
                (s.clone(), format!("(Err {})", coq_string(s.trim_start_matches("Err "))), None)
            }
            Err(_) => ("Panic".to_string(), "(Panic \"\"%string)".to_string(), None),
        };
        st.count(&format!("built:{}", if text.starts_with("Ok") { "Ok" } else { text.as_str() }));
        if let Some(o) = &obs {
            st.count(&format!("run:{}", if o.status == "terminated" { "terminated" } else if same_result(o, &unl) { "same_as_unlimited" } else { "other" }));
        }
        if j["type"].as_str().map(|t| t.eq_ignore_ascii_case("query_runtime")).unwrap_or(false) {
            let hd = j["limit"].as_str().and_then(|t| t.split(':').next().map(|h| h.len())).unwrap_or(0);
            st.count(&format!("runtime_text:{}", if j["limit"].as_str().and_then(hms_seconds).is_some() { format!("hour_digits_{}", hd) } else { "outside_notation".to_string() }));
        }
        coq_cs.push(format!("({}, {}, {}, {})", coq_json(j), coq_script(script), coq_b, match &obs { Some(o) => format!("(Some {})", coq_obs_rel(&unl, o)), None => "None".to_string() }));
        shown.push(text);
    }
    let wq = format!("{} {}", coq_world(w, NumKind::F), coq_query(q, NumKind::F));
    let terms = vec![
        format!("TR.line_M_config FN {} {}%Z {} {}", default_fuel(w), id, wq, coq_list(&sweep, |(j, sc)| format!("({}, {})", coq_json(j), coq_script(sc)))),
        format!("let u := {} in TR.line_S_config FN {}%Z {} u [{}]", coq_obs(&unl), id, wq, coq_cs.join("; ")),
    ];
    let line = format!("I {} U{{{} tr={}}} {}", id, show_obs_full(&unl), show_list(&unl.trace, show_pair), shown.join(" | "));
    st.count(&format!("family:{}", family));
    st.count(&format!("unlimited_status:{}", unl.status));
    if unl.trace.len() >= 3 {
        st.mark_nontrivial(&format!("{}|{}", world_to_json(w), query_to_json(q)));
    }
    st.case(terms, vec![line], json!({"id": id, "stream": "config", "kind": "run", "isolate": isolate, "family": family, "world": world_to_json(w), "query": query_to_json(q),
                                      "configs": sweep.iter().map(|(j, _)| j.clone()).collect::<Vec<_>>(), "scripts": sweep.iter().map(|(_, sc)| sc.clone()).collect::<Vec<_>>(),
                                      "unlimited": show_obs_full(&unl).chars().take(160).collect::<String>()}));
}

/// configured limits of 2^31 .. i64::MAX and negative ones (the builder's `as u64` / `as usize` wraps them to
/// "effectively unlimited"); every search in its own memory-capped child process
fn huge_configs(needed_it: u64) -> Vec<(Value, Vec<u64>)> {
    let mut js = vec![];
    for v in [1i64 << 31, 1i64 << 32, 1i64 << 53, i64::MAX, -1, -2] {
        js.push(json!({"type": "solution_size", "limit": v}));
        js.push(json!({"type": "iterations", "limit": v}));
        js.push(json!({"type": "combined", "models": [{"type": "solution_size", "limit": v}, {"type": "iterations", "limit": needed_it + 3}]}));
    }
    js.push(json!({"type": "combined", "models": [{"type": "solution_size", "limit": i64::MAX}, {"type": "solution_size", "limit": 2}]}));
    js.push(json!({"type": "solution_size", "limit": u64::MAX}));
    js.into_iter().map(|j| (j, vec![])).collect()
}

fn stream_config(a: &Args) {
    let header = format!("{}\nFrom RC Require Import Base.Res.\nOpen Scope string_scope.", HEADER10);
    let mut st = Stream::new(&a.out, "config", &header, a.shards);
    if let Some(p) = &a.replay {
        st.full = true;
        let v: Value = serde_json::from_str(&std::fs::read_to_string(p).unwrap()).unwrap();
        let case = &v["case"];
        let js = case["configs"].as_array().unwrap().clone();
        if case["kind"] == "run" {
            let nums = |x: &Value| -> Vec<u64> { x.as_array().map(|a| a.iter().map(|y| y.as_u64().unwrap()).collect()).unwrap_or_default() };
            // one clock script per configuration ("scripts"), or one for all ("script", older replay files)
            let sweep: Vec<(Value, Vec<u64>)> = js.iter().enumerate().map(|(i, j)| (j.clone(), if case["scripts"].is_array() { nums(&case["scripts"][i]) } else { nums(&case["script"]) })).collect();
            let mut rng = Rng::new(0);
            add_config_run_case(&mut st, "replay", &world_from_json(&case["world"]), &query_from_json(&case["query"]), Some(sweep), &mut rng, case["isolate"].as_bool().unwrap_or(false));
        } else {
            add_config_case(&mut st, "replay", js);
        }
        st.finish();
        return;
    }
    add_config_case(
        &mut st,
        "documented_forms",
        vec![
            json!({"type": "query_runtime", "limit": "00:02:00", "frequency": 100000}),
            json!({"type": "iterations", "limit": 5}),
            json!({"type": "solution_size", "limit": 2000000}),
            json!({"type": "combined", "models": [{"type": "query_runtime", "limit": "00:10:00", "frequency": 100000}, {"type": "solution_size", "limit": 2000000}]}),
        ],
    );
    add_config_case(&mut st, "not_an_object", vec![json!(5), json!("iterations"), json!([]), json!(null), json!({})]);
    add_config_case(&mut st, "negative_and_zero", vec![json!({"type": "iterations", "limit": -1}), json!({"type": "solution_size", "limit": -2}), json!({"type": "query_runtime", "limit": "0:00:01", "frequency": 0}), json!({"type": "query_runtime", "limit": "0:00:01", "frequency": -1})]);
    let mut rng = Rng::new(a.seed);
    // configured models at work: a real search under every built model of a sweep of configurations
    for (name, w, q) in fixed_worlds() {
        if ["chain", "star_degree_six", "star_degree_six_no_target", "chain_unreachable", "edge_oriented_chain"].contains(&name.as_str()) {
            let mut r = rng.fork();
            add_config_run_case(&mut st, &format!("run_{}", name), &w, &q, None, &mut r, false);
        }
    }
    for (name, w, q) in fixed_worlds() {
        if q.dir == Dir::Forward && ["chain", "star_degree_six_no_target"].contains(&name.as_str()) {
            let unl = run_plain(&w, &q, &unlimited());
            let mut r = rng.fork();
            add_config_run_case(&mut st, &format!("run_huge_limits_{}", name), &w, &q, Some(huge_configs(max_seg_len(&unl.trace))), &mut r, true);
        }
    }
    while st.next_id() < a.n {
        let mut r = rng.fork();
        if st.next_id() % 4 == 0 {
            let (w, q, family) = gen_world_query(&mut r);
            add_config_run_case(&mut st, &format!("run_{}", family), &w, &q, None, &mut r, false);
        } else {
            let n = 1 + r.below(3) as usize;
            add_config_case(&mut st, "random", (0..n).map(|_| gen_config(&mut r, 2)).collect());
        }
    }
    st.finish();
}

fn main() {
    silence_panics();
    let a = parse_args();
    match a.stream.as_str() {
        "limits" => stream_limits(&a),
        "ksp" => stream_ksp(&a),
        "pred" => stream_pred(&a),
        "config" => stream_config(&a),
        "child" => child_main(&a.extra[0]),
        "probe" => {
            for (name, w, q) in fixed_worlds() {
                let unl = run_plain(&w, &q, &unlimited());
                println!("{:28} {:?} :: {} tr={}", name, q.dir, show_obs_full(&unl), show_list(&unl.trace, show_pair));
            }
        }
        s => {
            eprintln!("unknown stream {}", s);
            std::process::exit(2);
        }
    }
    std::process::exit(0);
}
