//! C11 harness.
//!   cmap   CompactOrderedHashMap op sequences
//!   state  the state model on top of it: configured features + traversal/access model features + query
//!          overrides through the real collect_features / StateModel::extend / SearchApp::build_search_instance,
//!          then get/set/add sequences on the resulting state vector (module `state` at the end of this file)
use routee_compass_core::util::compact_ordered_hash_map::CompactOrderedHashMap;
use serde_json::json;
use verif_harness::*;

type M = CompactOrderedHashMap<i64, i64>;
const PROBE: [i64; 13] = [0, 1, 2, 3, 4, 5, 6, 7, 8, 9, 10, 11, 12];

fn show_kv(k: &i64, v: &i64) -> String {
    format!("{}:{}", k, v)
}
fn obs(m: &M) -> String {
    let iter: Vec<String> = m.iter().map(|(k, v)| show_kv(k, v)).collect();
    let keys: Vec<String> = m.keys().map(|k| k.to_string()).collect();
    // to_vec exposes (key, IndexedEntry) whose fields are private: read them through Debug
    let vec: Vec<String> = m
        .to_vec()
        .iter()
        .map(|(k, e)| {
            let d = format!("{:?}", e); // IndexedEntry { v: 10, index: 1 }
            let v = d.split("v: ").nth(1).unwrap().split(',').next().unwrap().trim().to_string();
            let i = d.split("index: ").nth(1).unwrap().trim_end_matches(|c| c == '}' || c == ' ').to_string();
            format!("{}:{}@{}", k, v, i)
        })
        .collect();
    let get: Vec<String> = PROBE.iter().map(|k| show_opt(&m.get(k), |v| v.to_string())).collect();
    let idx: Vec<String> = PROBE.iter().map(|k| show_opt(&m.get_index(k), |v| v.to_string())).collect();
    let pair: Vec<String> =
        (0..m.len() + 2).map(|i| show_opt(&m.get_pair(i), |(k, v)| show_kv(k, v))).collect();
    // contains_key / is_empty are checked against get / len here, on the implementation side
    for k in PROBE.iter() {
        assert_eq!(m.contains_key(k), m.get(k).is_some());
    }
    assert_eq!(m.is_empty(), m.len() == 0);
    format!(
        "len={} iter=[{}] keys=[{}] vec=[{}] get=[{}] idx=[{}] pair=[{}]",
        m.len(),
        iter.join(","),
        keys.join(","),
        vec.join(","),
        get.join(","),
        idx.join(","),
        pair.join(",")
    )
}

#[derive(Clone, Debug)]
enum Ctor {
    Empty,
    New(Vec<(i64, i64)>),
    FromIter(Vec<(i64, i64)>),
}

fn run_impl(c: &Ctor, ops: &[(i64, i64)]) -> String {
    let mut m: M = match c {
        Ctor::Empty => CompactOrderedHashMap::empty(),
        Ctor::New(l) => CompactOrderedHashMap::new(l.clone()),
        Ctor::FromIter(l) => l.clone().into_iter().collect(),
    };
    let mut parts = vec![obs(&m)];
    for (k, v) in ops {
        let old = m.insert(*k, *v);
        parts.push(format!("ret={} {}", show_opt(&old, |v| v.to_string()), obs(&m)));
    }
    parts.join(" | ")
}

fn coq_kvs(l: &[(i64, i64)]) -> String {
    coq_list(l, |(k, v)| format!("({}, {})", coq_z(*k as i128), coq_z(*v as i128)))
}
fn coq_ctor(c: &Ctor) -> String {
    match c {
        Ctor::Empty => "CEmpty".into(),
        Ctor::New(l) => format!("(CNew {})", coq_kvs(l)),
        Ctor::FromIter(l) => format!("(CFromIter {})", coq_kvs(l)),
    }
}

fn add_case(st: &mut Stream, c: Ctor, ops: Vec<(i64, i64)>, family: &str) {
    let id = st.next_id();
    let ops_coq = coq_list(&ops, |(k, v)| format!("OInsert {} {}", coq_z(*k as i128), coq_z(*v as i128)));
    let terms = vec![
        format!("line_cm {} {} {}", id, coq_ctor(&c), ops_coq),
        format!("line_spec {} {} {}", id, coq_ctor(&c), ops_coq),
    ];
    let cc = c.clone();
    let oo = ops.clone();
    let out = catch(move || run_impl(&cc, &oo)).unwrap_or_else(|e| format!("PANIC {}", e));
    let desc = json!({"id": id, "family": family, "ctor": format!("{:?}", c), "ops": ops});
    // non-trivial: final size crosses the 4->5 specialisation boundary, or an overwrite happened
    let init_len = match &c {
        Ctor::Empty => 0,
        Ctor::New(l) | Ctor::FromIter(l) => l.len(),
    };
    let mut seen = std::collections::BTreeSet::new();
    let mut overwrite = false;
    if let Ctor::New(l) | Ctor::FromIter(l) = &c {
        for (k, _) in l {
            if !seen.insert(*k) {
                overwrite = true;
            }
        }
    }
    for (k, _) in &ops {
        if !seen.insert(*k) {
            overwrite = true;
        }
    }
    let crosses = seen.len() >= 5;
    st.count(&format!("family:{}", family));
    st.count(&format!("ctor:{}", match &c { Ctor::Empty => "empty", Ctor::New(_) => "new", Ctor::FromIter(_) => "from_iter" }));
    st.count(&format!("final_size:{}", if seen.len() > 12 { 12 } else { seen.len() }));
    st.count(&format!("ops:{}", (ops.len() + 9) / 10 * 10));
    let _ = init_len;
    if overwrite {
        st.count("has_overwrite");
    }
    if crosses {
        st.count("crosses_4_to_5");
    }
    if overwrite || crosses {
        st.mark_nontrivial(&format!("{:?}{:?}", c, ops));
    }
    st.case(terms, vec![format!("I {} {}", id, out)], desc);
}

fn distinct_pairs(rng: &mut Rng, n: usize) -> Vec<(i64, i64)> {
    let mut keys: Vec<i64> = (0..13).collect();
    rng.shuffle(&mut keys);
    keys.truncate(n.min(13));
    keys.into_iter().map(|k| (k, rng.range(-50, 50))).collect()
}

/// family `huge`: n distinct keys inserted in order, every 997th overwritten afterwards; summary facts only
fn add_huge(st: &mut Stream, n: usize, family: &str) {
    let id = st.next_id();
    let key = |j: usize| (j as i64) * 7 + 3;
    let out = catch(move || {
        let mut m: M = CompactOrderedHashMap::empty();
        for j in 0..n {
            m.insert(key(j), j as i64);
        }
        let mut j = 0;
        while j < n {
            m.insert(key(j), -(j as i64) - 1); // overwrite: slot kept
            j += 997;
        }
        let mut samples: Vec<usize> = (0..n).step_by(4096).collect();
        if n > 0 {
            samples.push(n - 1);
        }
        let idx: Vec<String> = samples.iter().map(|j| show_opt(&m.get_index(&key(*j)), |v| v.to_string())).collect();
        let mut seen = std::collections::HashSet::new();
        for j in 0..n {
            if let Some(i) = m.get_index(&key(j)) {
                seen.insert(i);
            }
        }
        let iter_keys: Vec<i64> = m.iter().map(|(k, _)| *k).collect();
        let keys: Vec<i64> = m.keys().cloned().collect();
        let want: Vec<i64> = (0..n).map(key).collect();
        let asc = m.to_vec().iter().enumerate().all(|(i, (_, e))| format!("{:?}", e).contains(&format!("index: {} ", i)) || format!("{:?}", e).ends_with(&format!("index: {} }}", i)));
        let vals = (0..n).all(|j| m.get(&key(j)) == Some(&(if j % 997 == 0 { -(j as i64) - 1 } else { j as i64 })));
        format!(
            "len={} idx=[{}] distinct_indices={} iter_len={} keys_len={} iter_in_insertion_order={} keys_in_insertion_order={} to_vec_indices_ascending={} values_ok={}",
            m.len(),
            idx.join(","),
            seen.len(),
            iter_keys.len(),
            keys.len(),
            show_bool(iter_keys == want),
            show_bool(keys == want),
            show_bool(asc),
            show_bool(vals)
        )
    })
    .unwrap_or_else(|e| format!("PANIC {}", e));
    st.count(&format!("family:{}", family));
    st.count("crosses_4_to_5");
    st.count(&format!("huge_keys:{}", n));
    st.mark_nontrivial(&format!("huge{}", n));
    let terms = vec![format!("line_huge \"M\"%string {} {}", id, n), format!("line_huge \"S\"%string {} {}", id, n)];
    st.case(terms, vec![format!("I {} {}", id, out)], json!({"id": id, "family": family, "huge": n}));
}

fn main() {
    silence_panics();
    let a = parse_args();
    if a.stream == "state" {
        state::main(a);
        return;
    }
    let header = "From Coq Require Import ZArith List String.\nFrom RC Require Import Base.Show Model.CompactMap Model.CompactMapRun.\nImport ListNotations.\nOpen Scope Z_scope.";
    let mut st = Stream::new(&a.out, "cmap", header, a.shards);
    if let Some(p) = &a.replay {
        st.full = true;
        let v: serde_json::Value = serde_json::from_str(&std::fs::read_to_string(p).unwrap()).unwrap();
        let case = &v["case"];
        if let Some(n) = case.get("huge").and_then(|x| x.as_u64()) {
            add_huge(&mut st, n as usize, "replay");
            st.finish();
            return;
        }
        let ops: Vec<(i64, i64)> = serde_json::from_value(case["ops"].clone()).unwrap();
        let c = parse_ctor(case["ctor"].as_str().unwrap());
        add_case(&mut st, c, ops, "replay");
        st.finish();
        return;
    }
    // ---- deterministic boundary families ----
    // growth 0..13 distinct keys from every constructor, and overwrite of every position at every size
    for n in 0..=9usize {
        let base: Vec<(i64, i64)> = (0..n as i64).map(|k| (k, 100 + k)).collect();
        for pos in 0..n {
            add_case(&mut st, Ctor::New(base.clone()), vec![(pos as i64, -1)], "overwrite_each_pos_new");
            add_case(&mut st, Ctor::FromIter(base.clone()), vec![(pos as i64, -1), (12, 7)], "overwrite_each_pos_from_iter");
        }
        for pos in 0..n {
            // the same map built by n inserts into the empty map, then every position overwritten in turn
            let mut ops = base.clone();
            ops.push((pos as i64, -1));
            add_case(&mut st, Ctor::Empty, ops, "overwrite_each_pos_inserts");
        }
        add_case(&mut st, Ctor::New(base.clone()), vec![(11, 1), (12, 2), (10, 3)], "grow_from_new");
        add_case(&mut st, Ctor::Empty, base.clone(), "grow_from_empty");
    }
    // far past every small-size specialisation and past 2^16 keys
    for n in [65535usize, 65536, 65537, 70000] {
        add_huge(&mut st, n, "huge");
    }
    // duplicate keys at construction (outside "a set of features": model-only comparison)
    add_case(&mut st, Ctor::New(vec![(1, 1), (1, 2)]), vec![], "new_with_duplicates");
    add_case(&mut st, Ctor::New(vec![(1, 1), (2, 2), (1, 3), (4, 4), (5, 5), (6, 6)]), vec![], "new_with_duplicates");
    let mut rng = Rng::new(a.seed);
    while st.next_id() < a.n {
        let mut r = rng.fork();
        let c = match r.below(4) {
            0 => Ctor::Empty,
            1 => {
                let n = r.below(10) as usize;
                Ctor::New(distinct_pairs(&mut r, n))
            }
            2 => {
                let n = r.below(9) as usize;
                Ctor::FromIter((0..n).map(|_| (r.range(0, 12), r.range(-50, 50))).collect())
            }
            _ => {
                let n = r.below(5) as usize + 3;
                Ctor::New(distinct_pairs(&mut r, n))
            }
        };
        let len = match r.below(4) {
            0 => r.below(4),
            1 => r.below(12),
            2 => r.below(30),
            _ => r.below(61),
        } as usize;
        // key universe per case: small (many overwrites) or the full 13 keys
        let universe = *r.pick(&[3i64, 5, 6, 8, 13]);
        let ops: Vec<(i64, i64)> = (0..len).map(|_| (r.range(0, universe - 1), r.range(-50, 50))).collect();
        add_case(&mut st, c, ops, "random");
    }
    st.finish();
}

fn parse_ctor(s: &str) -> Ctor {
    // Debug form written into the case description: Empty | New([(k, v), ...]) | FromIter([...])
    let nums = |t: &str| -> Vec<(i64, i64)> {
        let cleaned: String = t.chars().map(|c| if c.is_ascii_digit() || c == '-' { c } else { ' ' }).collect();
        let v: Vec<i64> = cleaned.split_whitespace().map(|x| x.parse().unwrap()).collect();
        v.chunks(2).map(|c| (c[0], c[1])).collect()
    };
    if s.starts_with("Empty") {
        Ctor::Empty
    } else if s.starts_with("New") {
        Ctor::New(nums(&s[3..]))
    } else {
        Ctor::FromIter(nums(&s[8..]))
    }
}

// =====================================================================================================
// stream `state`
// =====================================================================================================
mod state {
    use routee_compass::app::compass::config::cost_model::cost_model_service::CostModelService;
    use routee_compass::app::search::search_app::SearchApp;
    use routee_compass::app::search::search_app_ops::collect_features;
    use routee_compass_core::algorithm::search::search_algorithm::SearchAlgorithm;
    use routee_compass_core::algorithm::search::search_error::SearchError;
    use routee_compass_core::model::access::access_model::AccessModel;
    use routee_compass_core::model::access::access_model_error::AccessModelError;
    use routee_compass_core::model::access::access_model_service::AccessModelService;
    use routee_compass_core::model::cost::cost_aggregation::CostAggregation;
    use routee_compass_core::model::frontier::default::no_restriction::NoRestriction;
    use routee_compass_core::model::network::{Edge, Graph, Vertex};
    use routee_compass_core::model::state::custom_feature_format::CustomFeatureFormat;
    use routee_compass_core::model::state::state_feature::StateFeature;
    use routee_compass_core::model::state::state_model::StateModel;
    use routee_compass_core::model::state::state_model_error::StateModelError;
    use routee_compass_core::model::termination::termination_model::TerminationModel;
    use routee_compass_core::model::traversal::state::state_variable::StateVar;
    use routee_compass_core::model::traversal::traversal_model::TraversalModel;
    use routee_compass_core::model::traversal::traversal_model_error::TraversalModelError;
    use routee_compass_core::model::traversal::traversal_model_service::TraversalModelService;
    use routee_compass_core::model::unit::as_f64::AsF64;
    use routee_compass_core::model::unit::*;
    use serde_json::{json, Value};
    use std::collections::HashMap;
    use std::panic::AssertUnwindSafe;
    use std::sync::Arc;
    use verif_harness::*;

    const DIST: [(DistanceUnit, &str); 5] = [
        (DistanceUnit::Meters, "Meters"),
        (DistanceUnit::Kilometers, "Kilometers"),
        (DistanceUnit::Miles, "Miles"),
        (DistanceUnit::Inches, "Inches"),
        (DistanceUnit::Feet, "Feet"),
    ];
    const TIME: [(TimeUnit, &str); 4] =
        [(TimeUnit::Hours, "Hours"), (TimeUnit::Minutes, "Minutes"), (TimeUnit::Seconds, "Seconds"), (TimeUnit::Milliseconds, "Milliseconds")];
    const ENERGY: [(EnergyUnit, &str); 3] =
        [(EnergyUnit::GallonsGasoline, "GallonsGasoline"), (EnergyUnit::GallonsDiesel, "GallonsDiesel"), (EnergyUnit::KilowattHours, "KilowattHours")];
    const NAMES: [&str; 14] = [
        "distance", "time", "energy_electric", "energy_liquid", "battery_state", "trip_distance", "trip_time", "leg_energy", "soc",
        "flag", "count", "odo", "miles", "seconds",
    ];
    /// free-text labels of custom features: ordinary ones and the serde name of every built-in unit of every family
    const LABELS: [&str; 17] = [
        "percent", "none", "items", "meters", "kilometers", "miles", "inches", "feet", "hours", "minutes", "seconds", "milliseconds",
        "gallons_gasoline", "gallons_diesel", "kilowatt_hours", "distance", "unit",
    ];
    const TYPES: [&str; 9] = ["soc", "flag", "count", "distance", "time", "energy", "miles", "kilowatt_hours", "range"];
    const GHOST: &str = "ghost";

    // ---------------------------------------------------------------- case description
    #[derive(Clone, Debug, PartialEq)]
    pub enum Fmt {
        F(f64),
        I(i64),
        U(u64),
        B(bool),
    }
    /// family 0 distance, 1 time, 2 energy (unit = index into the tables above), or a custom feature
    #[derive(Clone, Debug, PartialEq)]
    pub enum Feat {
        Unit(usize, usize, f64),
        Custom(String, String, Fmt),
    }
    #[derive(Clone, Debug)]
    pub enum User {
        None,
        Bad(Value),
        Some(Vec<(String, Feat)>),
    }
    #[derive(Clone, Debug)]
    pub enum Op {
        Get(String, usize, usize),
        Set(String, usize, usize, f64),
        Add(String, usize, usize, f64),
        Rt(String, usize, usize, f64),
        Ag(String, usize, usize, f64),
        /// the same add n times (a route of n edges)
        AddN(String, usize, usize, f64, usize),
        GetF(String),
        GetI(String),
        GetU(String),
        GetB(String),
        SetF(String, f64),
        SetI(String, i64),
        SetU(String, u64),
        SetB(String, bool),
        /// state[i] = x, written directly as a traversal model would
        Poke(usize, f64),
    }
    #[derive(Clone, Debug)]
    pub struct Case {
        cfg: Vec<(String, Feat)>,
        tm: Vec<(String, Feat)>,
        am: Vec<(String, Feat)>,
        user: User,
        ops: Vec<Op>,
    }

    // exact JSON form of a case (floats as bit patterns) for the description / replay
    fn fj(x: f64) -> Value {
        json!(format!("{:016x}", x.to_bits()))
    }
    fn jf(v: &Value) -> f64 {
        f64::from_bits(u64::from_str_radix(v.as_str().unwrap(), 16).unwrap())
    }
    fn feat_json(f: &Feat) -> Value {
        match f {
            Feat::Unit(fam, u, x) => json!({"fam": fam, "u": u, "init": fj(*x), "dec": x}),
            Feat::Custom(t, u, Fmt::F(x)) => json!({"ty": t, "unit": u, "f": fj(*x), "dec": x}),
            Feat::Custom(t, u, Fmt::I(z)) => json!({"ty": t, "unit": u, "i": z}),
            Feat::Custom(t, u, Fmt::U(z)) => json!({"ty": t, "unit": u, "u64": z}),
            Feat::Custom(t, u, Fmt::B(b)) => json!({"ty": t, "unit": u, "b": b}),
        }
    }
    fn feat_from(v: &Value) -> Feat {
        if let Some(fam) = v.get("fam") {
            return Feat::Unit(fam.as_u64().unwrap() as usize, v["u"].as_u64().unwrap() as usize, jf(&v["init"]));
        }
        let t = v["ty"].as_str().unwrap().to_string();
        let u = v["unit"].as_str().unwrap().to_string();
        let fm = if let Some(x) = v.get("f") {
            Fmt::F(jf(x))
        } else if let Some(z) = v.get("i") {
            Fmt::I(z.as_i64().unwrap())
        } else if let Some(z) = v.get("u64") {
            Fmt::U(z.as_u64().unwrap())
        } else {
            Fmt::B(v["b"].as_bool().unwrap())
        };
        Feat::Custom(t, u, fm)
    }
    fn entries_json(l: &[(String, Feat)]) -> Value {
        Value::Array(l.iter().map(|(n, f)| json!([n, feat_json(f)])).collect())
    }
    fn entries_from(v: &Value) -> Vec<(String, Feat)> {
        v.as_array().unwrap().iter().map(|e| (e[0].as_str().unwrap().to_string(), feat_from(&e[1]))).collect()
    }
    fn op_json(o: &Op) -> Value {
        match o {
            Op::Get(n, f, u) => json!(["get", n, f, u]),
            Op::Set(n, f, u, x) => json!(["set", n, f, u, fj(*x), x]),
            Op::Add(n, f, u, x) => json!(["add", n, f, u, fj(*x), x]),
            Op::Rt(n, f, u, x) => json!(["rt", n, f, u, fj(*x), x]),
            Op::Ag(n, f, u, x) => json!(["ag", n, f, u, fj(*x), x]),
            Op::AddN(n, f, u, x, k) => json!(["addn", n, f, u, fj(*x), k, x]),
            Op::GetF(n) => json!(["getf", n]),
            Op::GetI(n) => json!(["geti", n]),
            Op::GetU(n) => json!(["getu", n]),
            Op::GetB(n) => json!(["getb", n]),
            Op::SetF(n, x) => json!(["setf", n, fj(*x), x]),
            Op::SetI(n, z) => json!(["seti", n, z]),
            Op::SetU(n, z) => json!(["setu", n, z]),
            Op::SetB(n, b) => json!(["setb", n, b]),
            Op::Poke(i, x) => json!(["poke", i, fj(*x), format!("{:?}", x)]),
        }
    }
    fn op_from(v: &Value) -> Op {
        if v[0].as_str() == Some("poke") {
            return Op::Poke(v[1].as_u64().unwrap() as usize, jf(&v[2]));
        }
        let n = v[1].as_str().unwrap().to_string();
        let us = |i: usize| v[i].as_u64().unwrap() as usize;
        match v[0].as_str().unwrap() {
            "get" => Op::Get(n, us(2), us(3)),
            "set" => Op::Set(n, us(2), us(3), jf(&v[4])),
            "add" => Op::Add(n, us(2), us(3), jf(&v[4])),
            "rt" => Op::Rt(n, us(2), us(3), jf(&v[4])),
            "ag" => Op::Ag(n, us(2), us(3), jf(&v[4])),
            "addn" => Op::AddN(n, us(2), us(3), jf(&v[4]), us(5)),
            "getf" => Op::GetF(n),
            "geti" => Op::GetI(n),
            "getu" => Op::GetU(n),
            "getb" => Op::GetB(n),
            "setf" => Op::SetF(n, jf(&v[2])),
            "seti" => Op::SetI(n, v[2].as_i64().unwrap()),
            "setu" => Op::SetU(n, v[2].as_u64().unwrap()),
            _ => Op::SetB(n, v[2].as_bool().unwrap()),
        }
    }
    /// a sequence of queries on one application: the first in the old single-query form, the others under "more"
    fn multi_json(steps: &[Case]) -> Value {
        let mut v = case_json(&steps[0]);
        if steps.len() > 1 {
            v["more"] = Value::Array(steps[1..].iter().map(case_json).collect());
        }
        v
    }
    fn multi_from(v: &Value) -> Vec<Case> {
        let first = case_from(v);
        let mut out = vec![first.clone()];
        if let Some(more) = v.get("more").and_then(|m| m.as_array()) {
            for m in more {
                let mut c = case_from(m);
                c.cfg = first.cfg.clone();
                out.push(c);
            }
        }
        out
    }
    fn case_json(c: &Case) -> Value {
        json!({
            "cfg": entries_json(&c.cfg), "tm": entries_json(&c.tm), "am": entries_json(&c.am),
            "user": match &c.user { User::None => json!(null), User::Bad(v) => json!({"bad": v}), User::Some(l) => json!({"some": entries_json(l)}) },
            "ops": Value::Array(c.ops.iter().map(op_json).collect()),
        })
    }
    fn case_from(v: &Value) -> Case {
        Case {
            cfg: entries_from(&v["cfg"]),
            tm: entries_from(&v["tm"]),
            am: entries_from(&v["am"]),
            user: if v["user"].is_null() {
                User::None
            } else if let Some(b) = v["user"].get("bad") {
                User::Bad(b.clone())
            } else {
                User::Some(entries_from(&v["user"]["some"]))
            },
            ops: v["ops"].as_array().unwrap().iter().map(op_from).collect(),
        }
    }

    // ---------------------------------------------------------------- Gallina terms
    fn unit_ctor(fam: usize, u: usize) -> &'static str {
        match fam {
            0 => DIST[u].1,
            1 => TIME[u].1,
            _ => ENERGY[u].1,
        }
    }
    fn coq_feat(f: &Feat) -> String {
        match f {
            Feat::Unit(fam, u, x) => format!("{} {} {}", ["FDistance", "FTime", "FEnergy"][*fam], unit_ctor(*fam, *u), coq_f64(*x)),
            Feat::Custom(t, u, fm) => format!(
                "FCustom {} {} ({})",
                coq_string(t),
                coq_string(u),
                match fm {
                    Fmt::F(x) => format!("FFloat {}", coq_f64(*x)),
                    Fmt::I(z) => format!("FSigned {}", coq_z(*z as i128)),
                    Fmt::U(z) => format!("FUnsigned {}", coq_z(*z as i128)),
                    Fmt::B(b) => format!("FBool {}", coq_bool(*b)),
                }
            ),
        }
    }
    fn coq_entries(l: &[(String, Feat)]) -> String {
        coq_list(l, |(n, f)| format!("({}, {})", coq_string(n), coq_feat(f)))
    }
    fn coq_user(u: &User) -> String {
        match u {
            User::None => "UNone".into(),
            User::Bad(_) => "UBad".into(),
            User::Some(l) => format!("(USome {})", coq_entries(l)),
        }
    }
    fn coq_uq(fam: usize, u: usize) -> String {
        format!("({} {})", ["UD", "UT", "UE"][fam], unit_ctor(fam, u))
    }
    fn coq_op(o: &Op) -> String {
        match o {
            Op::Get(n, f, u) => format!("OGet {} {}", coq_string(n), coq_uq(*f, *u)),
            Op::Set(n, f, u, x) => format!("OSet {} {} {}", coq_string(n), coq_uq(*f, *u), coq_f64(*x)),
            Op::Add(n, f, u, x) => format!("OAdd {} {} {}", coq_string(n), coq_uq(*f, *u), coq_f64(*x)),
            Op::Rt(n, f, u, x) => format!("ORt {} {} {}", coq_string(n), coq_uq(*f, *u), coq_f64(*x)),
            Op::Ag(n, f, u, x) => format!("OAg {} {} {}", coq_string(n), coq_uq(*f, *u), coq_f64(*x)),
            Op::AddN(n, f, u, x, k) => format!("OAddN {} {} {} {}", coq_string(n), coq_uq(*f, *u), coq_f64(*x), coq_nat(*k)),
            Op::GetF(n) => format!("OGetF {}", coq_string(n)),
            Op::GetI(n) => format!("OGetI {}", coq_string(n)),
            Op::GetU(n) => format!("OGetU {}", coq_string(n)),
            Op::GetB(n) => format!("OGetB {}", coq_string(n)),
            Op::SetF(n, x) => format!("OSetF {} {}", coq_string(n), coq_f64(*x)),
            Op::SetI(n, z) => format!("OSetI {} {}", coq_string(n), coq_z(*z as i128)),
            Op::SetU(n, z) => format!("OSetU {} {}", coq_string(n), coq_z(*z as i128)),
            Op::SetB(n, b) => format!("OSetB {} {}", coq_string(n), coq_bool(*b)),
            Op::Poke(i, x) => format!("OPoke {} {}", coq_nat(*i), coq_f64(*x)),
        }
    }

    // ---------------------------------------------------------------- the implementation
    fn to_feature(f: &Feat) -> StateFeature {
        match f {
            Feat::Unit(0, u, x) => StateFeature::Distance { distance_unit: DIST[*u].0, initial: Distance::new(*x) },
            Feat::Unit(1, u, x) => StateFeature::Time { time_unit: TIME[*u].0, initial: Time::new(*x) },
            Feat::Unit(_, u, x) => StateFeature::Energy { energy_unit: ENERGY[*u].0, initial: Energy::new(*x) },
            Feat::Custom(t, u, fm) => StateFeature::Custom {
                r#type: t.clone(),
                unit: u.clone(),
                format: match fm {
                    Fmt::F(x) => CustomFeatureFormat::FloatingPoint { initial: ordered_float::OrderedFloat(*x) },
                    Fmt::I(z) => CustomFeatureFormat::SignedInteger { initial: *z },
                    Fmt::U(z) => CustomFeatureFormat::UnsignedInteger { initial: *z },
                    Fmt::B(b) => CustomFeatureFormat::Boolean { initial: *b },
                },
            },
        }
    }
    fn features(l: &[(String, Feat)]) -> Vec<(String, StateFeature)> {
        l.iter().map(|(n, f)| (n.clone(), to_feature(f))).collect()
    }
    /// a JSON object of features in the serde form of StateFeature (what a config file / a query carries)
    /// The JSON goes through TEXT whenever an `initial` of a distance / time / energy feature is a whole number: the
    /// number is then written as an integer literal (-5, 0, -0, 9007199254740992, 18446744073709551615 for 2^64,
    /// -9223372036854775808), as a float literal (-5.0) or in exponent form (-5E0, 12e3), by position in the list, and
    /// the text is parsed by serde_json as a configuration file or a query is. A JSON number is a number however it is
    /// spelled. (Other values stay binary64 inside the JSON value: decimal text of 17 digits is not parsed exactly by
    /// serde_json without its float_roundtrip feature.)
    fn number_literal(x: f64, style: usize) -> Option<String> {
        if !x.is_finite() || x.fract() != 0.0 || x.abs() > 18446744073709551616.0 {
            return None;
        }
        let big = x.abs() >= 9007199254740992.0;
        let int = if x == 18446744073709551616.0 {
            "18446744073709551615".to_string() // u64::MAX: read as u64, `as f64` = 2^64
        } else if x == 0.0 && x.is_sign_negative() {
            "-0".to_string()
        } else {
            format!("{}", x as i128)
        };
        Some(match (style % 3, big) {
            (0, _) | (_, true) => int,
            (1, _) => format!("{:?}", x),
            _ => {
                let i = x as i128;
                if i != 0 && i % 1000 == 0 {
                    format!("{}e3", i / 1000)
                } else if x == 0.0 && x.is_sign_negative() {
                    "-0E0".to_string()
                } else {
                    format!("{}E0", i)
                }
            }
        })
    }
    fn features_json(l: &[(String, Feat)]) -> Value {
        let mut m = serde_json::Map::new();
        for (k, (n, f)) in l.iter().enumerate() {
            let mut v = serde_json::to_value(to_feature(f)).unwrap();
            if let Feat::Unit(_, _, x) = f {
                if let Some(lit) = number_literal(*x, k + n.len()) {
                    // this feature's JSON goes through text, the number spelled as chosen
                    v["initial"] = json!("@@NUM@@");
                    let text = serde_json::to_string(&v).unwrap().replace("\"@@NUM@@\"", &lit);
                    v = serde_json::from_str(&text).unwrap_or_else(|e| json!(format!("unparsable text {}: {}", text, e)));
                }
            }
            m.insert(n.clone(), v);
        }
        Value::Object(m)
    }

    struct StubTraversal(Vec<(String, StateFeature)>);
    impl TraversalModel for StubTraversal {
        fn state_features(&self) -> Vec<(String, StateFeature)> {
            self.0.clone()
        }
        fn traverse_edge(&self, _t: (&Vertex, &Edge, &Vertex), _s: &mut Vec<StateVar>, _sm: &StateModel) -> Result<(), TraversalModelError> {
            Ok(())
        }
        fn estimate_traversal(&self, _od: (&Vertex, &Vertex), _s: &mut Vec<StateVar>, _sm: &StateModel) -> Result<(), TraversalModelError> {
            Ok(())
        }
    }
    struct StubAccess(Vec<(String, StateFeature)>);
    impl AccessModel for StubAccess {
        fn state_features(&self) -> Vec<(String, StateFeature)> {
            self.0.clone()
        }
        fn access_edge(&self, _t: (&Vertex, &Edge, &Vertex, &Edge, &Vertex), _s: &mut Vec<StateVar>, _sm: &StateModel) -> Result<(), AccessModelError> {
            Ok(())
        }
    }
    /// the services build the model of the query at hand (as a vehicle model picked by the query would be)
    fn step_of(q: &Value) -> usize {
        q.get("__step").and_then(|x| x.as_u64()).unwrap_or(0) as usize
    }
    struct TmService(Vec<Arc<StubTraversal>>);
    impl TraversalModelService for TmService {
        fn build(&self, q: &Value) -> Result<Arc<dyn TraversalModel>, TraversalModelError> {
            Ok(self.0[step_of(q)].clone())
        }
    }
    struct AmService(Vec<Arc<StubAccess>>);
    impl AccessModelService for AmService {
        fn build(&self, q: &Value) -> Result<Arc<dyn AccessModel>, AccessModelError> {
            Ok(self.0[step_of(q)].clone())
        }
    }

    fn class(e: &StateModelError) -> &'static str {
        match e {
            StateModelError::EncodeError(..) => "EncodeError",
            StateModelError::DecodeError(..) => "DecodeError",
            StateModelError::ValueError(..) => "ValueError",
            StateModelError::UnknownStateVariableName(..) => "UnknownStateVariableName",
            StateModelError::InvalidStateVariableIndex(..) => "InvalidStateVariableIndex",
            StateModelError::UnexpectedFeatureType(..) => "UnexpectedFeatureType",
            StateModelError::UnexpectedFeatureUnit(..) => "UnexpectedFeatureUnit",
            StateModelError::BuildError(..) => "BuildError",
            StateModelError::RuntimeError(..) => "RuntimeError",
        }
    }

    fn query_of(c: &Case) -> Value {
        match &c.user {
            User::None => json!({}),
            User::Bad(v) => json!({ "state_features": v }),
            User::Some(l) => json!({ "state_features": features_json(l) }),
        }
    }

    fn show_state(st: &[StateVar]) -> String {
        show_list(st, |v| show_f64(v.0))
    }
    /// len / iteration order / slot of every probe name / initial state of one state model
    fn show_struct(sm: &StateModel, probes: &[String]) -> (String, Result<Vec<StateVar>, String>) {
        let names: Vec<String> = sm.iter().map(|(n, _)| n.clone()).collect();
        // indexed_iter, get_names, contains_key, to_vec and serialize_state_model must tell the same story
        let mut extra = String::new();
        let by_index: Vec<String> = sm.indexed_iter().map(|(i, (n, _))| format!("{}@{}", n, i)).collect();
        let expect: Vec<String> = names.iter().enumerate().map(|(i, n)| format!("{}@{}", n, i)).collect();
        if by_index != expect || sm.get_names() != names.join(",") {
            extra += " INCONSISTENT(indexed_iter/get_names)";
        }
        let ser = sm.serialize_state_model();
        for p in probes {
            let k = sm.contains_key(p);
            let i = ser.get(p).and_then(|f| f.get("index")).and_then(|x| x.as_u64());
            let pos = names.iter().position(|n| n == p);
            if k != pos.is_some() || i != pos.map(|x| x as u64) {
                extra += &format!(" INCONSISTENT(contains_key/serialize_state_model {})", p);
            }
        }
        // get_index has no public accessor on StateModel: the slot of a name is observed by writing a marker
        // through the public API into a vector of len() + 2 cells and looking where it landed
        let idx: Vec<String> = probes.iter().map(|p| show_opt(&slot_of(sm, p), |i| i.to_string())).collect();
        let init = sm.initial_state().map_err(|e| class(&e).to_string());
        if let Ok(st) = &init {
            // serialize_state: every name paired with the value at its slot
            let ser = sm.serialize_state(st);
            for (i, n) in names.iter().enumerate() {
                if i < st.len() && ser.get(n).and_then(|x| x.as_f64()).map(|x| x.to_bits()) != Some(st[i].0.to_bits()) {
                    extra += &format!(" INCONSISTENT(serialize_state {})", n);
                }
            }
        }
        // what each feature IS in the built model: kind and unit / custom type, label and codec
        let kinds: Vec<String> = sm
            .iter()
            .map(|(_, f)| match f {
                StateFeature::Distance { distance_unit, .. } => {
                    format!("distance:{}", DIST.iter().find(|(u, _)| u == distance_unit).map(|x| x.1).unwrap_or("?"))
                }
                StateFeature::Time { time_unit, .. } => format!("time:{}", TIME.iter().find(|(u, _)| u == time_unit).map(|x| x.1).unwrap_or("?")),
                StateFeature::Energy { energy_unit, .. } => {
                    format!("energy:{}", ENERGY.iter().find(|(u, _)| u == energy_unit).map(|x| x.1).unwrap_or("?"))
                }
                StateFeature::Custom { r#type, unit, format } => format!(
                    "custom:{}/{}/{}",
                    r#type,
                    unit,
                    match format {
                        CustomFeatureFormat::FloatingPoint { .. } => "f",
                        CustomFeatureFormat::SignedInteger { .. } => "i",
                        CustomFeatureFormat::UnsignedInteger { .. } => "u",
                        CustomFeatureFormat::Boolean { .. } => "b",
                    }
                ),
            })
            .collect();
        // ... and what serialize_state_model and the unit getters say about it
        for (n, f) in sm.iter() {
            let j = &ser[n];
            let ok = match f {
                StateFeature::Distance { distance_unit, .. } => {
                    f.get_distance_unit().ok() == Some(*distance_unit) && j.get("distance_unit") == serde_json::to_value(distance_unit).ok().as_ref()
                }
                StateFeature::Time { time_unit, .. } => f.get_time_unit().ok() == Some(*time_unit) && j.get("time_unit") == serde_json::to_value(time_unit).ok().as_ref(),
                StateFeature::Energy { energy_unit, .. } => {
                    f.get_energy_unit().ok() == Some(*energy_unit) && j.get("energy_unit") == serde_json::to_value(energy_unit).ok().as_ref()
                }
                StateFeature::Custom { unit, .. } => j.get("unit").and_then(|x| x.as_str()) == Some(unit.as_str()),
            };
            if !ok {
                extra += &format!(" INCONSISTENT(unit of {})", n);
            }
        }
        let init_s = match &init {
            Ok(st) => format!("Ok {}", show_state(st)),
            Err(c) => format!("Err {}", c),
        };
        (
            format!("R=Ok len={} names=[{}] kinds=[{}] idx=[{}] init={}{}", sm.len(), names.join(","), kinds.join(","), idx.join(","), init_s, extra),
            init,
        )
    }
    /// state-vector slot that reads and writes of `name` go to, observed through the public accessors
    fn slot_of(sm: &StateModel, name: &String) -> Option<usize> {
        let n = sm.len() + 2;
        let mut found: Option<usize> = None;
        for i in 0..n {
            let mut st = vec![StateVar(0.0); n];
            st[i] = StateVar(1.0);
            match sm.get_delta(&vec![StateVar(0.0); n], &st, name) {
                Ok(d) if d.0 == 1.0 => {
                    if found.is_some() {
                        return Some(usize::MAX);
                    }
                    found = Some(i);
                }
                _ => {}
            }
        }
        found
    }

    enum Val {
        None,
        F(f64),
        FF(f64, f64),
        Z(i128),
        B(bool),
    }
    struct Obs {
        r: Result<Val, String>, // Err(class) | Err("Panic")
        st: Vec<StateVar>,
    }
    fn show_obs(o: &Obs) -> String {
        let r = match &o.r {
            Ok(Val::None) => "Ok -".to_string(),
            Ok(Val::F(y)) => format!("Ok {}", show_f64(*y)),
            Ok(Val::FF(a, b)) => format!("Ok {} {}", show_f64(*a), show_f64(*b)),
            Ok(Val::Z(z)) => format!("Ok {}", z),
            Ok(Val::B(b)) => format!("Ok {}", show_bool(*b)),
            Err(c) if c == "Panic" => "Panic".to_string(),
            Err(c) => format!("Err {}", c),
        };
        format!("{} st={}", r, show_state(&o.st))
    }
    fn coq_obs(o: &Obs) -> String {
        let r = match &o.r {
            Ok(Val::None) => "Ok VNone".to_string(),
            Ok(Val::F(y)) => format!("Ok (VF {})", coq_f64(*y)),
            Ok(Val::FF(a, b)) => format!("Ok (VFF {} {})", coq_f64(*a), coq_f64(*b)),
            Ok(Val::Z(z)) => format!("Ok (VZ {})", coq_z(*z)),
            Ok(Val::B(b)) => format!("Ok (VB {})", coq_bool(*b)),
            Err(c) if c == "Panic" => "Panic \"\"%string".to_string(),
            Err(c) => format!("Err {}", coq_string(c)),
        };
        format!("Obs ({}) {}", r, coq_list(&o.st, |v| coq_f64(v.0)))
    }

    type R<T> = Result<T, StateModelError>;
    fn get_u(sm: &StateModel, st: &[StateVar], n: &String, fam: usize, u: usize) -> R<f64> {
        match fam {
            0 => sm.get_distance(st, n, &DIST[u].0).map(|x| x.as_f64()),
            1 => sm.get_time(st, n, &TIME[u].0).map(|x| x.as_f64()),
            _ => sm.get_energy(st, n, &ENERGY[u].0).map(|x| x.as_f64()),
        }
    }
    fn set_u(sm: &StateModel, st: &mut [StateVar], n: &String, fam: usize, u: usize, x: f64) -> R<()> {
        match fam {
            0 => sm.set_distance(st, n, &Distance::new(x), &DIST[u].0),
            1 => sm.set_time(st, n, &Time::new(x), &TIME[u].0),
            _ => sm.set_energy(st, n, &Energy::new(x), &ENERGY[u].0),
        }
    }
    fn add_u(sm: &StateModel, st: &mut [StateVar], n: &String, fam: usize, u: usize, x: f64) -> R<()> {
        match fam {
            0 => sm.add_distance(st, n, &Distance::new(x), &DIST[u].0),
            1 => sm.add_time(st, n, &Time::new(x), &TIME[u].0),
            _ => sm.add_energy(st, n, &Energy::new(x), &ENERGY[u].0),
        }
    }
    fn run_op(sm: &StateModel, st: &mut Vec<StateVar>, o: &Op) -> Result<Val, StateModelError> {
        Ok(match o {
            Op::Get(n, f, u) => Val::F(get_u(sm, st, n, *f, *u)?),
            Op::Set(n, f, u, x) => {
                set_u(sm, st, n, *f, *u, *x)?;
                Val::None
            }
            Op::Add(n, f, u, x) => {
                add_u(sm, st, n, *f, *u, *x)?;
                Val::None
            }
            Op::Rt(n, f, u, x) => {
                set_u(sm, st, n, *f, *u, *x)?;
                Val::F(get_u(sm, st, n, *f, *u)?)
            }
            Op::Ag(n, f, u, x) => {
                let y0 = get_u(sm, st, n, *f, *u)?;
                add_u(sm, st, n, *f, *u, *x)?;
                Val::FF(y0, get_u(sm, st, n, *f, *u)?)
            }
            Op::AddN(n, f, u, x, k) => {
                for _ in 0..*k {
                    add_u(sm, st, n, *f, *u, *x)?;
                }
                Val::None
            }
            Op::GetF(n) => Val::F(sm.get_custom_f64(st, n)?),
            Op::GetI(n) => Val::Z(sm.get_custom_i64(st, n)? as i128),
            Op::GetU(n) => Val::Z(sm.get_custom_u64(st, n)? as i128),
            Op::GetB(n) => Val::B(sm.get_custom_bool(st, n)?),
            Op::SetF(n, x) => {
                sm.set_custom_f64(st, n, x)?;
                Val::None
            }
            Op::SetI(n, z) => {
                sm.set_custom_i64(st, n, z)?;
                Val::None
            }
            Op::SetU(n, z) => {
                sm.set_custom_u64(st, n, z)?;
                Val::None
            }
            Op::SetB(n, b) => {
                sm.set_custom_bool(st, n, b)?;
                Val::None
            }
            Op::Poke(i, x) => {
                if *i < st.len() {
                    st[*i] = StateVar(*x);
                }
                Val::None
            }
        })
    }

    fn empty_graph() -> Graph {
        Graph { adj: vec![].into_boxed_slice(), rev: vec![].into_boxed_slice(), edges: vec![].into_boxed_slice(), vertices: vec![].into_boxed_slice() }
    }

    /// the per-query state model through the real code, two ways:
    ///   direct  StateModel::try_from(config JSON) . extend(collect_features(query, traversal model, access model))
    ///   app     SearchApp::new(..).build_search_instance(query).state_model
    /// returns the I payload and the observations of the op sequence
    fn run_impl(steps: &[Case], probes: &[String]) -> (String, Vec<Vec<Obs>>) {
        let configured = match StateModel::try_from(&features_json(&steps[0].cfg)) {
            Ok(m) => Arc::new(m),
            Err(e) => return (format!("R=Err config:{}", class(&e)), vec![]),
        };
        let tms: Vec<Arc<StubTraversal>> = steps.iter().map(|c| Arc::new(StubTraversal(features(&c.tm)))).collect();
        let ams: Vec<Arc<StubAccess>> = steps.iter().map(|c| Arc::new(StubAccess(features(&c.am)))).collect();
        // ONE application for the whole sequence of queries
        let app = SearchApp::new(
            SearchAlgorithm::Dijkstra,
            empty_graph(),
            configured.clone(),
            Arc::new(TmService(tms.clone())),
            Arc::new(AmService(ams.clone())),
            CostModelService {
                vehicle_rates: Arc::new(HashMap::new()),
                network_rates: Arc::new(HashMap::new()),
                weights: Arc::new(HashMap::new()),
                cost_aggregation: CostAggregation::Sum,
                ignore_unknown_weights: true,
            },
            Arc::new(NoRestriction {}),
            TerminationModel::IterationsLimit { limit: 1 },
        );
        let mut payloads = vec![];
        let mut all_obs = vec![];
        for (k, c) in steps.iter().enumerate() {
            let (p, o) = run_step(&app, &configured, k, c, tms[k].clone(), ams[k].clone(), probes);
            payloads.push(p);
            all_obs.push(o);
        }
        (payloads.join(" || "), all_obs)
    }

    fn run_step(
        app: &SearchApp,
        configured: &Arc<StateModel>,
        k: usize,
        c: &Case,
        tm: Arc<StubTraversal>,
        am: Arc<StubAccess>,
        probes: &[String],
    ) -> (String, Vec<Obs>) {
        let query = query_of(c);
        let direct: Result<StateModel, String> = match catch(AssertUnwindSafe(|| {
            collect_features(&query, tm.clone(), am.clone()).and_then(|fs| configured.extend(fs))
        })) {
            Err(_) => Err("Panic".into()),
            Ok(Err(e)) => Err(class(&e).to_string()),
            Ok(Ok(m)) => Ok(m),
        };
        let (direct_s, init) = match &direct {
            Ok(m) => {
                let (s, i) = show_struct(m, probes);
                (s, Some(i))
            }
            Err(cl) if cl == "Panic" => ("R=Panic".to_string(), None),
            Err(cl) => (format!("R=Err {}", cl), None),
        };
        // the same through SearchApp::build_search_instance; the cost model needs one weighted feature
        let mut app_query = query.clone();
        app_query["__step"] = json!(k);
        let first = direct.as_ref().ok().and_then(|m| m.iter().next().map(|(n, _)| n.clone()));
        let mut payload = direct_s.clone();
        let mut model: Option<Arc<StateModel>> = direct.ok().map(Arc::new);
        let mut init = init;
        if first.is_some() || model.is_none() {
            if let Some(n) = &first {
                app_query["weights"] = json!({ n.clone(): 1.0 });
            }
            let via_app = match catch(AssertUnwindSafe(|| app.build_search_instance(&app_query))) {
                Err(_) => "R=Panic".to_string(),
                Ok(Err(SearchError::StateFailure { source })) => format!("R=Err {}", class(&source)),
                Ok(Err(e)) => format!("R=Err other:{}", e),
                Ok(Ok(si)) => {
                    let (s, i) = show_struct(&si.state_model, probes);
                    // the operations below run on the model and the initial state the application hands out
                    model = Some(si.state_model.clone());
                    init = Some(i);
                    s
                }
            };
            if via_app != direct_s {
                payload = format!("{} APPDIFF(collect_features+extend: {})", via_app, direct_s);
            }
        }
        let mut obs = vec![];
        if let (Some(sm), Some(Ok(init))) = (model, init) {
            let mut st = init;
            let mut parts = vec![payload];
            for o in &c.ops {
                let mut work = st.clone();
                let r = catch(AssertUnwindSafe(|| run_op(&sm, &mut work, o)));
                let ob = match r {
                    Err(_) => Obs { r: Err("Panic".into()), st: work },
                    Ok(Err(e)) => Obs { r: Err(class(&e).to_string()), st: work },
                    Ok(Ok(v)) => Obs { r: Ok(v), st: work },
                };
                st = ob.st.clone();
                parts.push(show_obs(&ob));
                obs.push(ob);
            }
            payload = parts.join(" | ");
        }
        (payload, obs)
    }

    // ---------------------------------------------------------------- cases
    fn final_def(c: &Case) -> Vec<(String, Feat)> {
        // for generating meaningful operations only (never used for a verdict)
        let mut out: Vec<(String, Feat)> = vec![];
        let user: Vec<(String, Feat)> = if let User::Some(l) = &c.user { l.clone() } else { vec![] };
        for (n, f) in c.cfg.iter().chain(c.tm.iter()).chain(c.am.iter()).chain(user.iter()) {
            if let Some(e) = out.iter_mut().find(|(m, _)| m == n) {
                e.1 = f.clone();
            } else {
                out.push((n.clone(), f.clone()));
            }
        }
        out
    }

    fn add_case(st: &mut Stream, c: Case, family: &str) {
        add_multi(st, vec![c], family)
    }
    fn coq_step(c: &Case) -> String {
        format!(
            "({}, {}, {}, {})",
            coq_entries(&c.tm),
            coq_entries(&c.am),
            coq_user(&c.user),
            coq_list(&c.ops, |o| format!("({})", coq_op(o)))
        )
    }
    fn add_multi(st: &mut Stream, steps: Vec<Case>, family: &str) {
        let id = st.next_id();
        let mut probes: Vec<String> = NAMES.iter().map(|s| s.to_string()).collect();
        probes.push(GHOST.to_string());
        let cc = steps.clone();
        let pp = probes.clone();
        let (payload, obs) = catch(AssertUnwindSafe(move || run_impl(&cc, &pp))).unwrap_or_else(|e| (format!("PANIC {}", e), vec![]));
        let args = format!("{} {} {}", coq_entries(&steps[0].cfg), coq_list(&probes, |p| coq_string(p)), coq_list(&steps, coq_step));
        let terms = vec![
            format!("line_state_m {} {}", id, args),
            format!("line_state_s {} {} {}", id, args, coq_list(&obs, |os| coq_list(os, coq_obs))),
        ];
        st.count(&format!("family:{}", family));
        st.count(&format!("queries_on_one_app:{}", steps.len()));
        let mut nontrivial = steps.len() > 1;
        for (k, c) in steps.iter().enumerate() {
            let step_payload = payload.split(" || ").nth(k).unwrap_or("");
            nontrivial |= count_step(st, c, step_payload);
        }
        if nontrivial {
            st.mark_nontrivial(&multi_json(&steps).to_string());
        }
        let mut desc = multi_json(&steps);
        desc["id"] = json!(id);
        desc["family"] = json!(family);
        st.case(terms, vec![format!("I {} {}", id, payload)], desc);
    }
    /// histogram of one query; returns whether it is non-trivial by the stream's rule
    fn count_step(st: &mut Stream, c: &Case, payload: &str) -> bool {
        let c = c.clone();
        let fin = final_def(&c);
        let defs = c.cfg.len() + c.tm.len() + c.am.len() + if let User::Some(l) = &c.user { l.len() } else { 0 };
        st.count(&format!("features:{}", fin.len().min(12)));
        st.count(&format!("cfg:{}", c.cfg.len()));
        st.count(&format!("model_features:{}", c.tm.len() + c.am.len()));
        st.count(&format!("user:{}", match &c.user { User::None => "none".to_string(), User::Bad(_) => "bad".to_string(), User::Some(l) => format!("{}", l.len()) }));
        st.count(&format!("result:{}", payload.split(' ').next().unwrap_or("")));
        if payload.starts_with("R=Err") {
            st.count(&format!("error:{}", payload));
        }
        st.count(&format!("ops:{}", c.ops.len()));
        for (_, f) in &fin {
            st.count(match f {
                Feat::Unit(0, _, _) => "kind:distance",
                Feat::Unit(1, _, _) => "kind:time",
                Feat::Unit(_, _, _) => "kind:energy",
                Feat::Custom(_, _, Fmt::F(_)) => "kind:custom_float",
                Feat::Custom(_, _, Fmt::I(_)) => "kind:custom_signed",
                Feat::Custom(_, _, Fmt::U(_)) => "kind:custom_unsigned",
                Feat::Custom(_, _, Fmt::B(_)) => "kind:custom_bool",
            });
        }
        let user_l: Vec<(String, Feat)> = if let User::Some(l) = &c.user { l.clone() } else { vec![] };
        for (_, f) in c.cfg.iter().chain(user_l.iter()) {
            // these went through serde
            if let Feat::Custom(_, u, fm) = f {
                if LABELS[3..15].contains(&u.as_str()) {
                    st.count("deserialised_custom_with_builtin_unit_label");
                }
                match fm {
                    Fmt::U(z) if *z > u64::MAX - 2048 => st.count("initial_near_u64_max"),
                    Fmt::I(z) if *z > i64::MAX - 1024 || *z < i64::MIN + 1024 => st.count("initial_near_i64_end"),
                    _ => {}
                }
            }
        }
        for o in &c.ops {
            match o {
                Op::Poke(_, _) => st.count("op:poke"),
                Op::SetU(_, z) if *z > u64::MAX - 2048 => st.count("op:set_near_u64_max"),
                Op::SetI(_, z) if *z > i64::MAX - 1024 || *z < i64::MIN + 1024 => st.count("op:set_near_i64_end"),
                _ => {}
            }
        }
        let redefined = defs > fin.len();
        if redefined {
            st.count("has_redefinition");
        }
        if let User::Some(l) = &c.user {
            for (n, _) in l {
                let in_cfg = c.cfg.iter().any(|(m, _)| m == n);
                let in_model = c.tm.iter().chain(c.am.iter()).any(|(m, _)| m == n);
                st.count(match (in_cfg, in_model) {
                    (false, true) => "override:model_contributed",
                    (true, true) => "override:configured_and_model",
                    (true, false) => "override:configured_only",
                    (false, false) => "override:unknown",
                });
            }
        }
        if c.tm.iter().any(|(n, _)| c.am.iter().any(|(m, _)| m == n)) {
            st.count("both_models_same_name");
        }
        if fin.len() >= 5 {
            st.count("crosses_4_to_5");
        }
        fin.len() >= 5 || redefined
    }

    fn s(x: &str) -> String {
        x.to_string()
    }
    fn d(u: usize, x: f64) -> Feat {
        Feat::Unit(0, u, x)
    }
    fn t(u: usize, x: f64) -> Feat {
        Feat::Unit(1, u, x)
    }
    fn e(u: usize, x: f64) -> Feat {
        Feat::Unit(2, u, x)
    }
    fn cu(ty: &str, unit: &str, f: Fmt) -> Feat {
        Feat::Custom(s(ty), s(unit), f)
    }

    fn gen_value(r: &mut Rng) -> f64 {
        match r.below(10) {
            0 => 0.0,
            1 => 1.0,
            2 => 2.5,
            3 => 100.0,
            4 => -3.0,
            5 => *r.pick(&[0.001, -5.0, -1.0, -0.0, 7.0, 12000.0, -250.0]),
            6 => *r.pick(&[12345.678, 9007199254740992.0, -9223372036854775808.0, 18446744073709551616.0, -9007199254740992.0, 4294967296.0]),
            _ => {
                let mag = 10f64.powf(r.unit_f64() * 12.0 - 4.0);
                let v = mag * (0.5 + r.unit_f64());
                if r.chance(1, 5) {
                    -v
                } else {
                    v
                }
            }
        }
    }
    /// i64 values: small ones, the edge of exact representation (2^53 +- 2), the ends of the range (the MAX / MIN
    /// "unset" sentinels and their neighbours across the rounding boundaries), anything in between
    fn gen_int(r: &mut Rng, signed: bool) -> i64 {
        let v = match r.below(9) {
            0 => 0,
            1 => 1,
            2 => r.range(0, 1000),
            3 => r.range(0, 1 << 40),
            4 => (1i64 << 53) + r.range(-2, 2),
            5 => i64::MAX - *r.pick(&[0i64, 1, 511, 512, 513, 1023, 1024, 1025, 2047]),
            6 => i64::MAX,
            7 => (r.next_u64() >> 1) as i64,
            _ => r.range(0, (1i64 << 62) - 1),
        };
        if signed && r.chance(1, 3) {
            if r.chance(1, 4) {
                i64::MIN + *r.pick(&[0i64, 1, 512, 1024, 1025])
            } else {
                -v
            }
        } else {
            v
        }
    }
    /// u64 values: as above plus everything beyond i64::MAX up to u64::MAX
    fn gen_u64(r: &mut Rng) -> u64 {
        match r.below(6) {
            0 => u64::MAX,
            1 => u64::MAX - *r.pick(&[0u64, 1, 1023, 1024, 1025, 2047, 2048, 2049, 4095]),
            2 => (1u64 << 63) + *r.pick(&[0u64, 1, 1024, 1025, 2048]),
            3 => r.next_u64(),
            _ => gen_int(r, false) as u64,
        }
    }
    /// raw state-vector values a model can leave in a slot: not integers, out of every integer range, NaN
    fn gen_poke(r: &mut Rng) -> f64 {
        *r.pick(&[
            f64::NAN, f64::INFINITY, f64::NEG_INFINITY, -0.0, 0.0, -0.5, 0.5, -1.0, 3.99, -3.99, 1e30, -1e30,
            9007199254740994.0, 9223372036854775808.0, -9223372036854775808.0, -9223372036854777856.0, 9223372036854774784.0,
            18446744073709551616.0, 18446744073709549568.0, 36893488147419103232.0,
        ])
    }
    fn gen_fmt(r: &mut Rng) -> Fmt {
        match r.below(4) {
            0 => Fmt::F(gen_value(r)),
            1 => Fmt::I(gen_int(r, true)),
            2 => Fmt::U(gen_u64(r)),
            _ => Fmt::B(r.chance(1, 2)),
        }
    }
    fn fam_units(fam: usize) -> usize {
        [5, 4, 3][fam]
    }
    fn gen_feat(r: &mut Rng) -> Feat {
        match r.below(5) {
            0 => d(r.below(5) as usize, gen_value(r)),
            1 => t(r.below(4) as usize, gen_value(r)),
            2 => e(r.below(3) as usize, gen_value(r)),
            _ => {
                let ty = *r.pick(&TYPES);
                let unit = *r.pick(&LABELS);
                cu(ty, unit, gen_fmt(r))
            }
        }
    }
    /// another definition of the same kind (what StateFeature's equality accepts): other unit / initial / format
    fn gen_same_kind(r: &mut Rng, f: &Feat) -> Feat {
        match f {
            Feat::Unit(fam, _, _) => Feat::Unit(*fam, r.below(fam_units(*fam) as u64) as usize, gen_value(r)),
            Feat::Custom(ty, unit, fm) => Feat::Custom(
                ty.clone(),
                unit.clone(),
                if r.chance(3, 4) {
                    match fm {
                        Fmt::F(_) => Fmt::F(gen_value(r)),
                        Fmt::I(_) => Fmt::I(gen_int(r, true)),
                        Fmt::U(_) => Fmt::U(gen_u64(r)),
                        Fmt::B(b) => Fmt::B(!*b),
                    }
                } else {
                    gen_fmt(r)
                },
            ),
        }
    }
    /// operations that make sense for the final definition of each name, plus a few that do not
    fn gen_ops(r: &mut Rng, c: &Case, n: usize) -> Vec<Op> {
        let fin = final_def(c);
        let mut ops = vec![];
        for _ in 0..n {
            let (name, feat): (String, Option<Feat>) = if fin.is_empty() || r.chance(1, 12) {
                (if r.chance(1, 2) { s(GHOST) } else { s(*r.pick(&NAMES)) }, None)
            } else {
                let (n, f) = r.pick(&fin).clone();
                (n, Some(f))
            };
            let wrong = r.chance(1, 10);
            // a raw write into the slot of a custom feature, followed (usually) by a read through its codec
            if let Some(Feat::Custom(_, _, fm)) = &feat {
                if r.chance(1, 5) {
                    if let Some(i) = fin.iter().position(|(m, _)| *m == name) {
                        ops.push(Op::Poke(i, gen_poke(r)));
                        ops.push(match (fm, r.chance(1, 6)) {
                            (_, true) => Op::GetU(name),
                            (Fmt::F(_), _) => Op::GetF(name),
                            (Fmt::I(_), _) => Op::GetI(name),
                            (Fmt::U(_), _) => Op::GetU(name),
                            (Fmt::B(_), _) => Op::GetB(name),
                        });
                        continue;
                    }
                }
            }
            let op = match (&feat, wrong) {
                (Some(Feat::Unit(fam, _, _)), false) => {
                    let u = r.below(fam_units(*fam) as u64) as usize;
                    let x = gen_value(r);
                    match r.below(7) {
                        0 => Op::Get(name, *fam, u),
                        1 => {
                            if r.chance(1, 8) {
                                // a non-finite write, then a finite one so that later judgements start from a finite slot
                                ops.push(Op::Set(name.clone(), *fam, u, *r.pick(&[f64::INFINITY, f64::NEG_INFINITY, f64::NAN])));
                            }
                            Op::Set(name, *fam, u, x)
                        }
                        2 => Op::Add(name, *fam, u, if r.chance(1, 4) { 0.0 } else { x }),
                        3 => Op::Rt(name, *fam, u, x),
                        4 => Op::AddN(name, *fam, u, if r.chance(1, 4) { 0.0 } else { x }, *r.pick(&[2usize, 10, 50, 200, 500])),
                        5 => Op::Ag(name, *fam, u, if r.chance(1, 6) { 0.0 } else { x }),
                        _ => Op::Ag(name, *fam, u, x),
                    }
                }
                (Some(Feat::Custom(_, _, fm)), false) => match (fm, r.chance(1, 2)) {
                    (Fmt::F(_), true) => Op::GetF(name),
                    (Fmt::F(_), false) => Op::SetF(name, if r.chance(1, 6) { *r.pick(&[f64::INFINITY, f64::NEG_INFINITY, f64::NAN]) } else { gen_value(r) }),
                    (Fmt::I(_), true) => Op::GetI(name),
                    (Fmt::I(_), false) => Op::SetI(name, gen_int(r, true)),
                    (Fmt::U(_), true) => Op::GetU(name),
                    (Fmt::U(_), false) => Op::SetU(name, gen_u64(r)),
                    (Fmt::B(_), true) => Op::GetB(name),
                    (Fmt::B(_), false) => Op::SetB(name, r.chance(1, 2)),
                },
                _ => {
                    // any operation on any name: wrong family, wrong codec, unknown name
                    let fam = r.below(3) as usize;
                    let u = r.below(fam_units(fam) as u64) as usize;
                    match r.below(12) {
                        0 => Op::Get(name, fam, u),
                        1 => Op::Set(name, fam, u, gen_value(r)),
                        2 => Op::Add(name, fam, u, gen_value(r)),
                        3 => Op::Rt(name, fam, u, gen_value(r)),
                        4 => Op::GetF(name),
                        5 => Op::GetI(name),
                        6 => Op::GetU(name),
                        7 => Op::GetB(name),
                        8 => Op::SetF(name, gen_value(r)),
                        9 => Op::SetI(name, gen_int(r, true)),
                        10 => Op::SetU(name, gen_u64(r)),
                        _ => Op::SetB(name, r.chance(1, 2)),
                    }
                }
            };
            ops.push(op);
        }
        ops
    }
    /// one round trip and one add on every unit-ful feature, one codec round trip on every custom feature
    fn probe_ops(c: &Case) -> Vec<Op> {
        let mut ops = vec![];
        for (i, (n, f)) in final_def(c).iter().enumerate() {
            match f {
                Feat::Unit(fam, u, _) => {
                    let other = (u + 1 + i) % fam_units(*fam);
                    ops.push(Op::Rt(n.clone(), *fam, other, 2.5 + i as f64));
                    ops.push(Op::Ag(n.clone(), *fam, *u, 0.5));
                    if i < 3 {
                        ops.push(Op::Add(n.clone(), *fam, other, 0.0));
                        ops.push(Op::AddN(n.clone(), *fam, other, 0.25, 50 + 150 * (i % 4)));
                        ops.push(Op::Get(n.clone(), *fam, *u));
                    }
                }
                Feat::Custom(_, _, Fmt::F(_)) => {
                    ops.push(Op::SetF(n.clone(), 55.5));
                    ops.push(Op::GetF(n.clone()));
                }
                Feat::Custom(_, _, Fmt::I(_)) => {
                    ops.push(Op::SetI(n.clone(), -7));
                    ops.push(Op::GetI(n.clone()));
                }
                Feat::Custom(_, _, Fmt::U(_)) => {
                    ops.push(Op::SetU(n.clone(), 9));
                    ops.push(Op::GetU(n.clone()));
                }
                Feat::Custom(_, _, Fmt::B(b)) => {
                    ops.push(Op::SetB(n.clone(), !*b));
                    ops.push(Op::GetB(n.clone()));
                }
            }
        }
        ops
    }
    fn with_probe_ops(mut c: Case) -> Case {
        c.ops = probe_ops(&c);
        c
    }

    fn boundary(st: &mut Stream) {
        let case = |cfg: Vec<(String, Feat)>, tm: Vec<(String, Feat)>, am: Vec<(String, Feat)>, user: User| Case { cfg, tm, am, user, ops: vec![] };
        // a query overrides a feature contributed by the traversal model and not declared in configuration
        add_case(
            st,
            with_probe_ops(case(vec![(s("distance"), d(1, 3.0))], vec![(s("time"), t(1, 0.0))], vec![], User::Some(vec![(s("time"), t(0, 2.0))]))),
            "override_model_contributed",
        );
        add_case(
            st,
            with_probe_ops(case(vec![], vec![(s("distance"), d(1, 0.0)), (s("time"), t(1, 0.0))], vec![], User::Some(vec![(s("time"), t(0, 2.0))]))),
            "override_model_contributed",
        );
        // the four features of an electric vehicle model, the query sets the starting time and state of charge
        let bev = vec![
            (s("distance"), d(1, 0.0)),
            (s("time"), t(1, 0.0)),
            (s("energy_electric"), e(2, 0.0)),
            (s("battery_state"), cu("soc", "percent", Fmt::F(100.0))),
        ];
        add_case(
            st,
            with_probe_ops(case(vec![], bev.clone(), vec![], User::Some(vec![(s("time"), t(0, 2.0)), (s("battery_state"), cu("soc", "percent", Fmt::F(55.0)))]))),
            "override_initial_values",
        );
        add_case(st, with_probe_ops(case(vec![], bev.clone(), vec![], User::None)), "override_initial_values");
        add_case(st, with_probe_ops(case(vec![], bev.clone(), vec![], User::Some(vec![(s("battery_state"), cu("soc", "percent", Fmt::F(55.0)))]))), "override_initial_values");
        add_case(st, with_probe_ops(case(vec![], bev.clone(), vec![], User::Some(vec![(s("distance"), d(2, 1.5))]))), "override_initial_values");
        // growth across the small-size specialisations: n configured features, k contributed by the models, with and without an override
        let pool: Vec<(String, Feat)> = vec![
            (s("distance"), d(1, 0.0)),
            (s("time"), t(1, 0.5)),
            (s("energy_electric"), e(2, 0.25)),
            (s("battery_state"), cu("soc", "percent", Fmt::F(100.0))),
            (s("trip_distance"), d(2, 1.0)),
            (s("trip_time"), t(0, 0.0)),
            (s("leg_energy"), e(0, 2.0)),
            (s("flag"), cu("flag", "none", Fmt::B(false))),
            (s("count"), cu("count", "items", Fmt::I(-4))),
            (s("odo"), cu("count", "items", Fmt::U(17))),
        ];
        for n in 0..=7usize {
            for k in 0..=3usize {
                if n + k > pool.len() {
                    continue;
                }
                let cfg = pool[..n].to_vec();
                let tm = pool[n..n + k].to_vec();
                add_case(st, with_probe_ops(case(cfg.clone(), tm.clone(), vec![], User::None)), "grow");
                if k > 0 {
                    let (name, f) = tm[k - 1].clone();
                    let mut r = Rng::new((n * 10 + k) as u64);
                    add_case(st, with_probe_ops(case(cfg.clone(), tm.clone(), vec![], User::Some(vec![(name, gen_same_kind(&mut r, &f))]))), "grow_override_last");
                    // the access model contributes the last one again, the traversal model the others
                    add_case(st, with_probe_ops(case(cfg.clone(), tm.clone(), vec![tm[k - 1].clone()], User::None)), "grow_both_models");
                }
            }
        }
        // override at every position of a model of 1..8 model-contributed features
        for n in 1..=8usize {
            for p in 0..n {
                let tm = pool[..n].to_vec();
                let mut r = Rng::new((n * 100 + p) as u64);
                let (name, f) = tm[p].clone();
                add_case(st, with_probe_ops(case(vec![], tm.clone(), vec![], User::Some(vec![(name.clone(), gen_same_kind(&mut r, &f))]))), "override_each_position");
                // a configured feature at position p that a model declares again (other unit), then overridden by the query
                let mut am_def = gen_same_kind(&mut r, &f);
                if p % 2 == 0 {
                    am_def = f.clone();
                }
                add_case(
                    st,
                    with_probe_ops(case(tm.clone(), vec![], vec![(name.clone(), am_def.clone())], User::Some(vec![(name.clone(), gen_same_kind(&mut r, &f))]))),
                    "configured_redeclared_overridden",
                );
            }
        }
        // the same name contributed by both models
        add_case(st, with_probe_ops(case(vec![], vec![(s("time"), t(1, 0.0)), (s("distance"), d(0, 0.0))], vec![(s("time"), t(2, 30.0))], User::None)), "both_models");
        add_case(
            st,
            with_probe_ops(case(vec![], vec![(s("time"), t(1, 0.0)), (s("distance"), d(0, 0.0))], vec![(s("time"), t(2, 30.0))], User::Some(vec![(s("time"), t(0, 1.0))]))),
            "both_models",
        );
        add_case(st, with_probe_ops(case(vec![], vec![(s("time"), t(1, 0.0))], vec![(s("time"), d(0, 7.0))], User::None)), "both_models_other_kind");
        add_case(st, with_probe_ops(case(vec![], vec![(s("time"), t(1, 0.0)), (s("time"), t(3, 9.0)), (s("odo"), d(4, 1.0))], vec![], User::None)), "declared_twice_by_one_model");
        // refused queries
        let base = case(vec![(s("distance"), d(1, 0.0))], vec![(s("time"), t(1, 0.0)), (s("soc"), cu("soc", "percent", Fmt::F(80.0)))], vec![], User::None);
        let with_user = |u: User| {
            let mut c = base.clone();
            c.user = u;
            with_probe_ops(c)
        };
        add_case(st, with_user(User::Some(vec![(s(GHOST), t(1, 0.0))])), "refused_unknown_name");
        add_case(st, with_user(User::Some(vec![(s("distance"), d(0, 5.0))])), "refused_configured_only");
        add_case(st, with_user(User::Some(vec![(s("time"), d(0, 5.0))])), "refused_other_type");
        add_case(st, with_user(User::Some(vec![(s("soc"), cu("charge", "percent", Fmt::F(1.0)))])), "refused_other_type");
        add_case(st, with_user(User::Some(vec![(s("time"), cu("time", "none", Fmt::F(1.0)))])), "refused_custom_named_like_builtin");
        add_case(st, with_user(User::Some(vec![(s("soc"), cu("soc", "fraction", Fmt::F(0.8)))])), "refused_other_custom_unit");
        add_case(st, with_user(User::Some(vec![(s("soc"), cu("soc", "percent", Fmt::B(true)))])), "override_custom_format");
        add_case(st, with_user(User::Bad(json!(17))), "refused_unparsable");
        add_case(st, with_user(User::Bad(json!({"time": {"speed_unit": "mph"}}))), "refused_unparsable");
        add_case(st, with_user(User::Some(vec![])), "empty_override");
        add_case(st, with_probe_ops(case(vec![(s("time"), d(0, 1.0))], vec![(s("time"), t(1, 0.0))], vec![], User::None)), "refused_model_replaces_other_kind");
        // accessors that must fail: unknown name, wrong family, wrong codec, negative unsigned
        let mut c = case(pool[..9].to_vec(), vec![(s("odo"), cu("count", "items", Fmt::U(17)))], vec![], User::None);
        c.ops = vec![
            Op::Get(s(GHOST), 0, 0),
            Op::Set(s(GHOST), 1, 0, 1.0),
            Op::Add(s(GHOST), 2, 0, 1.0),
            Op::GetF(s(GHOST)),
            Op::SetB(s(GHOST), true),
            Op::Get(s("time"), 0, 0),
            Op::Set(s("distance"), 1, 0, 1.0),
            Op::Add(s("battery_state"), 2, 0, 1.0),
            Op::GetF(s("distance")),
            Op::SetF(s("time"), 1.0),
            Op::GetI(s("battery_state")),
            Op::SetI(s("flag"), 3),
            Op::GetB(s("count")),
            Op::SetU(s("count"), 3),
            Op::SetF(s("odo"), -2.5),
            Op::GetU(s("odo")),
            Op::SetI(s("count"), -(1i64 << 53) - 1),
            Op::GetI(s("count")),
            Op::SetU(s("odo"), (1u64 << 62) + 1),
            Op::GetU(s("odo")),
            Op::SetF(s("battery_state"), 3.99),
            Op::GetF(s("battery_state")),
            Op::SetB(s("flag"), true),
            Op::GetB(s("flag")),
            Op::Rt(s("trip_distance"), 0, 2, 12.5),
            Op::Rt(s("trip_distance"), 0, 4, 12.5),
            Op::Ag(s("leg_energy"), 2, 2, 3.0),
        ];
        add_case(st, c, "accessor_errors_and_codecs");
    }

    /// families added for the label / sequence / top-of-range findings
    fn boundary2(st: &mut Stream) {
        let case = |cfg: Vec<(String, Feat)>, tm: Vec<(String, Feat)>, am: Vec<(String, Feat)>, user: User| Case { cfg, tm, am, user, ops: vec![] };
        // a custom feature whose free-text unit label is the name of a built-in unit, configured and as a query
        // override (both go through serde), under an ordinary name and under a name that is a unit name itself
        for (i, label) in LABELS[3..15].iter().enumerate() {
            let name = ["miles", "seconds", "odo"][i % 3];
            let c = case(
                vec![(s("soc"), cu("range", label, Fmt::F(42.5))), (s("flag"), cu(label, label, Fmt::B(true)))],
                vec![(s(name), cu("count", label, Fmt::U(7)))],
                vec![],
                User::Some(vec![(s(name), cu("count", label, Fmt::U(9 + i as u64)))]),
            );
            add_case(st, with_probe_ops(c), "custom_label_is_builtin_unit");
            let c = case(vec![(s("count"), cu("count", label, Fmt::I(-3 - i as i64)))], vec![(s("distance"), d(i % 5, 1.0))], vec![], User::None);
            add_case(st, with_probe_ops(c), "custom_label_is_builtin_unit");
        }
        // the ends of the integer ranges: as initial values (configured, and set by a query), written and read back,
        // and left in the slot by a raw write
        let mut c = case(
            vec![
                (s("count"), cu("count", "items", Fmt::U(u64::MAX))),
                (s("odo"), cu("count", "items", Fmt::I(i64::MAX))),
                (s("soc"), cu("count", "items", Fmt::I(i64::MIN))),
                (s("flag"), cu("count", "items", Fmt::I((1i64 << 53) + 1))),
                (s("miles"), cu("count", "items", Fmt::U((1u64 << 53) - 1))),
                (s("seconds"), cu("flag", "none", Fmt::B(false))),
                (s("battery_state"), cu("soc", "percent", Fmt::F(50.0))),
            ],
            vec![(s("trip_time"), cu("count", "items", Fmt::U(0)))],
            vec![],
            User::Some(vec![(s("trip_time"), cu("count", "items", Fmt::U(u64::MAX - 1)))]),
        );
        c.ops = vec![
            Op::GetU(s("count")),
            Op::GetI(s("odo")),
            Op::GetI(s("soc")),
            Op::GetI(s("flag")),
            Op::GetU(s("miles")),
            Op::GetU(s("trip_time")),
            Op::SetU(s("count"), u64::MAX - 1024),
            Op::GetU(s("count")),
            Op::SetU(s("count"), u64::MAX - 1025),
            Op::GetU(s("count")),
            Op::SetU(s("count"), (1u64 << 63) + 1025),
            Op::GetU(s("count")),
            Op::SetU(s("count"), u64::MAX),
            Op::GetU(s("count")),
            Op::SetI(s("odo"), i64::MAX - 512),
            Op::GetI(s("odo")),
            Op::SetI(s("odo"), i64::MAX - 513),
            Op::GetI(s("odo")),
            Op::SetI(s("odo"), i64::MIN),
            Op::GetI(s("odo")),
            Op::SetI(s("odo"), i64::MIN + 1),
            Op::GetI(s("odo")),
            Op::SetI(s("odo"), -(1i64 << 53) - 1),
            Op::GetI(s("odo")),
            Op::SetI(s("odo"), i64::MAX),
            Op::GetI(s("odo")),
        ];
        for x in [
            f64::NAN, f64::INFINITY, f64::NEG_INFINITY, -0.0, -0.5, 0.5, 3.99, -3.99, 9223372036854775808.0, 9223372036854774784.0,
            -9223372036854775808.0, -9223372036854777856.0, 18446744073709551616.0, 18446744073709549568.0, 1e30,
        ] {
            c.ops.push(Op::Poke(0, x));
            c.ops.push(Op::GetU(s("count")));
            c.ops.push(Op::Poke(1, x));
            c.ops.push(Op::GetI(s("odo")));
            c.ops.push(Op::Poke(5, x));
            c.ops.push(Op::GetB(s("seconds")));
            c.ops.push(Op::Poke(6, x));
            c.ops.push(Op::GetF(s("battery_state")));
        }
        add_case(st, c, "integer_range_ends");
        // several queries on ONE application: the same names with other units / initial values, other name sets in between
        let cfg = vec![(s("distance"), d(1, 0.0))];
        let tm = vec![(s("time"), t(1, 0.0)), (s("energy_electric"), e(2, 0.0)), (s("battery_state"), cu("soc", "percent", Fmt::F(100.0)))];
        let users = vec![
            User::Some(vec![(s("time"), t(0, 2.0))]),
            User::Some(vec![(s("time"), t(2, 30.0))]),
            User::None,
            User::Some(vec![(s("time"), t(1, 5.0))]),
            User::Some(vec![(s("battery_state"), cu("soc", "percent", Fmt::F(55.0)))]),
            User::Some(vec![(s("battery_state"), cu("soc", "percent", Fmt::F(20.0)))]),
            User::Some(vec![(s("time"), t(0, 2.0))]),
        ];
        for n in 2..=5usize {
            for start in 0..3usize {
                let steps: Vec<Case> = (0..n).map(|k| with_probe_ops(case(cfg.clone(), tm.clone(), vec![], users[(start + k) % users.len()].clone()))).collect();
                add_multi(st, steps, "queries_same_names_other_definitions");
            }
        }
        // the services build another vehicle model for the second query: same names, other units and initial values
        let tm2 = vec![(s("time"), t(2, 10.0)), (s("energy_electric"), e(0, 1.5)), (s("battery_state"), cu("soc", "percent", Fmt::F(80.0)))];
        let tm3 = vec![(s("trip_distance"), d(2, 0.0)), (s("time"), t(0, 0.0))];
        for order in [[0usize, 1, 0], [1, 0, 2], [2, 0, 1], [0, 2, 1]] {
            let tms = [tm.clone(), tm2.clone(), tm3.clone()];
            let steps: Vec<Case> = order.iter().map(|k| with_probe_ops(case(cfg.clone(), tms[*k].clone(), vec![], User::None))).collect();
            add_multi(st, steps, "queries_other_vehicle_model");
        }
    }

    /// overrides in another unit than the model's with non-zero initial values, read in both units; long runs of adds in a
    /// unit other than the feature's (zero and non-zero increments)
    fn boundary3(st: &mut Stream) {
        let case = |cfg: Vec<(String, Feat)>, tm: Vec<(String, Feat)>, am: Vec<(String, Feat)>, user: User| Case { cfg, tm, am, user, ops: vec![] };
        let tm = vec![(s("distance"), d(1, 1.5)), (s("time"), t(0, 0.25)), (s("energy_liquid"), e(0, 2.0))];
        for (du, tu, eu) in [(2usize, 1usize, 2usize), (0, 2, 1), (4, 3, 2), (3, 1, 1)] {
            let mut c = case(
                vec![(s("odo"), d(0, 7.0))],
                tm.clone(),
                vec![],
                User::Some(vec![(s("distance"), d(du, 10.0)), (s("time"), t(tu, 30.0)), (s("energy_liquid"), e(eu, 4.5))]),
            );
            c.ops = vec![
                Op::Get(s("distance"), 0, du),
                Op::Get(s("distance"), 0, 1),
                Op::Get(s("time"), 1, tu),
                Op::Get(s("time"), 1, 0),
                Op::Get(s("energy_liquid"), 2, eu),
                Op::Get(s("energy_liquid"), 2, 0),
                Op::Get(s("odo"), 0, 0),
            ];
            add_case(st, c, "override_other_unit_nonzero_initial");
        }
        for (n, dx) in [(50usize, 0.1f64), (200, 0.1), (500, 0.1), (50, 0.0), (500, 0.0), (500, 12.5)] {
            let mut c = case(
                vec![],
                vec![(s("distance"), d(1, 0.0)), (s("time"), t(1, 0.0)), (s("energy_liquid"), e(2, 0.0))],
                vec![],
                User::Some(vec![(s("distance"), d(2, 3.0)), (s("time"), t(0, 1.0)), (s("energy_liquid"), e(0, 2.0))]),
            );
            c.ops = vec![
                Op::AddN(s("distance"), 0, 1, dx, n),
                Op::Get(s("distance"), 0, 2),
                Op::Get(s("distance"), 0, 1),
                Op::AddN(s("time"), 1, 2, dx * 60.0, n),
                Op::Get(s("time"), 1, 0),
                Op::AddN(s("energy_liquid"), 2, 2, dx, n),
                Op::Get(s("energy_liquid"), 2, 0),
                Op::Add(s("distance"), 0, 4, 0.0),
                Op::Ag(s("distance"), 0, 0, 0.0),
                Op::Ag(s("time"), 1, 3, 0.0),
            ];
            add_case(st, c, "many_adds_in_another_unit");
        }
    }

    /// every ordered pair of units of every family through set / get / add; initial values spelled every way JSON allows
    fn boundary4(st: &mut Stream) {
        let case = |cfg: Vec<(String, Feat)>, tm: Vec<(String, Feat)>, am: Vec<(String, Feat)>, user: User| Case { cfg, tm, am, user, ops: vec![] };
        for fam in 0..3usize {
            let name = ["distance", "time", "energy_liquid"][fam];
            for fu in 0..fam_units(fam) {
                // the feature is kept in unit fu (declared by the model in another unit, set by the query)
                let mut c = case(
                    vec![],
                    vec![(s(name), Feat::Unit(fam, (fu + 1) % fam_units(fam), 0.0))],
                    vec![],
                    User::Some(vec![(s(name), Feat::Unit(fam, fu, 3.0))]),
                );
                for u in 0..fam_units(fam) {
                    c.ops.push(Op::Set(s(name), fam, u, 36.0));
                    c.ops.push(Op::Get(s(name), fam, fu));
                    c.ops.push(Op::Get(s(name), fam, u));
                    c.ops.push(Op::Add(s(name), fam, u, 1.5));
                    c.ops.push(Op::Get(s(name), fam, fu));
                    c.ops.push(Op::Rt(s(name), fam, u, 432.0));
                    c.ops.push(Op::AddN(s(name), fam, u, 2.0, 12));
                }
                add_case(st, c, "every_unit_pair");
            }
        }
        // whole-number initial values: negative, zero, minus zero, thousands, the ends of the integer ranges; the position
        // in the list picks the spelling (integer literal / float literal / exponent form), so rotate the list
        let vals = [-5.0, 5.0, 0.0, -0.0, -12000.0, 3000.0, 9007199254740992.0, 18446744073709551616.0, -9223372036854775808.0, -1.0, 1.0];
        for rot in 0..3usize {
            let mut cfg = vec![];
            let mut tm = vec![];
            let mut user = vec![];
            for (i, x) in vals.iter().enumerate() {
                let name = NAMES[(i + rot) % NAMES.len()];
                let fam = (i + rot) % 3;
                let f = Feat::Unit(fam, i % fam_units(fam), *x);
                if i % 2 == 0 {
                    cfg.push((s(name), f));
                } else {
                    tm.push((s(name), Feat::Unit(fam, 0, 1.0)));
                    user.push((s(name), f));
                }
            }
            let mut c = case(cfg, tm, vec![], User::Some(user));
            c.ops = vec![Op::Get(s(NAMES[rot]), rot % 3, 0)];
            add_case(st, c, "initial_value_spellings");
        }
    }

    /// writes of +inf, -inf and NaN through set_* / add_* / set_custom_f64: a write is a write (each is followed by a
    /// finite write, so that the next judgement starts from a finite slot)
    fn boundary5(st: &mut Stream) {
        let case = |cfg: Vec<(String, Feat)>, tm: Vec<(String, Feat)>, am: Vec<(String, Feat)>, user: User| Case { cfg, tm, am, user, ops: vec![] };
        for rot in 0..3usize {
            let mut c = case(
                vec![(s("odo"), d(rot, 12.5))],
                vec![(s("distance"), d((rot + 1) % 5, 12.5)), (s("time"), t(rot, 12.5)), (s("energy_liquid"), e(rot, 12.5)), (s("soc"), cu("soc", "percent", Fmt::F(12.5)))],
                vec![],
                User::None,
            );
            for (name, fam) in [("distance", 0usize), ("time", 1), ("energy_liquid", 2), ("odo", 0)] {
                for (k, x) in [f64::INFINITY, f64::NEG_INFINITY, f64::NAN].iter().enumerate() {
                    let u = (rot + k) % fam_units(fam);
                    c.ops.push(Op::Set(s(name), fam, u, *x));
                    c.ops.push(Op::Set(s(name), fam, u, 12.5));
                    c.ops.push(Op::Add(s(name), fam, u, *x));
                    c.ops.push(Op::Set(s(name), fam, u, 2.0 + k as f64));
                }
            }
            for x in [f64::INFINITY, f64::NEG_INFINITY, f64::NAN] {
                c.ops.push(Op::SetF(s("soc"), x));
                c.ops.push(Op::GetF(s("soc")));
                c.ops.push(Op::SetF(s("soc"), 12.5));
            }
            add_case(st, c, "non_finite_writes");
        }
    }

    /// a follow-up query on the same application: the same names with other definitions, or something else entirely
    fn follow_up(r: &mut Rng, first: &Case) -> Case {
        let mut c = first.clone();
        match r.below(4) {
            0 => {
                // the same query again
            }
            1 => {
                // the same overrides with other units / initial values
                if let User::Some(l) = &c.user {
                    c.user = User::Some(l.iter().map(|(n, f)| (n.clone(), gen_same_kind(r, f))).collect());
                }
            }
            2 => {
                // the models declare the same names with other units / initial values
                c.tm = c.tm.iter().map(|(n, f)| (n.clone(), gen_same_kind(r, f))).collect();
                c.am = c.am.iter().map(|(n, f)| (n.clone(), gen_same_kind(r, f))).collect();
            }
            _ => {
                let other = random_case(r);
                c.tm = other.tm;
                c.am = other.am;
                c.user = other.user;
            }
        }
        let n_ops = r.below(6) as usize;
        c.ops = gen_ops(r, &c, n_ops);
        c
    }

    fn random_case(r: &mut Rng) -> Case {
        let mut names: Vec<String> = NAMES.iter().map(|x| x.to_string()).collect();
        r.shuffle(&mut names);
        let n_cfg = match r.below(4) {
            0 => r.below(3),
            1 => r.below(6),
            _ => r.below(10),
        } as usize;
        let mut current: Vec<(String, Feat)> = vec![];
        let mut cfg = vec![];
        for n in names.iter().take(n_cfg) {
            let f = gen_feat(r);
            cfg.push((n.clone(), f.clone()));
            current.push((n.clone(), f));
        }
        let mut declare = |r: &mut Rng, current: &mut Vec<(String, Feat)>, k: usize| -> Vec<(String, Feat)> {
            let mut out = vec![];
            for _ in 0..k {
                // a new name, or one that is already defined (configured, or declared by a model)
                let reuse = !current.is_empty() && r.chance(1, 3);
                let (name, f) = if reuse {
                    let (n, old) = r.pick(current).clone();
                    let f = if r.chance(9, 10) { gen_same_kind(r, &old) } else { gen_feat(r) };
                    (n, f)
                } else {
                    (r.pick(&names).clone(), gen_feat(r))
                };
                let f = match current.iter().find(|(m, _)| *m == name) {
                    Some((_, old)) if !reuse && r.chance(9, 10) => gen_same_kind(r, old),
                    _ => f,
                };
                if let Some(e) = current.iter_mut().find(|(m, _)| *m == name) {
                    e.1 = f.clone();
                } else {
                    current.push((name.clone(), f.clone()));
                }
                out.push((name, f));
            }
            out
        };
        let k_tm = r.below(5) as usize;
        let tm = declare(r, &mut current, k_tm);
        let k_am = r.below(3) as usize;
        let am = declare(r, &mut current, k_am);
        let model_names: Vec<String> = tm.iter().chain(am.iter()).map(|(n, _)| n.clone()).collect();
        let user = match r.below(20) {
            0..=5 => User::None,
            6 => User::Bad(if r.chance(1, 2) { json!("time") } else { json!({"time": {"unit": 3}}) }),
            _ => {
                let mut l: Vec<(String, Feat)> = vec![];
                let k = r.below(4) as usize;
                let mut bad_used = false;
                for _ in 0..k {
                    let roll = r.below(20);
                    let (name, f) = if !model_names.is_empty() && roll < 15 {
                        // a valid override of something a model declares
                        let n = r.pick(&model_names).clone();
                        let old = current.iter().find(|(m, _)| *m == n).unwrap().1.clone();
                        (n, gen_same_kind(r, &old))
                    } else if bad_used {
                        continue;
                    } else {
                        bad_used = true;
                        match roll {
                            15 | 16 => (s(GHOST), gen_feat(r)),
                            17 => match cfg.iter().find(|(n, _)| !model_names.contains(n)) {
                                Some((n, f)) => (n.clone(), gen_same_kind(r, f)),
                                None => (s(GHOST), gen_feat(r)),
                            },
                            _ => {
                                if model_names.is_empty() {
                                    (s(GHOST), gen_feat(r))
                                } else {
                                    (r.pick(&model_names).clone(), gen_feat(r))
                                }
                            }
                        }
                    };
                    if l.iter().all(|(m, _)| *m != name) {
                        l.push((name, f));
                    }
                }
                User::Some(l)
            }
        };
        let mut c = Case { cfg, tm, am, user, ops: vec![] };
        let n_ops = r.below(9) as usize;
        c.ops = gen_ops(r, &c, n_ops);
        c
    }

    pub fn main(a: Args) {
        let header = "From Coq Require Import ZArith List String Floats.\nFrom RC Require Import Base.Show Base.Res Model.Units Model.StateModel Model.StateModelRun.\nImport ListNotations.\nImport Units SM SMRun.\nOpen Scope Z_scope.";
        let mut st = Stream::new(&a.out, "state", header, a.shards);
        if let Some(p) = &a.replay {
            st.full = true;
            let v: Value = serde_json::from_str(&std::fs::read_to_string(p).unwrap()).unwrap();
            add_multi(&mut st, multi_from(&v["case"]), "replay");
            st.finish();
            return;
        }
        boundary(&mut st);
        boundary2(&mut st);
        boundary3(&mut st);
        boundary4(&mut st);
        boundary5(&mut st);
        let mut rng = Rng::new(a.seed ^ 0x5717_A7E5);
        while st.next_id() < a.n {
            let mut r = rng.fork();
            let c = random_case(&mut r);
            if r.chance(1, 4) {
                let n = 2 + r.below(4) as usize;
                let mut steps = vec![c];
                while steps.len() < n {
                    let prev = if r.chance(1, 2) { steps[0].clone() } else { steps[steps.len() - 1].clone() };
                    let next = follow_up(&mut r, &prev);
                    steps.push(next);
                }
                add_multi(&mut st, steps, "random_sequence");
            } else {
                add_case(&mut st, c, "random");
            }
        }
        st.finish();
    }
}
