//! C11 harness: CompactOrderedHashMap op sequences (stream `cmap`).
use routee_compass_core::util::compact_ordered_hash_map::CompactOrderedHashMap;
use serde_json::json;
use verif_harness::*;

type M = CompactOrderedHashMap<i64, i64>;
const PROBE: [i64; 13] = [0, 1, 2, 3, 4, 5, 6, 7, 8, 9, 10, 11, 12];

fn show_kv(k: &i64, v: &i64) -> String {
    format!("{}:{}", k, v)
}
fn obs(m: &M) -> String {
    let iter: Vec<String> = m.iter().map(|(k, v)| show_kv(k, v)).collect();
    let keys: Vec<String> = m.keys().map(|k| k.to_string()).collect();
    // to_vec exposes (key, IndexedEntry) whose fields are private: read them through Debug
    let vec: Vec<String> = m
        .to_vec()
        .iter()
        .map(|(k, e)| {
            let d = format!("{:?}", e); // IndexedEntry { v: 10, index: 1 }
            let v = d.split("v: ").nth(1).unwrap().split(',').next().unwrap().trim().to_string();
            let i = d.split("index: ").nth(1).unwrap().trim_end_matches(|c| c == '}' || c == ' ').to_string();
            format!("{}:{}@{}", k, v, i)
        })
        .collect();
    let get: Vec<String> = PROBE.iter().map(|k| show_opt(&m.get(k), |v| v.to_string())).collect();
    let idx: Vec<String> = PROBE.iter().map(|k| show_opt(&m.get_index(k), |v| v.to_string())).collect();
    let pair: Vec<String> =
        (0..m.len() + 2).map(|i| show_opt(&m.get_pair(i), |(k, v)| show_kv(k, v))).collect();
    // contains_key / is_empty are checked against get / len here, on the implementation side
    for k in PROBE.iter() {
        assert_eq!(m.contains_key(k), m.get(k).is_some());
    }
    assert_eq!(m.is_empty(), m.len() == 0);
    format!(
        "len={} iter=[{}] keys=[{}] vec=[{}] get=[{}] idx=[{}] pair=[{}]",
        m.len(),
        iter.join(","),
        keys.join(","),
        vec.join(","),
        get.join(","),
        idx.join(","),
        pair.join(",")
    )
}

#[derive(Clone, Debug)]
enum Ctor {
    Empty,
    New(Vec<(i64, i64)>),
    FromIter(Vec<(i64, i64)>),
}

fn run_impl(c: &Ctor, ops: &[(i64, i64)]) -> String {
    let mut m: M = match c {
        Ctor::Empty => CompactOrderedHashMap::empty(),
        Ctor::New(l) => CompactOrderedHashMap::new(l.clone()),
        Ctor::FromIter(l) => l.clone().into_iter().collect(),
    };
    let mut parts = vec![obs(&m)];
    for (k, v) in ops {
        let old = m.insert(*k, *v);
        parts.push(format!("ret={} {}", show_opt(&old, |v| v.to_string()), obs(&m)));
    }
    parts.join(" | ")
}

fn coq_kvs(l: &[(i64, i64)]) -> String {
    coq_list(l, |(k, v)| format!("({}, {})", coq_z(*k as i128), coq_z(*v as i128)))
}
fn coq_ctor(c: &Ctor) -> String {
    match c {
        Ctor::Empty => "CEmpty".into(),
        Ctor::New(l) => format!("(CNew {})", coq_kvs(l)),
        Ctor::FromIter(l) => format!("(CFromIter {})", coq_kvs(l)),
    }
}

fn add_case(st: &mut Stream, c: Ctor, ops: Vec<(i64, i64)>, family: &str) {
    let id = st.next_id();
    let ops_coq = coq_list(&ops, |(k, v)| format!("OInsert {} {}", coq_z(*k as i128), coq_z(*v as i128)));
    let terms = vec![
        format!("line_cm {} {} {}", id, coq_ctor(&c), ops_coq),
        format!("line_spec {} {} {}", id, coq_ctor(&c), ops_coq),
    ];
    let cc = c.clone();
    let oo = ops.clone();
    let out = catch(move || run_impl(&cc, &oo)).unwrap_or_else(|e| format!("PANIC {}", e));
    let desc = json!({"id": id, "family": family, "ctor": format!("{:?}", c), "ops": ops});
    // non-trivial: final size crosses the 4->5 specialisation boundary, or an overwrite happened
    let init_len = match &c {
        Ctor::Empty => 0,
        Ctor::New(l) | Ctor::FromIter(l) => l.len(),
    };
    let mut seen = std::collections::BTreeSet::new();
    let mut overwrite = false;
    if let Ctor::New(l) | Ctor::FromIter(l) = &c {
        for (k, _) in l {
            if !seen.insert(*k) {
                overwrite = true;
            }
        }
    }
    for (k, _) in &ops {
        if !seen.insert(*k) {
            overwrite = true;
        }
    }
    let crosses = seen.len() >= 5;
    st.count(&format!("family:{}", family));
    st.count(&format!("ctor:{}", match &c { Ctor::Empty => "empty", Ctor::New(_) => "new", Ctor::FromIter(_) => "from_iter" }));
    st.count(&format!("final_size:{}", if seen.len() > 12 { 12 } else { seen.len() }));
    st.count(&format!("ops:{}", (ops.len() + 9) / 10 * 10));
    let _ = init_len;
    if overwrite {
        st.count("has_overwrite");
    }
    if crosses {
        st.count("crosses_4_to_5");
    }
    if overwrite || crosses {
        st.mark_nontrivial(&format!("{:?}{:?}", c, ops));
    }
    st.case(terms, vec![format!("I {} {}", id, out)], desc);
}

fn distinct_pairs(rng: &mut Rng, n: usize) -> Vec<(i64, i64)> {
    let mut keys: Vec<i64> = (0..13).collect();
    rng.shuffle(&mut keys);
    keys.truncate(n.min(13));
    keys.into_iter().map(|k| (k, rng.range(-50, 50))).collect()
}

fn main() {
    silence_panics();
    let a = parse_args();
    let header = "From Coq Require Import ZArith List String.\nFrom RC Require Import Base.Show Model.CompactMap Model.CompactMapRun.\nImport ListNotations.\nOpen Scope Z_scope.";
    let mut st = Stream::new(&a.out, "cmap", header, a.shards);
    if let Some(p) = &a.replay {
        st.full = true;
        let v: serde_json::Value = serde_json::from_str(&std::fs::read_to_string(p).unwrap()).unwrap();
        let case = &v["case"];
        let ops: Vec<(i64, i64)> = serde_json::from_value(case["ops"].clone()).unwrap();
        let c = parse_ctor(case["ctor"].as_str().unwrap());
        add_case(&mut st, c, ops, "replay");
        st.finish();
        return;
    }
    // ---- deterministic boundary families ----
    // growth 0..13 distinct keys from every constructor, and overwrite of every position at every size
    for n in 0..=9usize {
        let base: Vec<(i64, i64)> = (0..n as i64).map(|k| (k, 100 + k)).collect();
        for pos in 0..n {
            add_case(&mut st, Ctor::New(base.clone()), vec![(pos as i64, -1)], "overwrite_each_pos_new");
            add_case(&mut st, Ctor::FromIter(base.clone()), vec![(pos as i64, -1), (12, 7)], "overwrite_each_pos_from_iter");
        }
        add_case(&mut st, Ctor::New(base.clone()), vec![(11, 1), (12, 2), (10, 3)], "grow_from_new");
        add_case(&mut st, Ctor::Empty, base.clone(), "grow_from_empty");
    }
    // duplicate keys at construction (outside "a set of features": model-only comparison)
    add_case(&mut st, Ctor::New(vec![(1, 1), (1, 2)]), vec![], "new_with_duplicates");
    add_case(&mut st, Ctor::New(vec![(1, 1), (2, 2), (1, 3), (4, 4), (5, 5), (6, 6)]), vec![], "new_with_duplicates");
    let mut rng = Rng::new(a.seed);
    while st.next_id() < a.n {
        let mut r = rng.fork();
        let c = match r.below(4) {
            0 => Ctor::Empty,
            1 => {
                let n = r.below(10) as usize;
                Ctor::New(distinct_pairs(&mut r, n))
            }
            2 => {
                let n = r.below(9) as usize;
                Ctor::FromIter((0..n).map(|_| (r.range(0, 12), r.range(-50, 50))).collect())
            }
            _ => {
                let n = r.below(5) as usize + 3;
                Ctor::New(distinct_pairs(&mut r, n))
            }
        };
        let len = match r.below(4) {
            0 => r.below(4),
            1 => r.below(12),
            2 => r.below(30),
            _ => r.below(61),
        } as usize;
        // key universe per case: small (many overwrites) or the full 13 keys
        let universe = *r.pick(&[3i64, 5, 6, 8, 13]);
        let ops: Vec<(i64, i64)> = (0..len).map(|_| (r.range(0, universe - 1), r.range(-50, 50))).collect();
        add_case(&mut st, c, ops, "random");
    }
    st.finish();
}

fn parse_ctor(s: &str) -> Ctor {
    // Debug form written into the case description: Empty | New([(k, v), ...]) | FromIter([...])
    let nums = |t: &str| -> Vec<(i64, i64)> {
        let cleaned: String = t.chars().map(|c| if c.is_ascii_digit() || c == '-' { c } else { ' ' }).collect();
        let v: Vec<i64> = cleaned.split_whitespace().map(|x| x.parse().unwrap()).collect();
        v.chunks(2).map(|c| (c[0], c[1])).collect()
    };
    if s.starts_with("Empty") {
        Ctor::Empty
    } else if s.starts_with("New") {
        Ctor::New(nums(&s[3..]))
    } else {
        Ctor::FromIter(nums(&s[8..]))
    }
}
