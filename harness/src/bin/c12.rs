//! C12 harness: structurally generated + mutated query batches through the REAL CompassApp
//! (built offline from generated network files by verif_harness::appkit), every call under
//! catch_unwind and a watchdog.
//!
//! streams (any stream name other than `pending` / `dump-corpus` runs the main stream under that name)
//!   batch        corpus witnesses (`--corpus DIR`: the listed known finding K_yens_k_ge_2 and every defect fixed in
//!                /repo so far), then the deterministic families, then random mutated batches
//!                `--boundary-only` no random cases; `--wrap` the binary was built with the `wrap` profile (the
//!                one-edge Yen's witness is skipped there: it loops ~2^64 times while allocating)
//!   pending      families of classes reported to the coordinator and not (yet) listed as known findings:
//!                `--only <id>` selects one class; the check runs this stream only for listed ids (none at present)
//!   dump-corpus  writes corpus/C12/*.json into --out (run by hand when a witness is added)
//!   `--timeout-ms N` watchdog period (default 10000); a call that does not return (or grows the process by 2 GiB)
//!   outside the known-finding class stops the stream: its abandoned thread may allocate without bound
//!
//! per case:  I = outcome class (Ok n | Err | Panic | Hang) + per response `class:request` (sorted keys)
//!            M = PR.line_M: the Coq pipeline model (inject / grid_search / numeric load-balancer weights
//!                concrete; map matching, haversine / categorical weights, debug and the per-query
//!                search + output plugins replayed from the calls recorded on the real components)
//!            S = PR.line_S: the property checker evaluated in Coq on the observed outcome
use serde_json::{json, Map, Value};
use std::collections::{BTreeMap, HashMap};
use std::sync::Arc;
use verif_harness::appkit::*;
use verif_harness::*;

use routee_compass::app::compass::compass_app::CompassApp;

const HEADER: &str = "From Coq Require Import ZArith List String Floats.\nFrom RC Require Import Base.Show Base.Res Base.Json Model.Pipeline Model.PipelineRun.\nImport ListNotations.\nOpen Scope Z_scope.";

// ------------------------------------------------------------------------------------------ configurations

fn inj_plain() -> InPlugin {
    InPlugin::Inject { key: "injected".into(), value: "{\"a\": 1, \"b\": [true, null]}".into(), json_format: true, overwrite: None }
}
fn inj_block() -> InPlugin {
    InPlugin::Inject { key: "blocked".into(), value: "x".into(), json_format: false, overwrite: Some(false) }
}
fn out_full() -> Vec<OutPlugin> {
    vec![OutPlugin::Summary, OutPlugin::Traversal { route: Some("edge_id".into()), tree: Some("json".into()) }, OutPlugin::Uuid]
}
fn tr(route: &str, tree: Option<&str>) -> OutPlugin {
    OutPlugin::Traversal { route: Some(route.into()), tree: tree.map(|s| s.to_string()) }
}

/// the fixed catalogue of configurations (plugin configuration x algorithm x search configuration)
fn catalogue() -> Vec<AppCfg> {
    let g = || AppCfg::basic(Net::grid(3, 3));
    let mut v = vec![];
    let mut add = |f: &dyn Fn(&mut AppCfg)| {
        let mut c = g();
        f(&mut c);
        v.push(c);
    };
    // 0..: vertex ids, no map matching
    add(&|_c| {});
    add(&|c| {
        c.alg = Alg::Dijkstra;
        c.outputs = out_full();
        c.parallelism = 3;
    });
    add(&|c| c.inputs = vec![InPlugin::GridSearch]);
    add(&|c| {
        c.inputs = vec![inj_plain()];
        c.outputs = vec![OutPlugin::Summary];
        c.parallelism = 1;
    });
    add(&|c| {
        c.inputs = vec![inj_block(), InPlugin::GridSearch];
        c.outputs = vec![tr("wkt", Some("geo_json"))];
    });
    add(&|c| {
        c.inputs = vec![InPlugin::GridSearch, inj_plain(), InPlugin::LbNumeric { column: None }];
        c.parallelism = 3;
        c.outputs = vec![tr("json", None)];
    });
    add(&|c| {
        c.inputs = vec![InPlugin::LbNumeric { column: Some("w".into()) }, InPlugin::GridSearch];
        c.parallelism = 8;
        c.traversal = Traversal::Distance;
    });
    add(&|c| {
        c.inputs = vec![InPlugin::Debug, InPlugin::GridSearch, InPlugin::LbCategorical { column: Some("cat".into()), default: None }];
        c.outputs = vec![tr("wkb", Some("wkt"))];
    });
    add(&|c| {
        c.alg = Alg::KspSingleVia { k: 2, dijkstra: false };
        c.outputs = out_full();
    });
    add(&|c| {
        c.alg = Alg::KspSingleVia { k: 3, dijkstra: true };
        c.inputs = vec![InPlugin::GridSearch];
        c.outputs = vec![tr("geo_json", None)];
        c.traversal = Traversal::Distance;
    });
    add(&|c| {
        c.alg = Alg::Yens { k: 1, dijkstra: false };
        c.outputs = vec![tr("edge_id", None)];
    });
    add(&|c| {
        c.termination = Termination::Iterations(3);
        c.outputs = vec![OutPlugin::Summary];
    });
    add(&|c| {
        c.termination = Termination::SolutionSize(2);
        c.alg = Alg::Dijkstra;
    });
    add(&|c| {
        c.termination = Termination::RuntimeS(0, 1);
        c.inputs = vec![InPlugin::GridSearch];
    });
    add(&|c| {
        c.persist = false;
        c.inputs = vec![inj_block()];
    });
    add(&|c| {
        c.out_file = Some(true);
        c.inputs = vec![InPlugin::GridSearch];
        c.outputs = vec![OutPlugin::Summary];
    });
    // energy model (vehicle names)
    add(&|c| {
        c.traversal = Traversal::Energy;
        c.outputs = vec![OutPlugin::Summary, tr("edge_id", None)];
    });
    add(&|c| {
        c.traversal = Traversal::Energy;
        c.inputs = vec![InPlugin::GridSearch, InPlugin::LbNumeric { column: None }];
        c.alg = Alg::KspSingleVia { k: 2, dijkstra: false };
    });
    // map matching by coordinates
    add(&|c| c.inputs = vec![InPlugin::VertexRtree { tolerance_m: None }]);
    add(&|c| {
        c.inputs = vec![InPlugin::GridSearch, InPlugin::VertexRtree { tolerance_m: Some(500.0) }, InPlugin::LbHaversine];
        c.outputs = out_full();
        c.parallelism = 3;
    });
    add(&|c| {
        c.inputs = vec![InPlugin::LbHaversine, inj_plain()];
        c.alg = Alg::Dijkstra;
    });
    // edge oriented
    add(&|c| {
        c.edge_oriented = true;
        c.outputs = vec![tr("edge_id", Some("json"))];
    });
    add(&|c| {
        c.edge_oriented = true;
        c.inputs = vec![InPlugin::EdgeRtree { tolerance_m: Some(2000.0), road_classes: false }];
        c.outputs = vec![OutPlugin::Summary];
    });
    add(&|c| {
        c.edge_oriented = true;
        c.inputs = vec![InPlugin::GridSearch, InPlugin::EdgeRtree { tolerance_m: None, road_classes: true }];
        c.alg = Alg::KspSingleVia { k: 2, dijkstra: false };
        c.outputs = vec![tr("wkt", None)];
    });
    // other networks
    let mut c = AppCfg::basic(Net::line(5));
    c.outputs = vec![tr("edge_id", None)];
    v.push(c);
    let mut c = AppCfg::basic(Net::diamond());
    c.alg = Alg::KspSingleVia { k: 3, dijkstra: false };
    c.inputs = vec![InPlugin::GridSearch, InPlugin::LbNumeric { column: None }];
    c.outputs = out_full();
    v.push(c);
    // 26: inject key / value beyond ASCII, a no-overwrite inject whose error message names a multi-byte key, grid search
    let mut c = AppCfg::basic(Net::grid(3, 3));
    c.inputs = vec![
        InPlugin::Inject { key: "注入".into(), value: format!("{{\"名\": \"{}\"}}", utf8_text(3, 1, 300)), json_format: true, overwrite: None },
        InPlugin::Inject { key: "blöcked😀".into(), value: utf8_text(4, 0, 270), json_format: false, overwrite: Some(false) },
        InPlugin::GridSearch,
        InPlugin::LbCategorical { column: Some("cat".into()), default: None },
    ];
    c.outputs = vec![OutPlugin::Summary];
    v.push(c);
    v
}

/// text of about `bytes` bytes: `pad` ASCII letters, then scalars of UTF-8 width `width` (2: é, 3: 漢, 4: 😀,
/// 5: 'e' + combining acute = 1 + 2 bytes, 6: a mix).  With pad = 0..width every byte offset inside the text is, for
/// some pad, NOT a character boundary.
fn utf8_text(width: usize, pad: usize, bytes: usize) -> String {
    let mut s: String = "abcdefgh"[..pad.min(8)].to_string();
    let mix = ["é", "漢", "😀", "e\u{301}", "ß", "한", "𝔘", "a"];
    let mut i = 0;
    while s.len() < bytes {
        match width {
            2 => s.push('é'),
            3 => s.push('漢'),
            4 => s.push('😀'),
            5 => s.push_str("e\u{301}"),
            _ => s.push_str(mix[i % mix.len()]),
        }
        i += 1;
    }
    s
}

fn has_grid(c: &AppCfg) -> bool {
    c.inputs.contains(&InPlugin::GridSearch)
}
fn uses_coords(c: &AppCfg) -> bool {
    c.inputs.iter().any(|p| matches!(p, InPlugin::VertexRtree { .. } | InPlugin::EdgeRtree { .. } | InPlugin::LbHaversine))
}
fn matched(c: &AppCfg) -> bool {
    c.inputs.iter().any(|p| matches!(p, InPlugin::VertexRtree { .. } | InPlugin::EdgeRtree { .. }))
}
fn is_opaque(p: &InPlugin) -> bool {
    !matches!(p, InPlugin::GridSearch | InPlugin::Inject { .. } | InPlugin::LbNumeric { .. })
}

// ------------------------------------------------------------------------------------------ query generation

struct Gen<'a> {
    r: &'a mut Rng,
    c: &'a AppCfg,
}
const TYPES: usize = 10;
fn retyped(i: usize) -> Value {
    match i {
        0 => Value::Null,
        1 => json!(true),
        2 => json!(7),
        3 => json!(-3),
        4 => json!(1.5),
        5 => json!("x"),
        6 => json!("NaN"),
        7 => json!([]),
        8 => json!([1]),
        _ => json!({}),
    }
}
impl<'a> Gen<'a> {
    fn nv(&self) -> i64 {
        self.c.net.coords.len() as i64
    }
    fn ne(&self) -> i64 {
        self.c.net.edges.len() as i64
    }
    fn template(&mut self, tag: &str) -> Map<String, Value> {
        let mut q = Map::new();
        q.insert("tag".into(), json!(tag));
        let (o, d) = (self.r.range(0, self.nv() - 1), self.r.range(0, self.nv() - 1));
        let with_dest = !self.r.chance(1, 6);
        if uses_coords(self.c) {
            let (oc, dc) = (self.c.net.coords[o as usize], self.c.net.coords[d as usize]);
            let j = 0.001 * self.r.range(-2, 2) as f64;
            q.insert("origin_x".into(), json!(oc.0 + j));
            q.insert("origin_y".into(), json!(oc.1));
            if with_dest {
                q.insert("destination_x".into(), json!(dc.0));
                q.insert("destination_y".into(), json!(dc.1 + j));
            }
        }
        if !matched(self.c) {
            if self.c.edge_oriented {
                q.insert("origin_edge".into(), json!(self.r.range(0, self.ne() - 1)));
                if with_dest {
                    q.insert("destination_edge".into(), json!(self.r.range(0, self.ne() - 1)));
                }
            } else {
                q.insert("origin_vertex".into(), json!(o));
                if with_dest {
                    q.insert("destination_vertex".into(), json!(d));
                }
            }
        }
        if self.c.traversal == Traversal::Energy {
            q.insert("model_name".into(), json!(*self.r.pick(&["Toyota_Camry", "Chevy_Bolt", "Chevy_Volt"])));
        }
        for p in &self.c.inputs {
            match p {
                InPlugin::LbNumeric { column } => {
                    let col = column.clone().unwrap_or("query_weight_estimate".into());
                    q.insert(col, if self.r.chance(1, 2) { json!(self.r.range(0, 9)) } else { json!(0.25 * self.r.range(0, 40) as f64) });
                }
                InPlugin::LbCategorical { column, .. } => {
                    q.insert(column.clone().unwrap_or("query_weight_estimate".into()), json!(*self.r.pick(&["a", "b"])));
                }
                InPlugin::Inject { key, overwrite: Some(false), .. } => {
                    if self.r.chance(1, 5) {
                        q.insert(key.clone(), json!(1));
                    }
                }
                _ => {}
            }
        }
        if self.r.chance(1, 4) {
            q.insert("query_weight_estimate".into(), json!(self.r.range(0, 5)));
        }
        if self.r.chance(1, 6) {
            q.insert("weight_factor".into(), json!(*self.r.pick(&[0.0, 1.0, 1.5, 100.0])));
        }
        if self.r.chance(1, 6) {
            q.insert("weights".into(), self.weights(true));
        }
        if self.r.chance(1, 8) {
            q.insert("k".into(), json!(self.r.range(0, 1)));
        }
        q
    }
    fn weights(&mut self, valid: bool) -> Value {
        let names: &[&str] = match self.c.traversal {
            Traversal::Distance => &["distance"],
            Traversal::SpeedTable => &["distance", "time"],
            Traversal::Energy => &["distance", "time", "energy_liquid"],
        };
        let mut m = Map::new();
        for n in names {
            m.insert(n.to_string(), if valid { json!(self.r.range(1, 3)) } else { json!(*self.r.pick(&[0.0, -1.0, 0.5, 1e300, -0.0])) });
        }
        Value::Object(m)
    }
    /// a well-formed grid section (product <= 12) over fields that make sense for the configuration
    fn grid_section(&mut self) -> Value {
        let mut m = Map::new();
        let naxes = self.r.range(1, 3);
        let mut prod = 1usize;
        for a in 0..naxes {
            let len = self.r.range(1, 3) as usize;
            if prod * len > 12 {
                break;
            }
            prod *= len;
            let key: String;
            let vals: Vec<Value>;
            match self.r.below(5) {
                0 if !matched(self.c) && !self.c.edge_oriented => {
                    key = "destination_vertex".into();
                    vals = (0..len).map(|_| json!(self.r.range(0, self.nv() - 1))).collect();
                }
                1 => {
                    key = "weight_factor".into();
                    vals = (0..len).map(|i| json!(i as f64 * 0.5)).collect();
                }
                2 => {
                    key = format!("_ax{}", a);
                    vals = (0..len).map(|i| json!({"label": format!("c{}", i), "weights": self.weights(true)})).collect();
                }
                3 if uses_coords(self.c) => {
                    key = format!("_ax{}", a);
                    vals = (0..len)
                        .map(|_| {
                            let d = self.c.net.coords[self.r.below(self.nv() as u64) as usize];
                            json!({"destination_x": d.0, "destination_y": d.1})
                        })
                        .collect();
                }
                _ => {
                    key = format!("note{}", a);
                    vals = (0..len).map(|i| if i % 2 == 0 { json!(format!("v{}", i)) } else { json!([i, null]) }).collect();
                }
            }
            m.insert(key, Value::Array(vals));
        }
        if self.r.chance(1, 4) {
            m.insert("scalar".into(), json!(3));
        }
        Value::Object(m)
    }
    fn degenerate_grid(&mut self) -> Value {
        match self.r.below(12) {
            0 if self.r.chance(1, 3) => json!(utf8_text(6, 1, 40)),
            0 => json!({}),
            1 => json!({"a": []}),
            2 => json!({"a": 5}),
            3 => json!({"a": [1, 2], "b": []}),
            4 => json!({"a": [{"grid_search": {"x": [1]}}]}),
            5 => json!(5),
            6 => Value::Null,
            7 => json!([]),
            8 => json!([[1, 2]]),
            9 => json!({"grid_search": {"a": [1]}}),
            10 => json!({"a": ["my grid_search"]}),
            _ => json!({"a": [[1, 2], []], "b": [{}]}),
        }
    }
    /// one mutation of the query; returns true when the mutation makes the query malformed in a way
    /// that must be answered with an error under this configuration
    fn mutate(&mut self, q: &mut Map<String, Value>) -> (String, bool) {
        let idf: Vec<&str> = if self.c.edge_oriented { vec!["origin_edge", "destination_edge"] } else { vec!["origin_vertex", "destination_vertex"] };
        let ids_matter = !matched(self.c);
        let n = if self.c.edge_oriented { self.ne() } else { self.nv() };
        match self.r.below(15) {
            13 | 14 => {
                // text beyond ASCII as a value, as a key, or as a replacement of an existing field
                let around = *self.r.pick(&[8usize, 64, 128, 256, 512, 1024]);
                let width = *self.r.pick(&[2usize, 3, 4, 5, 6]);
                let t = utf8_text(width, self.r.below(5) as usize, around + self.r.below(12) as usize);
                match self.r.below(4) {
                    0 => {
                        q.insert(format!("note{}", self.r.below(3)), json!(t));
                    }
                    1 => {
                        q.insert(t, json!(self.r.range(0, 3)));
                    }
                    2 => {
                        let keys: Vec<String> = q.keys().filter(|k| *k != "tag").cloned().collect();
                        if !keys.is_empty() {
                            let k = self.r.pick(&keys).clone();
                            q.insert(k, json!(t));
                        }
                    }
                    _ => {
                        // first field of the object: the text starts early in every dump of the query
                        let mut m = Map::new();
                        m.insert("a_note".into(), json!(t));
                        for (k, v) in q.iter() {
                            m.insert(k.clone(), v.clone());
                        }
                        *q = m;
                    }
                }
                ("utf8".into(), false)
            }
            0 => {
                // delete a field
                let keys: Vec<String> = q.keys().filter(|k| *k != "tag").cloned().collect();
                if keys.is_empty() {
                    return ("none".into(), false);
                }
                let k = self.r.pick(&keys).clone();
                q.remove(&k);
                let must = (ids_matter && k == idf[0]) || (uses_coords(self.c) && (k == "origin_x" || k == "origin_y")) || (self.c.traversal == Traversal::Energy && k == "model_name");
                ("delete".into(), must)
            }
            1 | 2 => {
                // retype a field
                let keys: Vec<String> = q.keys().filter(|k| *k != "tag").cloned().collect();
                if keys.is_empty() {
                    return ("none".into(), false);
                }
                let k = self.r.pick(&keys).clone();
                let t = self.r.below(TYPES as u64) as usize;
                q.insert(k.clone(), retyped(t));
                let is_id = ids_matter && idf.contains(&k.as_str());
                let is_coord = uses_coords(self.c) && ["origin_x", "origin_y", "destination_x", "destination_y"].contains(&k.as_str());
                let must = (is_id && t != 2) || (is_coord && !(2..=4).contains(&t)) || (self.c.traversal == Traversal::Energy && k == "model_name");
                (format!("retype:{}", t), must)
            }
            3 => {
                // out-of-range id, destination kept so that the search has to look the vertex up
                if !ids_matter {
                    return ("none".into(), false);
                }
                let which = self.r.below(2) as usize;
                let big: Value = match self.r.below(6) {
                    0 => json!(n),
                    1 => json!(n + 7),
                    2 => json!(1u64 << 31),
                    3 => json!(1u64 << 53),
                    4 => json!(u64::MAX),
                    _ => json!(i64::MAX),
                };
                q.insert(idf[which].into(), big);
                // an out-of-range DESTINATION of a missing destination field cannot happen: `which` = 1 sets it
                ("oor_id".into(), true)
            }
            4 => {
                if !uses_coords(self.c) {
                    return ("none".into(), false);
                }
                let k = *self.r.pick(&["origin_x", "origin_y", "destination_x", "destination_y"]);
                let v: Value = match self.r.below(9) {
                    0 => json!(181.0),
                    1 => json!(-181.0),
                    2 => json!(91.0),
                    3 => json!(-91.0),
                    4 => json!(1e10),
                    5 => json!(1e39),
                    6 => json!(1e308),
                    7 => json!(-1e308),
                    _ => json!(5e-324),
                };
                if q.contains_key(k) {
                    q.insert(k.into(), v);
                }
                ("oor_coord".into(), false)
            }
            5 => {
                // identical origin and destination
                if matched(self.c) || uses_coords(self.c) {
                    for (a, b) in [("origin_x", "destination_x"), ("origin_y", "destination_y")] {
                        if let Some(v) = q.get(a).cloned() {
                            q.insert(b.into(), v);
                        }
                    }
                }
                if let Some(v) = q.get(idf[0]).cloned() {
                    q.insert(idf[1].into(), v);
                }
                ("same_od".into(), false)
            }
            6 => {
                q.insert("model_name".into(), json!(*self.r.pick(&["no_such_vehicle", "", "toyota_camry"])));
                ("unknown_vehicle".into(), self.c.traversal == Traversal::Energy)
            }
            7 if self.r.chance(1, 3) => {
                // both cost-model maps overridden at once, each possibly incomplete
                let names: &[&str] = match self.c.traversal {
                    Traversal::Distance => &["distance"],
                    Traversal::SpeedTable => &["distance", "time"],
                    Traversal::Energy => &["distance", "time", "energy_liquid", "energy_electric"],
                };
                let mut w = Map::new();
                let mut vr = Map::new();
                for n in names {
                    if self.r.chance(2, 3) {
                        w.insert(n.to_string(), json!(self.r.range(0, 2)));
                    }
                    if self.r.chance(2, 3) {
                        vr.insert(n.to_string(), self.r.pick(&[json!({"type": "raw"}), json!({"type": "zero"}), json!({"type": "factor", "factor": 2}), json!(["raw"])]).clone());
                    }
                }
                if self.r.chance(1, 6) {
                    w.insert("no_such_feature".into(), json!(1));
                }
                q.insert("weights".into(), Value::Object(w));
                q.insert("vehicle_rates".into(), Value::Object(vr));
                ("cost_overrides".into(), false)
            }
            7 => {
                let w = match self.r.below(6) {
                    0 => self.weights(false),
                    1 => json!({}),
                    2 => json!({"no_such_feature": 1}),
                    3 => json!({"distance": "1"}),
                    4 => json!({"distance": 0, "time": 0, "energy_liquid": 0, "energy_electric": 0}),
                    _ => json!([1, 2]),
                };
                q.insert("weights".into(), w);
                ("weights".into(), false)
            }
            8 => {
                let v: Value = match self.r.below(8) {
                    0 => json!(0),
                    1 => json!(-1),
                    2 => json!(1e300),
                    3 => json!(-1e300),
                    4 => json!("abc"),
                    5 => Value::Null,
                    6 => json!(4.5e15),
                    _ => json!([1]),
                };
                let col = match self.c.inputs.iter().find_map(|p| if let InPlugin::LbNumeric { column } = p { Some(column.clone()) } else { None }) {
                    Some(Some(c)) if self.r.chance(1, 2) => c,
                    _ => "query_weight_estimate".to_string(),
                };
                q.insert(col, v);
                ("weight_estimate".into(), false)
            }
            9 => {
                q.insert("grid_search".into(), self.degenerate_grid());
                ("grid_degenerate".into(), false)
            }
            10 => {
                let v: Value = match self.r.below(6) {
                    0 => json!(0),
                    1 => json!(u64::MAX),
                    2 => json!(-1),
                    3 => json!("2"),
                    4 => json!(1.0),
                    _ => json!(1),
                };
                q.insert("k".into(), v);
                ("k".into(), false)
            }
            11 => {
                match self.r.below(6) {
                    0 => q.insert("state_features".into(), json!({"distance": {"distance_unit": "miles", "initial": 1e300}})),
                    1 => q.insert("state_features".into(), json!({"nope": 1})),
                    2 => q.insert("vehicle_rates".into(), self.r.pick(&[
                        json!({"distance": {"type": "factor", "factor": 0}}),
                        json!({"time": ["raw"], "distance": ["factor", 2.0]}),
                        json!({"time": ["offset", -1e300], "distance": {"type": "zero"}}),
                        json!({"time": {"type": "factor", "factor": -1}, "distance": {"type": "offset", "offset": 1e308}}),
                        json!({"distance": ["nope"]}), json!({"distance": []}), json!({"distance": {"type": "factor"}}),
                        json!([["distance", {"type": "raw"}]]),
                    ]).clone()),
                    3 => q.insert("cost_aggregation".into(), self.r.pick(&[json!("foo"), json!("mul"), json!("sum"), json!(["mul"]), json!({"mul": null}), json!(1)]).clone()),
                    4 => q.insert("starting_soc_percent".into(), json!(*self.r.pick(&[150.0, -1.0, 0.0, 1e300]))),
                    _ => q.insert("weight_factor".into(), json!(*self.r.pick(&[-1.0, 1e308, -1e308, 5e-324]))),
                };
                ("model_params".into(), false)
            }
            _ => {
                match self.r.below(4) {
                    0 => q.insert("road_classes".into(), json!(*self.r.pick(&[json!([1]), json!([9]), json!("x"), json!([]), json!([300])]))),
                    1 => q.insert("vehicle_parameters".into(), json!({"height": [1, "meters"], "width": "x"})),
                    2 => q.insert("queries".into(), json!(5)),
                    _ => q.insert("request".into(), json!({"error": "x"})),
                };
                ("extras".into(), false)
            }
        }
    }
}

/// is the (final, mutated) query malformed in a way the property names, so that under this configuration it
/// must be answered with an error response?  Conservative: false when in doubt.
fn must_error(c: &AppCfg, q: &Map<String, Value>) -> bool {
    if has_grid(c) && q.contains_key("grid_search") {
        return false; // grid choices may overwrite any field
    }
    let num = |k: &str| q.get(k).map(|v| v.is_number());
    let id_ok = |k: &str, n: usize| q.get(k).map(|v| v.as_u64().map(|x| x < n as u64).unwrap_or(false));
    if !matched(c) {
        let (o, d, n) = if c.edge_oriented { ("origin_edge", "destination_edge", c.net.edges.len()) } else { ("origin_vertex", "destination_vertex", c.net.coords.len()) };
        if id_ok(o, n) != Some(true) || id_ok(d, n) == Some(false) {
            return true;
        }
    }
    if uses_coords(c) {
        if num("origin_x") != Some(true) || num("origin_y") != Some(true) {
            return true;
        }
        match (num("destination_x"), num("destination_y")) {
            (None, None) => {}
            (Some(true), Some(true)) => {}
            _ => return true,
        }
    }
    if c.traversal == Traversal::Energy && !matches!(q.get("model_name").and_then(|v| v.as_str()), Some("Toyota_Camry") | Some("Chevy_Bolt") | Some("Chevy_Volt")) {
        return true;
    }
    for p in &c.inputs {
        match p {
            InPlugin::Inject { key, overwrite: Some(false), .. } if q.contains_key(key) => return true,
            InPlugin::LbNumeric { column } => {
                if num(column.as_deref().unwrap_or("query_weight_estimate")) != Some(true) {
                    return true;
                }
            }
            InPlugin::LbCategorical { column, default: None } => {
                if !matches!(q.get(column.as_deref().unwrap_or("query_weight_estimate")).and_then(|v| v.as_str()), Some("a") | Some("b")) {
                    return true;
                }
            }
            _ => {}
        }
    }
    // a weight estimate that is present must be a number (read again by the load balancing step)
    let lb_writes = c.inputs.iter().any(|p| matches!(p, InPlugin::LbNumeric { .. } | InPlugin::LbCategorical { .. } | InPlugin::LbHaversine));
    if !lb_writes && num("query_weight_estimate") == Some(false) {
        return true;
    }
    false
}

struct Case {
    cfg_id: usize,
    cfg: AppCfg,
    user: Value,
    must_err: Vec<String>,
    family: String,
    over: Option<Value>,
}

fn gen_case(r: &mut Rng, cat: &[AppCfg], st: &mut Stream) -> Case {
    let cfg_id = r.below(cat.len() as u64) as usize;
    let cfg = cat[cfg_id].clone();
    let nq = match r.below(8) {
        0 => 0,
        1 | 2 => 1,
        _ => r.range(2, 6),
    } as usize;
    let mut qs = vec![];
    let mut must_err = vec![];
    for i in 0..nq {
        let tag = format!("t{}", i);
        let mut g = Gen { r, c: &cfg };
        let mut q = g.template(&tag);
        let mut must = false;
        let nm = match g.r.below(5) {
            0 | 1 => 0,
            2 | 3 => 1,
            _ => 2,
        };
        for _ in 0..nm {
            let (kind, m) = g.mutate(&mut q);
            st.count(&format!("mutation:{}", kind.split(':').next().unwrap()));
            must |= m;
        }
        let mut gridded = false;
        if has_grid(&cfg) && !q.contains_key("grid_search") && g.r.chance(1, 3) {
            q.insert("grid_search".into(), g.grid_section());
            gridded = true;
            st.count("grid:wellformed");
        }
        // decided on the final query: a later mutation may have repaired (or broken) what an earlier one did
        let _ = (must, gridded);
        if must_error(&cfg, &q) {
            must_err.push(tag.clone());
            st.count("query:must_err");
        }
        if nm == 0 {
            st.count("query:unmutated");
        }
        qs.push(Value::Object(q));
    }
    // the class of the listed known finding (yens, effective k >= 2: each such call panics or hangs for the whole
    // watchdog period) is covered by the corpus witnesses; random cases enter it only rarely
    if let Alg::Yens { k, .. } = &cfg.alg {
        for q in qs.iter_mut() {
            let eff = q.get("k").and_then(|x| x.as_u64()).unwrap_or(*k as u64);
            if eff >= 2 && !r.chance(1, 8) {
                q.as_object_mut().unwrap().insert("k".into(), json!(1));
            }
        }
    }
    // now and then NO query of the batch is allowed to reach the search: every object query gets an unreadable weight
    let lb_writes = cfg.inputs.iter().any(|p| matches!(p, InPlugin::LbNumeric { .. } | InPlugin::LbCategorical { .. } | InPlugin::LbHaversine));
    if !lb_writes && r.chance(1, 12) {
        for q in qs.iter_mut() {
            let w = r.pick(&[json!("heavy"), json!([1]), json!({}), json!(false), Value::Null]).clone();
            q.as_object_mut().unwrap().insert("query_weight_estimate".into(), w);
        }
        st.count("batch:only_dropouts");
        must_err.clear();
        for q in qs.iter() {
            if !(has_grid(&cfg) && q.get("grid_search").is_some()) {
                must_err.push(q["tag"].as_str().unwrap().to_string());
            }
        }
    }
    // now and then a batch element that is not an object
    if nq > 0 && r.chance(1, 6) {
        let pos = r.below(qs.len() as u64 + 1) as usize;
        let junk = match r.below(8) {
            0 => json!(5),
            1 => Value::Null,
            2 => json!("s"),
            3 => json!([]),
            4 => json!([qs[0].clone()]),
            5 => json!(false),
            6 => json!([[1], {"a": 1}]),
            _ => json!(-2.5),
        };
        qs.insert(pos, junk);
        st.count("query:nonobject");
    }
    // the document offered as the batch
    let user = match r.below(12) {
        0 if qs.len() == 1 && qs[0].is_object() => qs[0].clone(),
        1 => json!({ "queries": qs }),
        _ => Value::Array(qs),
    };
    let over = if r.chance(1, 10) { Some(json!({"parallelism": r.range(1, 5)})) } else { None };
    Case { cfg_id, cfg, user, must_err, family: "random".into(), over }
}

// ------------------------------------------------------------------------------------------ running one case

struct Apps {
    cache: HashMap<String, (Arc<CompassApp>, PluginLog, Vec<usize>)>,
    out: std::path::PathBuf,
}
impl Apps {
    fn get(&mut self, cfg: &AppCfg) -> Result<(Arc<CompassApp>, PluginLog, Vec<usize>), String> {
        let key = cfg_to_json(cfg).to_string();
        if !self.cache.contains_key(&key) {
            let dir = self.out.join(format!("app_{:016x}", fnv(&key)));
            let app = build_app(cfg, &dir)?;
            let idxs: Vec<usize> = cfg.inputs.iter().enumerate().filter(|(_, p)| is_opaque(p)).map(|(i, _)| i).collect();
            let (app, log) = wrap_input_plugins(app, &idxs);
            self.cache.insert(key.clone(), (app, log, idxs));
        }
        Ok(self.cache.get(&key).unwrap().clone())
    }
}

fn coq_pspec(p: &InPlugin, idx: usize, log: &[(usize, Value, Value, bool)]) -> String {
    match p {
        InPlugin::GridSearch => "PR.PGrid".into(),
        InPlugin::Inject { key, value, json_format, overwrite } => {
            let v: Value = if *json_format { serde_json::from_str(value).unwrap() } else { json!(value) };
            format!("(PR.PInject {} {} {})", cs(key), cj(&v), coq_bool(overwrite.unwrap_or(true)))
        }
        InPlugin::LbNumeric { column } => format!("(PR.PLbNumeric {})", coq_opt(column, |c| cs(c))),
        _ => {
            let mut seen = BTreeMap::new();
            for (i, before, after, ok) in log {
                if *i == idx {
                    seen.entry(show_json(before, true)).or_insert((after.clone(), *ok));
                }
            }
            let entries: Vec<(String, (Value, bool))> = seen.into_iter().collect();
            format!("(PR.POracle {})", coq_list(&entries, |(k, (a, ok))| format!("({}, ({}, {}))", cs(k), cj(a), coq_bool(*ok))))
        }
    }
}

fn pairs_of(rs: &[Value]) -> Vec<(String, Value)> {
    rs.iter()
        .map(|r| {
            let cls = response_class(r);
            let req = r.get("request").cloned().unwrap_or_else(|| r.clone());
            (cls.to_string(), req)
        })
        .collect()
}
fn show_pairs(p: &[(String, Value)]) -> String {
    format!("Ok {} | {}", p.len(), p.iter().map(|(c, r)| format!("{}:{}", c, show_json(r, true))).collect::<Vec<_>>().join(";"))
}

/// a string as a Gallina term; long runs of a repeated unit (<= 32 bytes) are written `PR.rep unit n`
fn cs(s: &str) -> String {
    if s.len() < 96 {
        return coq_string(s);
    }
    let b = s.as_bytes();
    let mut parts: Vec<String> = vec![];
    let (mut lit_start, mut i) = (0usize, 0usize);
    while i < b.len() {
        let mut best: Option<(usize, usize)> = None; // (unit length, repeats)
        if s.is_char_boundary(i) {
            for l in 1..=32usize {
                if i + 2 * l > b.len() || !s.is_char_boundary(i + l) {
                    continue;
                }
                let mut n = 1;
                while i + (n + 1) * l <= b.len() && b[i + n * l..i + (n + 1) * l] == b[i..i + l] {
                    n += 1;
                }
                if n * l >= 64 && best.map(|(bl, bn)| n * l > bl * bn).unwrap_or(true) {
                    best = Some((l, n));
                }
            }
        }
        match best {
            Some((l, n)) => {
                if lit_start < i {
                    parts.push(coq_string(&s[lit_start..i]));
                }
                parts.push(format!("PR.rep {} {}", coq_string(&s[i..i + l]), coq_nat(n)));
                i += l * n;
                lit_start = i;
            }
            None => i += 1,
        }
    }
    if lit_start < b.len() {
        parts.push(coq_string(&s[lit_start..]));
    }
    format!("({})%string", parts.join(" ++ "))
}
/// verif_harness::coq_json with `cs` for strings and keys
fn cj(v: &Value) -> String {
    match v {
        Value::String(s) => format!("(JStr {})", cs(s)),
        Value::Array(a) => format!("(JArr {})", coq_list(a, cj)),
        Value::Object(m) => format!("(JObj {})", coq_list(&m.iter().collect::<Vec<_>>(), |(k, v)| format!("({}, {})", cs(k), cj(v)))),
        other => coq_json(other),
    }
}
/// same function as PR.force_hash: the payload is always replaced by its hash
fn force_hash_line(line: &str) -> String {
    let mut it = line.splitn(3, ' ');
    let (tag, id, payload) = (it.next().unwrap_or(""), it.next().unwrap_or(""), it.next().unwrap_or(""));
    if !payload.starts_with("Ok ") {
        return line.to_string(); // Panic / Hang / Err are plain text
    }
    let mut h: u64 = 7;
    for b in payload.bytes() {
        h = (h.wrapping_mul(1000003).wrapping_add(b as u64)) & 0x7fff_ffff_ffff_ffff;
    }
    format!("{} {} #{}", tag, id, h)
}
fn safe_text(v: &Value) -> bool {
    // the canonical printers agree only on plain strings (see Base/Json.v)
    match v {
        Value::String(s) => s.chars().all(|c| c.is_ascii_alphanumeric() || " _.-:,{}[]()=><*'/".contains(c)) && !s.contains('\''),
        Value::Array(a) => a.iter().all(safe_text),
        Value::Object(m) => m.iter().all(|(k, v)| safe_text(&json!(k)) && safe_text(v)),
        _ => true,
    }
}

/// shortest route (edge ids) of the underlying algorithm for a single query: sibling app with a* and the
/// traversal plugin; None when that search fails
fn underlying_route(apps: &mut Apps, cfg: &AppCfg, q: &Value, timeout: u64) -> Option<Vec<u64>> {
    let mut c2 = cfg.clone();
    c2.alg = Alg::AStar;
    c2.outputs = vec![tr("edge_id", None)];
    c2.inputs = vec![];
    let (app, _, _) = apps.get(&c2).ok()?;
    match run_watchdog(&app, vec![q.clone()], None, timeout) {
        RunOutcome::Ok(rs) if rs.len() == 1 => {
            let p = rs[0].get("route")?.get("path")?.as_array()?;
            Some(p.iter().filter_map(|x| x.as_u64()).collect())
        }
        _ => None,
    }
}

/// whole-case guard.  Before the case runs its description is written to `<out>/<stream>.current.json` (removed
/// when the case is over): if the harness PROCESS dies (abort, stack overflow, out of memory) the check script finds
/// the case that killed it there.  A panic anywhere in the case outside the watched call (harness code, recorders,
/// table construction) becomes the implementation line `HARNESS-PANIC ...` of that case instead of ending the stream.
fn run_case(st: &mut Stream, apps: &mut Apps, case: &Case, timeout: u64) -> bool {
    let id = st.next_id();
    let marker = st.dir.join(format!("{}.current.json", st.name));
    let desc = json!({"id": id, "family": case.family, "user": case.user, "must_err": case.must_err, "override": case.over,
                      "cfg_id": case.cfg_id, "cfg": cfg_to_json(&case.cfg)});
    let _ = std::fs::write(&marker, desc.to_string());
    let r = catch(std::panic::AssertUnwindSafe(|| run_case_inner(st, apps, case, timeout)));
    let stop = match r {
        Ok(stop) => stop,
        Err(msg) => {
            if st.next_id() == id {
                st.case(vec![format!("line \"M\" {} \"the case completes\"", id), format!("line \"S\" {} \"the case completes\"", id)],
                        vec![format!("I {} HARNESS-PANIC {}", id, msg.replace('\n', " "))], desc);
            }
            false
        }
    };
    let _ = std::fs::remove_file(&marker);
    stop
}

/// returns true when the call did not return although the case is outside the known-finding class: the abandoned
/// thread may allocate without bound, so the caller stops the stream right away
fn run_case_inner(st: &mut Stream, apps: &mut Apps, case: &Case, timeout: u64) -> bool {
    let id = st.next_id();
    // self-test of the driver's handling of a dying harness: VERIF_C12_ABORT_AT=<case id>
    if std::env::var("VERIF_C12_ABORT_AT").ok().and_then(|x| x.parse::<usize>().ok()) == Some(id) {
        std::process::abort();
    }
    let cfg = &case.cfg;
    let desc = json!({"id": id, "family": case.family, "user": case.user, "must_err": case.must_err, "override": case.over,
                      "cfg_id": case.cfg_id, "cfg": cfg_to_json(cfg)});
    st.count(&format!("family:{}", case.family));
    st.count(&format!("cfg:{:02}", case.cfg_id));
    let (app, log, _idxs) = match apps.get(cfg) {
        Ok(x) => x,
        Err(e) => {
            // families named `config_refused*` expect the configuration to be rejected when the app is built (a
            // build PANIC is never accepted); any other configuration that cannot be built is a harness bug: loud
            let expected = case.family.contains("config_refused") && e.starts_with("build error");
            let want = if expected { "ConfigurationRefused" } else { "configuration builds" };
            st.case(vec![format!("line \"M\" {} \"{}\"", id, want), format!("line \"S\" {} \"{}\"", id, want)],
                    vec![if expected { format!("I {} ConfigurationRefused", id) } else { format!("I {} BUILD-FAILED {}", id, e.replace('\n', " ")) }], desc);
            return false;
        }
    };
    log.lock().unwrap().clear();
    let outcome = run_user_json(&app, &case.user, case.over.clone(), timeout);
    let records: Vec<(usize, Value, Value, bool)> = log
        .lock()
        .unwrap()
        .iter()
        .map(|c| (c.idx, c.before.clone(), c.after.clone(), c.error.is_none()))
        .collect();
    let (i_payload, observed) = match &outcome {
        RunOutcome::Ok(rs) => {
            let p = pairs_of(rs);
            (show_pairs(&p), format!("(PR.OOk {})", coq_list(&p, |(c, r)| format!("({}, {})", coq_string(c), cj(r)))))
        }
        RunOutcome::Err(_) => ("Err".to_string(), "PR.OErr".to_string()),
        RunOutcome::Panic(_) => ("Panic".to_string(), "PR.OPanic".to_string()),
        RunOutcome::Hang => ("Hang".to_string(), "PR.OHang".to_string()),
    };
    st.count(&format!("outcome:{}", outcome.class().split(' ').next().unwrap()));
    let par_run = case.over.as_ref().and_then(|o| o.get("parallelism")).and_then(|p| p.as_u64()).map(|p| p as usize).unwrap_or(cfg.parallelism);
    let coq_cfg = format!(
        "(PR.Build_cfg {} {} {} {})",
        coq_list(&cfg.inputs.iter().enumerate().collect::<Vec<_>>(), |(i, p)| coq_pspec(p, *i, &records)),
        coq_nat(cfg.parallelism),
        coq_nat(par_run),
        coq_bool(cfg.persist)
    );
    let user_coq = cj(&case.user);
    // model line
    let yens_k = match &cfg.alg {
        Alg::Yens { k, .. } => Some(*k),
        _ => None,
    };
    let single = case.user.as_array().filter(|a| a.len() == 1).map(|a| a[0].clone());
    let in_k = yens_k.is_some() && single.as_ref().map(|q| q.get("k").and_then(|k| k.as_u64()).unwrap_or(yens_k.unwrap() as u64) >= 2).unwrap_or(false);
    // strings beyond plain ASCII: both sides are compared through the hash of the payload bytes
    let force = !safe_text(&case.user) || !safe_text(&cfg_to_json(cfg)["inputs"]);
    let m_term = if in_k {
        // known-finding class: the search is the model's own Yen's loop on the recorded shortest route
        match underlying_route(apps, cfg, single.as_ref().unwrap(), timeout) {
            Some(route) if route.len() <= 2 => format!(
                "PR.line_M_yens {} {} {} [{}] {}",
                id,
                coq_cfg,
                coq_nat(yens_k.unwrap()),
                coq_list(&route, |e| coq_nat(*e as usize)),
                user_coq
            ),
            _ => format!("line \"M\" {} \"not modelled: spur searches of a route with more than 2 edges\"", id),
        }
    } else {
        match &outcome {
            RunOutcome::Ok(rs) if cfg.persist => {
                let mut tbl = BTreeMap::new();
                for (c, r) in pairs_of(rs) {
                    tbl.entry(show_json(&r, true)).or_insert(c == "ok");
                }
                let entries: Vec<(String, bool)> = tbl.into_iter().collect();
                format!("PR.line_M {} {} {} {}", id, coq_cfg, coq_list(&entries, |(k, ok)| format!("({}, {})", cs(k), coq_bool(*ok))), user_coq)
            }
            RunOutcome::Ok(_) | RunOutcome::Err(_) => {
                // nothing to replay the searches from: every search is taken to succeed (its class is not observable here)
                format!("PR.line_M_blind {} {} {}", id, coq_cfg, user_coq)
            }
            _ => format!("line \"M\" {} \"no oracle: the implementation did not return\"", id),
        }
    };
    let s_term = format!(
        "PR.line_S {} (PR.Build_spec {} {} {}) {} {}",
        id,
        coq_bool(has_grid(cfg)),
        coq_bool(cfg.persist),
        coq_list(&case.must_err, |t| coq_string(t)),
        user_coq,
        observed
    );
    // non-trivial: at least one success and one error response, or a grid expansion, or a non-Ok outcome
    if let RunOutcome::Ok(rs) = &outcome {
        let p = pairs_of(rs);
        let (nok, nerr) = (p.iter().filter(|x| x.0 == "ok").count(), p.iter().filter(|x| x.0 == "err").count());
        st.count(&format!("responses:{}", if rs.len() > 12 { 12 } else { rs.len() }));
        if nok > 0 {
            st.count("has_success");
        }
        if nerr > 0 {
            st.count("has_error");
        }
        let nq = case.user.as_array().map(|a| a.len()).unwrap_or(1);
        if rs.len() > nq {
            st.count("expanded");
        }
        if (nok > 0 && nerr > 0) || rs.len() > nq {
            st.mark_nontrivial(&format!("{}{}", case.cfg_id, case.user));
        }
    } else {
        st.mark_nontrivial(&format!("{}{}", case.cfg_id, case.user));
    }
    let (m_term, s_term, i_line) = if force {
        (format!("PR.force_hash ({})", m_term), format!("PR.force_hash ({})", s_term), force_hash_line(&format!("I {} {}", id, i_payload)))
    } else {
        (m_term, s_term, format!("I {} {}", id, i_payload))
    };
    st.case(vec![m_term, s_term], vec![i_line], desc);
    let any_k = yens_k.is_some()
        && case.user.as_array().map(|a| a.iter().any(|q| q.get("k").and_then(|k| k.as_u64()).unwrap_or(yens_k.unwrap() as u64) >= 2)).unwrap_or(false);
    matches!(outcome, RunOutcome::Hang) && !any_k
}

// ------------------------------------------------------------------------------------------ deterministic families

fn boundary(cat: &[AppCfg]) -> Vec<Case> {
    let mut v = vec![];
    let mk = |cfg_id: usize, user: Value, must: &[&str], fam: &str| Case {
        cfg_id,
        cfg: cat[cfg_id].clone(),
        user,
        must_err: must.iter().map(|s| s.to_string()).collect(),
        family: fam.into(),
        over: None,
    };
    let good = json!({"tag": "t0", "origin_vertex": 0, "destination_vertex": 8});
    // ---- the batch document itself
    for cfg_id in [0usize, 2, 5, 14] {
        v.push(mk(cfg_id, json!([]), &[], "empty_batch"));
        v.push(mk(cfg_id, json!({"queries": []}), &[], "empty_batch"));
        for doc in [json!(5), json!("x"), Value::Null, json!(true), json!(1.5), json!({"queries": 5}), json!({"queries": {"a": 1}}), json!({"queries": null})] {
            v.push(mk(cfg_id, doc, &[], "batch_not_array"));
        }
        v.push(mk(cfg_id, good.clone(), &[], "single_object_document"));
        v.push(mk(cfg_id, json!({ "queries": [good.clone()] }), &[], "queries_field"));
    }
    // batch sizes around the chunk arithmetic: parallelism 1, 2, 3, 8 with 1..9 queries
    for cfg_id in [3usize, 0, 1, 6] {
        for n in [1usize, 2, 3, 4, 7, 9] {
            let qs: Vec<Value> = (0..n).map(|i| json!({"tag": format!("t{}", i), "origin_vertex": i % 9, "destination_vertex": (i * 5 + 1) % 9, "w": i % 3})).collect();
            v.push(mk(cfg_id, Value::Array(qs), &[], "chunk_arithmetic"));
        }
    }
    // ---- every required field deleted / retyped, under the id-based configurations
    for cfg_id in [0usize, 1, 8, 11] {
        for f in ["origin_vertex", "destination_vertex"] {
            let mut q = good.as_object().unwrap().clone();
            q.remove(f);
            v.push(mk(cfg_id, json!([Value::Object(q), good_with_tag(&good, "t1")]), if f == "origin_vertex" { &["t0"] } else { &[] }, "delete_field"));
            for t in 0..TYPES {
                let mut q = good.as_object().unwrap().clone();
                q.insert(f.into(), retyped(t));
                v.push(mk(cfg_id, json!([Value::Object(q), good_with_tag(&good, "t1")]), if t != 2 { &["t0"] } else { &[] }, "retype_field"));
            }
        }
        for big in [json!(9), json!(16), json!(1u64 << 31), json!(1u64 << 53), json!(u64::MAX), json!(i64::MAX)] {
            v.push(mk(cfg_id, json!([{"tag": "t0", "origin_vertex": big, "destination_vertex": 0}, good_with_tag(&good, "t1")]), &["t0"], "out_of_range_id"));
            v.push(mk(cfg_id, json!([{"tag": "t0", "origin_vertex": 0, "destination_vertex": big}, good_with_tag(&good, "t1")]), &["t0"], "out_of_range_id"));
        }
        v.push(mk(cfg_id, json!([{"tag": "t0", "origin_vertex": 4, "destination_vertex": 4}, good_with_tag(&good, "t1")]), &[], "same_origin_destination"));
    }
    // edge oriented
    for f in ["origin_edge", "destination_edge"] {
        for t in 0..TYPES {
            let mut q = json!({"tag": "t0", "origin_edge": 0, "destination_edge": 7});
            q[f] = retyped(t);
            v.push(mk(21, json!([q]), if t != 2 { &["t0"] } else { &[] }, "retype_field"));
        }
        for big in [json!(24), json!(u64::MAX)] {
            let mut q = json!({"tag": "t0", "origin_edge": 0, "destination_edge": 7});
            q[f] = big;
            v.push(mk(21, json!([q]), &["t0"], "out_of_range_id"));
        }
    }
    v.push(mk(21, json!([{"tag": "t0", "origin_edge": 3, "destination_edge": 3}]), &[], "same_origin_destination"));
    // ---- coordinates
    let cq = |ox: Value, oy: Value, dx: Value, dy: Value| json!({"tag": "t0", "origin_x": ox, "origin_y": oy, "destination_x": dx, "destination_y": dy});
    for cfg_id in [18usize, 19, 20, 22, 23] {
        for bad in [json!(181.0), json!(-181.0), json!(1e10), json!(1e39), json!(1e308), json!(-1e308), json!(5e-324), json!("NaN"), Value::Null, json!([]), json!(true)] {
            let ill = !bad.is_number();
            v.push(mk(cfg_id, json!([cq(bad.clone(), json!(39.7), json!(-104.99), json!(39.71))]), if ill { &["t0"] } else { &[] }, "coordinates"));
            v.push(mk(cfg_id, json!([cq(json!(-105.0), json!(39.7), json!(-104.99), bad.clone())]), if ill { &["t0"] } else { &[] }, "coordinates"));
        }
        for bad in [json!(91.0), json!(-91.0), json!(1e39), json!(-1e308)] {
            v.push(mk(cfg_id, json!([cq(json!(-105.0), bad.clone(), json!(-104.99), json!(39.71))]), &[], "coordinates"));
        }
        v.push(mk(cfg_id, json!([{"tag": "t0", "origin_x": -105.0, "origin_y": 39.7, "destination_x": -104.99}]), &["t0"], "coordinates"));
        v.push(mk(cfg_id, json!([{"tag": "t0", "origin_y": 39.7}]), &["t0"], "coordinates"));
        for f in ["origin_x", "origin_y", "destination_x", "destination_y"] {
            let mut q = cq(json!(-105.0), json!(39.7), json!(-104.99), json!(39.71));
            q.as_object_mut().unwrap().remove(f);
            v.push(mk(cfg_id, json!([q, {"tag": "t1", "origin_x": -104.99, "origin_y": 39.71, "destination_x": -105.0, "destination_y": 39.7}]), &["t0"], "delete_field"));
        }
        v.push(mk(cfg_id, json!([cq(json!(-105.0), json!(39.7), json!(-105.0), json!(39.7))]), &[], "same_origin_destination"));
    }
    // ---- grid sections
    let sections = vec![
        json!({}), json!({"a": []}), json!({"a": 5}), json!({"a": [1, 2], "b": []}), json!({"a": [], "b": []}),
        json!({"a": [{"grid_search": {"x": [1]}}]}), json!(5), Value::Null, json!([]), json!([[1, 2]]), json!("x"), json!(true),
        json!({"grid_search": {"a": [1]}}), json!({"a": ["my grid_search"]}), json!({"a": [[1, 2], []], "b": [{}]}),
        json!({"a": [1]}), json!({"a": [1], "b": [2], "c": [3]}), json!({"a": [1, 2, 3], "b": [4]}),
        json!({"destination_vertex": [1, 99, 2]}), json!({"x": [{"origin_vertex": 1}, {"origin_vertex": "z"}]}),
        json!({"origin_vertex": [{}, {"a": 1}]}), json!({"a": [null, null]}),
    ];
    for cfg_id in [2usize, 4, 5, 6, 7, 9, 13] {
        for s in &sections {
            let mut q = json!({"tag": "t0", "origin_vertex": 0, "destination_vertex": 8, "w": 1, "cat": "a", "query_weight_estimate": 1});
            q["grid_search"] = s.clone();
            v.push(mk(cfg_id, json!([q, {"tag": "t1", "origin_vertex": 1, "destination_vertex": 2, "w": 2, "cat": "b", "query_weight_estimate": 2}]), &[], "grid_sections"));
        }
    }
    // a grid section under a configuration WITHOUT the plugin is just another field
    v.push(mk(0, json!([{"tag": "t0", "origin_vertex": 0, "destination_vertex": 8, "grid_search": {}}]), &[], "grid_sections"));
    // ---- weights and vehicle names
    for cfg_id in [0usize, 6, 16, 17] {
        for w in [json!({}), json!({"distance": 0}), json!({"distance": 0, "time": 0}), json!({"distance": 0, "time": 0, "energy_liquid": 0, "energy_electric": 0}),
                  json!({"distance": -1, "time": -1}), json!({"no_such_feature": 1}), json!({"distance": "1"}), json!([1]), json!(3), Value::Null,
                  json!({"distance": 1e308, "time": 1e308})] {
            v.push(mk(cfg_id, json!([{"tag": "t0", "origin_vertex": 0, "destination_vertex": 8, "w": 1, "model_name": "Toyota_Camry", "query_weight_estimate": 1, "weights": w}]), &[], "weights"));
        }
    }
    for name in [json!("no_such_vehicle"), json!(""), json!(5), Value::Null, json!(["Toyota_Camry"]), json!({})] {
        v.push(mk(16, json!([{"tag": "t0", "origin_vertex": 0, "destination_vertex": 8, "model_name": name}, {"tag": "t1", "origin_vertex": 0, "destination_vertex": 8, "model_name": "Chevy_Bolt"}]), &["t0"], "vehicle_names"));
    }
    v.push(mk(16, json!([{"tag": "t0", "origin_vertex": 0, "destination_vertex": 8}]), &["t0"], "vehicle_names"));
    for soc in [json!(0), json!(-5), json!(150), json!(1e300), json!("x"), Value::Null, json!(100), json!(0.001)] {
        for name in ["Chevy_Bolt", "Chevy_Volt", "Toyota_Camry"] {
            v.push(mk(16, json!([{"tag": "t0", "origin_vertex": 0, "destination_vertex": 8, "model_name": name, "starting_soc_percent": soc.clone()}]), &[], "vehicle_names"));
        }
    }
    // ---- load balancer weights
    for cfg_id in [0usize, 5, 6] {
        for w in [json!(0), json!(-1), json!(1e300), json!(-1e300), json!("abc"), Value::Null, json!([1]), json!({}), json!(true), json!(4503599627370497u64)] {
            let must: &[&str] = &[];
            v.push(mk(cfg_id, json!([{"tag": "t0", "origin_vertex": 0, "destination_vertex": 8, "w": w.clone(), "query_weight_estimate": w.clone()},
                                      {"tag": "t1", "origin_vertex": 1, "destination_vertex": 2, "w": 2, "query_weight_estimate": 2},
                                      {"tag": "t2", "origin_vertex": 2, "destination_vertex": 3, "w": 0.5, "query_weight_estimate": 0.5}]), must, "query_weights"));
        }
    }
    // ---- inject: key already present with a no-overwrite policy
    v.push(mk(4, json!([{"tag": "t0", "origin_vertex": 0, "destination_vertex": 8, "blocked": 1}, {"tag": "t1", "origin_vertex": 0, "destination_vertex": 8}]), &["t0"], "inject"));
    v.push(mk(14, json!([{"tag": "t0", "origin_vertex": 0, "destination_vertex": 8, "blocked": 1}, {"tag": "t1", "origin_vertex": 0, "destination_vertex": 8}]), &["t0"], "inject"));
    // ---- ksp parameters from the query
    for k in [json!(0), json!(1), json!(2), json!(5), json!(u64::MAX), json!(-1), json!("2"), json!(1.0), Value::Null] {
        v.push(mk(8, json!([{"tag": "t0", "origin_vertex": 0, "destination_vertex": 8, "k": k.clone()}]), &[], "ksp_k"));
        if k.as_u64().map(|x| x < 2).unwrap_or(true) {
            v.push(mk(10, json!([{"tag": "t0", "origin_vertex": 0, "destination_vertex": 8, "k": k}]), &[], "ksp_k"));
        }
    }
    // ---- queries that are not JSON objects (scalars, null, arrays): one error response echoing the query
    {
        let good1 = json!({"tag": "t1", "origin_vertex": 0, "destination_vertex": 8, "w": 1, "cat": "a"});
        for cfg_id in [0usize, 2, 7, 3, 6, 5] {
            for q in [json!(5), Value::Null, json!("s"), json!(true), json!(1.5), json!([]), json!([[]]), json!([5]), json!({"tag": "t9"}),
                      json!([{"tag": "t0", "origin_vertex": 0, "destination_vertex": 8, "w": 1, "cat": "a"}]),
                      json!([{"tag": "t0", "origin_vertex": 0, "destination_vertex": 8}, {"tag": "t2", "origin_vertex": 1, "destination_vertex": 2}])] {
                v.push(mk(cfg_id, json!([q.clone(), good1.clone()]), &[], "nonobject_query"));
            }
            v.push(mk(cfg_id, json!([5, 5, null, good1.clone(), 5]), &[], "nonobject_query"));
        }
        // out-of-range origin without a destination (tree search)
        for cfg_id in [0usize, 1, 2, 11] {
            for big in [json!(9), json!(99), json!(u64::MAX)] {
                v.push(mk(cfg_id, json!([{"tag": "t0", "origin_vertex": big}, good1.clone()]), &["t0"], "oor_origin_without_destination"));
            }
        }
    }
    // ---- vehicle rates in the sequence form of serde's internally tagged enums; `combined` has no JSON form:
    //      rendering the route's cost model panicked (fixed 20d0dd1)
    for cfg_id in [1usize, 4, 5, 10, 16] {
        for vr in [json!({"time": ["combined"]}), json!({"distance": ["combined", {"type": "raw"}], "time": {"type": "raw"}}),
                   json!({"distance": {"type": "raw"}, "time": ["combined", {"type": "raw"}, {"type": "factor", "factor": 2.0}]}),
                   json!({"time": ["raw"], "distance": ["factor", 2.0]}), json!({"time": ["combined", ["combined", ["raw"]]]})] {
            v.push(mk(cfg_id, json!([{"tag": "t0", "origin_vertex": 0, "destination_vertex": 8, "model_name": "Toyota_Camry", "query_weight_estimate": 1, "vehicle_rates": vr},
                                      {"tag": "t1", "origin_vertex": 1, "destination_vertex": 2, "model_name": "Toyota_Camry", "query_weight_estimate": 1}]), &[], "vehicle_rates_combined"));
        }
    }
    // ---- strings and KEYS beyond ASCII on every error path: 2-, 3-, 4-byte scalars and combining marks, long enough
    //      (1100 bytes) that the offsets 64 / 128 / 255..257 / 512 / 1024 of the serialized and of the Debug form fall
    //      inside the text, with 0..4 ASCII pad bytes so that each of them is a non-boundary for some pad
    // (every family sees every (width, pad) combination; configurations and fields rotate with the combination)
    for (wi, width) in [2usize, 3, 4, 5, 6].into_iter().enumerate() {
        for pad in 0..=4usize {
            let combo = wi * 5 + pad;
            let rot = |l: &[usize], k: usize| -> Vec<usize> { (0..k).map(|i| l[(combo + i * 3) % l.len()]).collect() };
            let t = utf8_text(width, pad, 1100);
            let short = utf8_text(width, pad, 250 + pad);
            let ok = |tag: &str| json!({"tag": tag, "origin_vertex": 1, "destination_vertex": 2, "w": 1, "cat": "a", "model_name": "Toyota_Camry"});
            // the long text comes FIRST in the object (insertion order is kept) so that it starts near offset 20
            let first_val = |rest: Value| { let mut m = Map::new(); m.insert("a_note".into(), json!(t.clone())); for (k, v) in rest.as_object().unwrap() { m.insert(k.clone(), v.clone()); } Value::Object(m) };
            let first_key = |rest: Value| { let mut m = Map::new(); m.insert(t.clone(), json!(1)); for (k, v) in rest.as_object().unwrap() { m.insert(k.clone(), v.clone()); } Value::Object(m) };
            let base = json!({"tag": "t0", "origin_vertex": 0, "destination_vertex": 8, "w": 1, "cat": "a", "model_name": "Toyota_Camry"});
            // wrong-typed / degenerate grid sections (grid_search configurations incl. the UTF-8 inject one)
            for cfg_id in if pad == 1 { vec![2usize, 26] } else { vec![[2usize, 5, 7][combo % 3]] } {
                for sec in [json!(5), Value::Null, json!({"a": []}), json!(t.clone()), json!({t.clone(): [1, 2]}), json!({"a": [short.clone(), t.clone()]})] {
                    for shape in 0..2 {
                        let mut q = base.clone();
                        q["grid_search"] = sec.clone();
                        let q = if shape == 0 { first_val(q) } else { first_key(q) };
                        v.push(mk(cfg_id, json!([q, ok("t1")]), &[], "utf8_grid_section"));
                    }
                }
            }
            // missing / ill-typed required fields, unknown names, with the text as value and as key
            for cfg_id in rot(&[0usize, 1, 3, 4, 8, 14, 16, 18, 21, 26], 2) {
                let mut q = base.clone();
                q.as_object_mut().unwrap().remove("origin_vertex");
                v.push(mk(cfg_id, json!([first_val(q.clone()), ok("t1")]), &[], "utf8_missing_field"));
                v.push(mk(cfg_id, json!([first_key(q), ok("t1")]), &[], "utf8_missing_field"));
                let mut q = base.clone();
                q["origin_vertex"] = json!(t.clone());
                q["destination_vertex"] = json!(short.clone());
                v.push(mk(cfg_id, json!([q, ok("t1")]), &[], "utf8_ill_typed_field"));
            }
            for (field, val) in [("model_name", json!(t.clone())), ("model_name", json!(short.clone())), ("cat", json!(t.clone())), ("w", json!(t.clone())),
                                 ("query_weight_estimate", json!(short.clone())), ("weights", json!({t.clone(): 1})), ("weights", json!({"distance": t.clone()})),
                                 ("vehicle_rates", json!({"distance": {"type": t.clone()}})), ("vehicle_rates", json!({t.clone(): {"type": "raw"}})),
                                 ("cost_aggregation", json!(t.clone())), ("state_features", json!({t.clone(): {"distance_unit": "miles", "initial": 0}})),
                                 ("k", json!(short.clone())), ("weight_factor", json!(t.clone())), ("road_classes", json!([t.clone()])),
                                 ("blöcked😀", json!(t.clone())), ("注入", json!(short.clone()))].into_iter().enumerate().filter(|(fi, _)| (fi + combo) % 2 == 0).map(|(_, x)| x) {
                for cfg_id in rot(&[0usize, 5, 6, 7, 8, 16, 17, 22, 26, 26], 1) {
                    let mut q = base.clone();
                    q[field] = val.clone();
                    v.push(mk(cfg_id, json!([q, ok("t1")]), &[], "utf8_unknown_name"));
                }
            }
            // the query itself is such a text; a coordinate field holds one
            for cfg_id in rot(&[0usize, 2, 26], 1) {
                v.push(mk(cfg_id, json!([t.clone(), ok("t1"), [short.clone()]]), &[], "utf8_nonobject_query"));
            }
            for cfg_id in rot(&[18usize, 19, 22], 1) {
                v.push(mk(cfg_id, json!([{"a_note": t.clone(), "tag": "t0", "origin_x": short.clone(), "origin_y": 39.7}, {"tag": "t1", "origin_x": -105.0, "origin_y": 39.7, "destination_x": -104.99, "destination_y": t.clone()}]), &[], "utf8_ill_typed_field"));
            }
        }
    }
    // lengths swept one byte at a time around the usual cut-off sizes (value first in the object)
    for width in [2usize, 3, 4] {
        for around in [64usize, 128, 256, 512, 1024] {
            for d in 0..(2 * width + 2) {
                let t = utf8_text(width, d % (width + 1), around - width - 1 + d);
                let mut m = Map::new();
                m.insert("n".into(), json!(t));
                m.insert("tag".into(), json!("t0"));
                m.insert("origin_vertex".into(), json!(0));
                m.insert("grid_search".into(), json!(7));
                v.push(mk(2, json!([Value::Object(m), {"tag": "t1", "origin_vertex": 1, "destination_vertex": 2}]), &[], "utf8_length_sweep"));
            }
        }
    }
    // ---- batches in which NO query reaches the search: only load-balancer drop-outs (unreadable weight estimate),
    //      input-plugin failures and non-objects, sizes 1..5, with and without plugins in front (seed C12-7)
    {
        let bad_w = [json!("heavy"), json!([1]), json!({}), json!(true), Value::Null];
        let mut k = 0usize;
        for cfg_id in [0usize, 1, 2, 3, 4, 8, 10, 11, 14, 15, 26] {
            for size in 1..=5usize {
                for mix in 0..3usize {
                    let mut qs = vec![];
                    for i in 0..size {
                        k += 1;
                        let w = bad_w[k % bad_w.len()].clone();
                        let q = match (mix, i % 3) {
                            (0, _) | (1, 0) | (2, 1) => json!({"tag": format!("t{}", i), "origin_vertex": i % 9, "destination_vertex": 8 - i % 9, "cat": "a", "query_weight_estimate": w}),
                            (1, 1) => json!(i),
                            (1, _) => json!({"tag": format!("t{}", i), "origin_vertex": 0, "destination_vertex": 8, "cat": "a", "blocked": 1, "blöcked😀": 1, "query_weight_estimate": w}),
                            (_, 0) => json!({"tag": format!("t{}", i), "origin_vertex": 1, "destination_vertex": 2, "cat": "a", "query_weight_estimate": w, "grid_search": {"note": ["x", "y"]}}),
                            _ => json!([{"tag": format!("t{}", i)}]),
                        };
                        qs.push(q);
                    }
                    v.push(mk(cfg_id, Value::Array(qs), &[], "only_dropouts"));
                }
            }
        }
    }
    // ---- the query overrides BOTH cost-model maps: weights omitting / adding / zeroing features x vehicle_rates
    //      absent / complete / partial / empty / foreign (seed C12-8)
    for cfg_id in [0usize, 1, 5, 6, 8, 16, 21] {
        let feats: Vec<&str> = match cat[cfg_id].traversal {
            Traversal::Distance => vec!["distance"],
            Traversal::SpeedTable => vec!["distance", "time"],
            Traversal::Energy => vec!["distance", "time", "energy_liquid"],
        };
        let obj = |ks: &[&str], val: Value| Value::Object(ks.iter().map(|k| (k.to_string(), val.clone())).collect());
        let mut ws = vec![None, Some(obj(&feats, json!(1))), Some(obj(&feats[..feats.len() - 1], json!(1))), Some(obj(&feats[feats.len() - 1..], json!(1))),
                          Some(json!({})), Some(obj(&feats, json!(0)))];
        let mut more = feats.clone();
        more.push("no_such_feature");
        ws.push(Some(obj(&more, json!(1))));
        let raw = json!({"type": "raw"});
        let rs = vec![None, Some(obj(&feats, raw.clone())), Some(obj(&feats[..feats.len() - 1], raw.clone())), Some(obj(&feats[feats.len() - 1..], raw.clone())),
                      Some(json!({})), Some(json!({"no_such_feature": {"type": "raw"}})), Some(obj(&feats, json!({"type": "factor", "factor": 0})))];
        for (wi, w) in ws.iter().enumerate() {
            for (ri, r) in rs.iter().enumerate() {
                // every combination under one configuration per traversal model, a third of them under the others
                if ![0usize, 6, 16].contains(&cfg_id) && (wi + ri + cfg_id) % 3 != 0 {
                    continue;
                }
                let mut q = if cat[cfg_id].edge_oriented { json!({"tag": "t1", "origin_edge": 0, "destination_edge": 7}) } else { json!({"tag": "t1", "origin_vertex": 0, "destination_vertex": 8}) };
                q["model_name"] = json!("Toyota_Camry");
                q["query_weight_estimate"] = json!(1);
                q["w"] = json!(1);
                let mut t0 = q.clone();
                t0["tag"] = json!("t0");
                let mut t2 = q.clone();
                t2["tag"] = json!("t2");
                if let Some(w) = w {
                    q["weights"] = w.clone();
                }
                if let Some(r) = r {
                    q["vehicle_rates"] = r.clone();
                }
                v.push(mk(cfg_id, json!([t0, q, t2]), &[], "cost_overrides"));
            }
        }
    }
    // ---- run-configuration override
    for p in [1, 2, 7] {
        let mut c = mk(5, json!([{"tag": "t0", "origin_vertex": 0, "destination_vertex": 8, "query_weight_estimate": 3}, {"tag": "t1", "origin_vertex": 1, "destination_vertex": 7, "query_weight_estimate": 1},
                                 {"tag": "t2", "origin_vertex": 2, "destination_vertex": 6, "query_weight_estimate": 1}]), &[], "parallelism_override");
        c.over = Some(json!({"parallelism": p}));
        v.push(c);
    }
    v
}
fn good_with_tag(q: &Value, tag: &str) -> Value {
    let mut q = q.clone();
    q["tag"] = json!(tag);
    q
}

/// witnesses of the known finding K_yens_k_ge_2 (listed): panic on a one-edge shortest path, no return on a
/// two-edge one; effective k from the query
fn yens_cases(cat: &[AppCfg], wrap_profile: bool) -> Vec<Case> {
    let mut v = vec![];
    let line = {
        let mut c = AppCfg::basic(Net::line(5));
        c.alg = Alg::Yens { k: 2, dijkstra: false };
        c.outputs = vec![tr("edge_id", None)];
        c
    };
    let mk = |cfg: AppCfg, cfg_id: usize, user: Value, fam: &str| Case { cfg_id, cfg, user, must_err: vec![], family: fam.into(), over: None };
    if !wrap_profile {
        // without overflow checks `len() - 2` wraps and the loop runs ~2^64 searches while growing `accepted`
        v.push(mk(line.clone(), 100, json!([{"tag": "t0", "origin_vertex": 0, "destination_vertex": 1}]), "yens_one_edge"));
        v.push(mk(cat[10].clone(), 10, json!([{"tag": "t0", "origin_vertex": 0, "destination_vertex": 1, "k": 2}]), "yens_one_edge_k_from_query"));
    }
    v.push(mk(line.clone(), 100, json!([{"tag": "t0", "origin_vertex": 0, "destination_vertex": 2}]), "yens_two_edges"));
    v
}

/// families of classes that are reported and not listed as known findings (stream `pending`)
fn pending_cases(cat: &[AppCfg], only: &str) -> Vec<Case> {
    let mut v = vec![];
    let mk = |cfg_id: usize, user: Value, must: &[&str], fam: &str| Case {
        cfg_id,
        cfg: cat[cfg_id].clone(),
        user,
        must_err: must.iter().map(|s| s.to_string()).collect(),
        family: fam.into(),
        over: None,
    };
    // (every class reported so far was fixed in /repo and its families moved to the main stream)
    let _ = (&mk, only);
    v
}

fn gcd(a: usize, b: usize) -> usize {
    if b == 0 {
        a
    } else {
        gcd(b, a % b)
    }
}

fn main() {
    silence_panics();
    let a = parse_args();
    let mut st = Stream::new(&a.out, &a.stream, HEADER, a.shards);
    let mut apps = Apps { cache: HashMap::new(), out: a.out.join("apps") };
    let cat = catalogue();
    let timeout: u64 = a.extra.iter().position(|x| x == "--timeout-ms").and_then(|i| a.extra.get(i + 1)).and_then(|x| x.parse().ok()).unwrap_or(10_000);
    let wrap_profile = a.extra.iter().any(|x| x == "--wrap");
    let boundary_only = a.extra.iter().any(|x| x == "--boundary-only");
    let only = a.extra.iter().position(|x| x == "--only").and_then(|i| a.extra.get(i + 1)).cloned().unwrap_or_default();
    if let Some(p) = &a.replay {
        st.full = true;
        let v: Value = serde_json::from_str(&std::fs::read_to_string(p).unwrap()).unwrap();
        let c = &v["case"];
        let case = Case {
            cfg_id: c["cfg_id"].as_u64().unwrap_or(0) as usize,
            cfg: cfg_from_json(&c["cfg"]),
            user: c["user"].clone(),
            must_err: serde_json::from_value(c["must_err"].clone()).unwrap_or_default(),
            family: "replay".into(),
            over: if c["override"].is_null() { None } else { Some(c["override"].clone()) },
        };
        run_case(&mut st, &mut apps, &case, timeout);
        st.finish();
        std::process::exit(0);
    }
    if a.stream == "pending" {
        for case in pending_cases(&cat, &only) {
            if run_case(&mut st, &mut apps, &case, timeout) {
                break;
            }
        }
        st.finish();
        std::process::exit(0);
    }
    if a.stream == "dump-corpus" {
        // writes the corpus files (run once by hand; the files are part of /verif/corpus/C12)
        let dir = a.out.clone();
        std::fs::create_dir_all(&dir).unwrap();
        let mut named: Vec<(String, Case)> = yens_cases(&cat, false).into_iter().map(|c| (c.family.clone(), c)).collect();
        let mkc = |cfg_id: usize, user: Value, must: &[&str], fam: &str| Case { cfg_id, cfg: cat[cfg_id].clone(), user, must_err: must.iter().map(|s| s.to_string()).collect(), family: fam.into(), over: None };
        named.push(("empty_batch".into(), mkc(0, json!([]), &[], "corpus_empty_batch")));
        named.push(("grid_empty_object".into(), mkc(2, json!([{"tag": "t0", "origin_vertex": 0, "destination_vertex": 8, "grid_search": {}}]), &[], "corpus_grid_empty_object")));
        named.push(("grid_empty_array".into(), mkc(2, json!([{"tag": "t0", "origin_vertex": 0, "destination_vertex": 8, "grid_search": {"a": []}}]), &[], "corpus_grid_empty_array")));
        named.push(("inject_non_object".into(), mkc(3, json!([5, {"tag": "t1", "origin_vertex": 0, "destination_vertex": 8}]), &[], "corpus_inject_non_object")));
        named.push(("weight_estimate_string".into(), mkc(0, json!([{"tag": "t0", "origin_vertex": 0, "destination_vertex": 8, "query_weight_estimate": "abc"}, {"tag": "t1", "origin_vertex": 0, "destination_vertex": 8}]), &[], "corpus_weight_estimate_string")));
        named.push(("nonobject_query".into(), mkc(0, json!([5, null, "s", {"tag": "t1", "origin_vertex": 0, "destination_vertex": 8}]), &[], "corpus_nonobject_query")));
        named.push(("array_query".into(), mkc(2, json!([[], {"tag": "t1", "origin_vertex": 0, "destination_vertex": 8}, [[]], [{"tag": "t2", "origin_vertex": 0, "destination_vertex": 8}]]), &[], "corpus_array_query")));
        named.push(("oor_origin_without_destination".into(), mkc(0, json!([{"tag": "t0", "origin_vertex": 99}, {"tag": "t1", "origin_vertex": 0, "destination_vertex": 8}]), &["t0"], "corpus_oor_origin")));
        {
            // fixed dcfc7c1: frequency = 0 made every search panic (`iteration % frequency`); now a configuration error
            let mut c = AppCfg::basic(Net::grid(3, 3));
            c.termination = Termination::RuntimeS(600, 0);
            named.push(("termination_frequency_zero".into(), Case { cfg_id: 101, cfg: c, user: json!([{"tag": "t0", "origin_vertex": 0, "destination_vertex": 8}]), must_err: vec![], family: "corpus_config_refused_frequency_zero".into(), over: None }));
        }
        named.push(("vehicle_rates_combined".into(), mkc(1, json!([{"tag": "t0", "origin_vertex": 0, "destination_vertex": 8, "vehicle_rates": {"time": ["combined"]}}, {"tag": "t1", "origin_vertex": 1, "destination_vertex": 2}]), &[], "corpus_vehicle_rates_combined")));
        // seeded C12-7: nothing reaches the search and a query has an unreadable weight estimate
        named.push(("only_dropouts".into(), mkc(0, json!([{"tag": "t0", "origin_vertex": 0, "destination_vertex": 8, "query_weight_estimate": "heavy"}, 42, {"tag": "t2", "origin_vertex": 1, "destination_vertex": 2, "query_weight_estimate": [1]}]), &["t0", "t2"], "corpus_only_dropouts")));
        named.push(("single_dropout".into(), mkc(2, json!([{"tag": "t0", "origin_vertex": 0, "destination_vertex": 8, "query_weight_estimate": "heavy"}]), &["t0"], "corpus_only_dropouts")));
        // seeded C12-8: weights omit a configured feature and vehicle_rates is overridden too
        named.push(("weights_and_rates_overridden".into(), mkc(0, json!([{"tag": "t0", "origin_vertex": 0, "destination_vertex": 8}, {"tag": "t1", "origin_vertex": 0, "destination_vertex": 8, "weights": {"time": 1}, "vehicle_rates": {"time": {"type": "raw"}}}, {"tag": "t2", "origin_vertex": 1, "destination_vertex": 2}]), &[], "corpus_cost_overrides")));
        named.push(("grid_child_fails_matching".into(), mkc(19, json!([{"tag": "t0", "origin_x": -105.0, "origin_y": 39.7, "grid_search": {"destination_x": [-104.99, 0.0, -104.98], "destination_y": [39.7]}}, {"tag": "t1", "origin_x": -105.0, "origin_y": 39.7, "destination_x": -104.98, "destination_y": 39.72}]), &[], "corpus_grid_child_fails")));
        for (i, (name, c)) in named.iter().enumerate() {
            let d = json!({"family": c.family, "cfg_id": c.cfg_id, "cfg": cfg_to_json(&c.cfg), "user": c.user, "must_err": c.must_err, "override": c.over});
            std::fs::write(dir.join(format!("{:02}_{}.json", i, name)), serde_json::to_string_pretty(&d).unwrap()).unwrap();
        }
        std::process::exit(0);
    }
    // corpus first (witnesses of the listed known finding K_yens_k_ge_2 and of the fixed defects), then the
    // deterministic families, then random cases
    let mut stop = false;
    let corpus_dir = a.extra.iter().position(|x| x == "--corpus").and_then(|i| a.extra.get(i + 1)).cloned();
    if let Some(dir) = corpus_dir {
        let mut files: Vec<_> = std::fs::read_dir(&dir).map(|d| d.filter_map(|e| e.ok()).map(|e| e.path()).collect()).unwrap_or_default();
        files.sort();
        for f in files.iter().filter(|f| f.extension().map(|e| e == "json").unwrap_or(false)) {
            let c: Value = serde_json::from_str(&std::fs::read_to_string(f).unwrap()).unwrap();
            let fam = c["family"].as_str().unwrap_or("corpus").to_string();
            // without overflow checks the one-edge Yen's witness loops ~2^64 times while growing `accepted`: skipped there
            if wrap_profile && fam.starts_with("yens_one_edge") {
                continue;
            }
            let case = Case {
                cfg_id: c["cfg_id"].as_u64().unwrap_or(0) as usize,
                cfg: cfg_from_json(&c["cfg"]),
                user: c["user"].clone(),
                must_err: serde_json::from_value(c["must_err"].clone()).unwrap_or_default(),
                family: fam.clone(),
                over: if c["override"].is_null() { None } else { Some(c["override"].clone()) },
            };
            if run_case(&mut st, &mut apps, &case, if fam.starts_with("yens") { timeout.min(4_000) } else { timeout }) {
                stop = true;
                break;
            }
        }
    } else {
        for case in yens_cases(&cat, wrap_profile) {
            run_case(&mut st, &mut apps, &case, timeout.min(4_000));
        }
    }
    if !stop {
        // deterministic families and random cases are generated first and then run in a fixed stride order: the
        // driver cuts the stream into contiguous shards for coqc, and the long-text families would otherwise all
        // land in the same few shards
        let mut cases = boundary(&cat);
        if !boundary_only {
            let mut rng = Rng::new(a.seed);
            while st.next_id() + cases.len() < a.n {
                let mut r = rng.fork();
                cases.push(gen_case(&mut r, &cat, &mut st));
            }
        }
        let n = cases.len();
        let mut stride = 7919usize;
        while n > 0 && gcd(stride, n) != 1 {
            stride += 2;
        }
        for i in 0..n {
            if run_case(&mut st, &mut apps, &cases[(i * stride) % n], timeout) {
                break;
            }
        }
    }
    st.finish();
    // abandoned watchdog threads (known-finding hangs) must not keep the process alive
    std::process::exit(0);
}
