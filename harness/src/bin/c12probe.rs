use serde_json::{json, Value};
use verif_harness::appkit::*;
use verif_harness::*;
fn show(r: &RunOutcome) -> String { match r { RunOutcome::Ok(v) => format!("Ok {} | {}", v.len(), v.iter().map(|x| { let mut s = canon_response(x); s.truncate(200); s }).collect::<Vec<_>>().join(" ; ")), o => format!("{:?}", o) } }
fn main() {
    silence_panics();
    let out = std::path::PathBuf::from("/tmp/C12/probe");
    let mut c = AppCfg::basic(Net::grid(3,3));
    c.outputs = vec![OutPlugin::Traversal { route: Some("edge_id".into()), tree: None }];
    let app = build_app(&c, &out.join("vr")).unwrap();
    for vr in [json!({"distance": ["combined", {"type":"raw"}], "time": {"type":"raw"}}),
               json!({"distance": {"type":"raw"}, "time": ["combined", {"type":"raw"}, {"type":"factor","factor":2.0}]}),
               json!({"time": ["combined"]}),
               json!({"time": ["raw"], "distance": ["factor", 2.0]})] {
        let q = json!([{"origin_vertex":0,"destination_vertex":8,"vehicle_rates": vr.clone()}]);
        println!("{} -> {}", vr, show(&run_user_json(&app, &q, None, 5000)));
    }
    std::process::exit(0);
}
