//! C13 harness: stream `ksp` -- k-shortest-paths queries on the real routee_compass_core code
//! (SearchAlgorithm::{KspSingleVia, Yens}.run_vertex_oriented, the algorithm value deserialised from its JSON
//! configuration as the application does, k from the configuration or from the query's "k") on searchkit worlds.
//!   I  the implementation's outcome (status, iterations, trees, routes: floats bit-exact) + ` aa=n`, the number of
//!      routes the same query returns under the default AcceptAll similarity
//!   M  the model (coq/Model/Ksp.v over the search model) on the same case, or TIE
//!   S  the verified checker (coq/Model/KspSpec.v + KspRun.v) evaluated in Coq, over exact rationals, on I's routes
//! Yen's algorithm with k >= 2 runs under catch_unwind and a watchdog (known finding K_yens_k_ge_2).
//! `probe` prints the boundary cases.
use routee_compass_core::algorithm::search::direction::Direction;
use routee_compass_core::algorithm::search::edge_traversal::EdgeTraversal;
use routee_compass_core::algorithm::search::util::route_similarity_function::RouteSimilarityFunction;
use routee_compass_core::model::unit::Cost;
use routee_compass_core::algorithm::search::search_algorithm::SearchAlgorithm;
use routee_compass_core::model::network::{EdgeId, VertexId};
use serde_json::{json, Value};
use verif_harness::searchkit::*;
use verif_harness::*;

const DETAIL: u8 = 1;
const WATCHDOG_MS: u64 = 1500;
const MAX_HANGS: usize = 4;
/// thresholds as (binary64 value handed to the code, the configured decimal as a rational num/den)
/// (the ksp stream draws from the first five, the sim stream from all)
const THRESHOLDS: [(f64, u32, u32); 8] = [(0.0, 0, 1), (0.3, 3, 10), (0.6, 3, 5), (0.9, 9, 10), (1.0, 1, 1), (0.25, 1, 4), (0.5, 1, 2), (0.75, 3, 4)];

#[derive(Clone, Copy, Debug, PartialEq)]
enum KAlg {
    SingleVia,
    Yens,
}
#[derive(Clone, Copy, Debug, PartialEq)]
enum Sim {
    AcceptAll,
    /// index into THRESHOLDS
    EdgeId(usize),
    Distance(usize),
}
#[derive(Clone, Copy, Debug, PartialEq)]
enum KTerm {
    Exact,
    MaxIteration(u64),
    Factor(u64),
}
#[derive(Clone, Debug, PartialEq)]
enum QK {
    Absent,
    /// a "k" that is not a u64 (the JSON value itself)
    Bad(Value),
    Nat(u64),
}
#[derive(Clone, Debug)]
struct KCase {
    alg: KAlg,
    under: Alg,
    query_wf: Option<f64>,
    k: usize,
    qk: QK,
    term: KTerm,
    /// None = the "similarity" / "termination" key is left out of the configuration (the defaults apply)
    sim: Option<Sim>,
    term_explicit: bool,
    /// vertex ids, or edge ids when `edge` is set
    source: usize,
    target: Option<usize>,
    /// the underlying search is expected to be optimal (Dijkstra / consistent estimate)
    optimal: bool,
    /// edge-oriented query: SearchAlgorithm::run_edge_oriented with origin / destination EDGES
    edge: bool,
    /// the checker re-computes every hop state by folding the traversal (off when the underlying search may re-open a
    /// vertex, i.e. A* with a weight factor above 1: C03's known finding K_reopen)
    fold: bool,
}
impl KCase {
    fn sim_eff(&self) -> Sim {
        self.sim.unwrap_or(Sim::AcceptAll)
    }
    fn k_eff(&self) -> Option<usize> {
        match &self.qk {
            QK::Absent => Some(self.k),
            QK::Bad(_) => None,
            QK::Nat(k) => Some(*k as usize),
        }
    }
}

// ------------------------------------------------------------------------------------------- build

fn under_json(a: &Alg) -> Value {
    match a {
        Alg::Dijkstra => json!({"type": "dijkstra"}),
        Alg::AStar(None) => json!({"type": "a*"}),
        Alg::AStar(Some(w)) => json!({"type": "a*", "weight_factor": w}),
    }
}
fn sim_json(s: Sim) -> Value {
    match s {
        Sim::AcceptAll => json!({"type": "accept_all"}),
        Sim::EdgeId(i) => json!({"type": "edge_id_cosine_similarity", "threshold": THRESHOLDS[i].0}),
        Sim::Distance(i) => json!({"type": "distance_weighted_cosine_similarity", "threshold": THRESHOLDS[i].0}),
    }
}
fn term_json(t: KTerm) -> Value {
    match t {
        KTerm::Exact => json!({"type": "exact"}),
        KTerm::MaxIteration(m) => json!({"type": "max_iteration", "max": m}),
        KTerm::Factor(f) => json!({"type": "factor", "factor": f}),
    }
}
/// the `[algorithm]` section of a configuration, as JSON
fn algorithm_json(c: &KCase, sim: Option<Sim>) -> Value {
    let mut m = serde_json::Map::new();
    m.insert("type".into(), json!(if c.alg == KAlg::SingleVia { "ksp_single_via" } else { "yens" }));
    m.insert("k".into(), json!(c.k));
    m.insert("underlying".into(), under_json(&c.under));
    if let Some(s) = sim {
        m.insert("similarity".into(), sim_json(s));
    }
    if c.term_explicit {
        m.insert("termination".into(), term_json(c.term));
    }
    Value::Object(m)
}
fn kquery_json(c: &KCase) -> Value {
    let mut m = serde_json::Map::new();
    if let Some(w) = c.query_wf {
        m.insert("weight_factor".into(), json!(w));
    }
    match &c.qk {
        QK::Absent => {}
        QK::Bad(v) => {
            m.insert("k".into(), v.clone());
        }
        QK::Nat(k) => {
            m.insert("k".into(), json!(k));
        }
    }
    Value::Object(m)
}

/// one run of the real code (panics caught -> "Panic")
fn run_once(w: &World, c: &KCase, sim: Option<Sim>) -> Outcome {
    let (w2, c2) = (w.clone(), c.clone());
    match catch(move || {
        let si = build_instance(&w2);
        let alg: SearchAlgorithm = serde_json::from_value(algorithm_json(&c2, sim)).expect("algorithm configuration");
        let qj = kquery_json(&c2);
        let r = if c2.edge {
            alg.run_edge_oriented(EdgeId(c2.source), c2.target.map(EdgeId), &qj, &Direction::Forward, &si)
        } else {
            alg.run_vertex_oriented(VertexId(c2.source), c2.target.map(VertexId), &qj, &Direction::Forward, &si)
        };
        outcome_of(r)
    }) {
        Ok(o) => o,
        Err(_) => Outcome::status_only("Panic"),
    }
}
/// as run_once, in a helper thread: no answer within WATCHDOG_MS => "Hang" (the thread is abandoned)
fn run_watchdog(w: &World, c: &KCase, sim: Option<Sim>) -> Outcome {
    let (tx, rx) = std::sync::mpsc::channel();
    let (w2, c2) = (w.clone(), c.clone());
    std::thread::spawn(move || {
        let o = run_once(&w2, &c2, sim);
        let _ = tx.send(o);
    });
    match rx.recv_timeout(std::time::Duration::from_millis(WATCHDOG_MS)) {
        Ok(o) => o,
        Err(_) => Outcome::status_only("Hang"),
    }
}

// -------------------------------------------------------------------------------------------- emit

fn coq_under(a: &Alg) -> String {
    match a {
        Alg::Dijkstra => "(SR.ADijkstra FN)".into(),
        Alg::AStar(w) => format!("(SR.AAStar FN {})", coq_opt(w, |x| coq_f64(*x))),
    }
}
fn coq_sim_f(s: Sim) -> String {
    match s {
        Sim::AcceptAll => "Ksp.SAcceptAll".into(),
        Sim::EdgeId(i) => format!("(Ksp.SEdgeIdCosine {})", coq_f64(THRESHOLDS[i].0)),
        Sim::Distance(i) => format!("(Ksp.SDistanceCosine {})", coq_f64(THRESHOLDS[i].0)),
    }
}
fn coq_sim_q(s: Sim) -> String {
    match s {
        Sim::AcceptAll => "(@Ksp.SAcceptAll Q)".into(),
        Sim::EdgeId(i) => format!("(Ksp.SEdgeIdCosine ({} # {})%Q)", THRESHOLDS[i].1, THRESHOLDS[i].2),
        Sim::Distance(i) => format!("(Ksp.SDistanceCosine ({} # {})%Q)", THRESHOLDS[i].1, THRESHOLDS[i].2),
    }
}
fn coq_kterm(t: KTerm) -> String {
    match t {
        KTerm::Exact => "Ksp.KExact".into(),
        KTerm::MaxIteration(m) => format!("(Ksp.KMaxIteration {})", m),
        KTerm::Factor(f) => format!("(Ksp.KFactor {})", f),
    }
}
fn coq_kq(c: &KCase) -> String {
    format!(
        "(KR.mkKQ FN {} {} {} {} {} {} {} {} {})",
        if c.alg == KAlg::SingleVia { "Ksp.KSingleVia" } else { "Ksp.KYens" },
        coq_under(&c.under),
        coq_opt(&c.query_wf, |x| coq_f64(*x)),
        c.k,
        match &c.qk {
            QK::Absent => "Ksp.QKAbsent".to_string(),
            QK::Bad(_) => "Ksp.QKBad".to_string(),
            QK::Nat(k) => format!("(Ksp.QKNat {})", k),
        },
        coq_kterm(c.term),
        coq_sim_f(c.sim_eff()),
        c.source,
        coq_opt(&c.target, |t| t.to_string())
    )
}
const KHEADER: &str = "From Coq Require Import ZArith QArith List String Floats.\nFrom RC Require Import Base.Show Base.Num Model.Search Model.SearchRun Model.Ksp Model.KspSpec Model.KspRun.\nImport ListNotations.\nOpen Scope nat_scope.";

// -------------------------------------------------------------------------------------------- json

fn case_to_json(c: &KCase) -> Value {
    json!({
        "alg": if c.alg == KAlg::SingleVia { "single_via" } else { "yens" },
        "under": match c.under { Alg::Dijkstra => json!("dijkstra"), Alg::AStar(None) => json!({"astar": null}), Alg::AStar(Some(w)) => json!({"astar": w.to_bits(), "wf_text": w}) },
        "query_wf": c.query_wf.map(|x| x.to_bits()),
        "k": c.k,
        "qk": match &c.qk { QK::Absent => json!("absent"), QK::Bad(v) => json!({"bad": v}), QK::Nat(k) => json!({"nat": k}) },
        "term": match c.term { KTerm::Exact => json!("exact"), KTerm::MaxIteration(m) => json!({"max": m}), KTerm::Factor(f) => json!({"factor": f}) },
        "term_explicit": c.term_explicit,
        "sim": match c.sim { None => json!(null), Some(Sim::AcceptAll) => json!("accept_all"), Some(Sim::EdgeId(i)) => json!({"edge_id": i, "threshold": THRESHOLDS[i].0}), Some(Sim::Distance(i)) => json!({"distance": i, "threshold": THRESHOLDS[i].0}) },
        "source": c.source, "target": c.target, "optimal": c.optimal, "orient": if c.edge { "edge" } else { "vertex" }, "fold": c.fold,
        "algorithm_config": algorithm_json(c, c.sim), "query": kquery_json(c),
    })
}
fn case_from_json(v: &Value) -> KCase {
    let fb = |x: &Value| f64::from_bits(x.as_u64().unwrap());
    KCase {
        alg: if v["alg"] == "yens" { KAlg::Yens } else { KAlg::SingleVia },
        under: if v["under"].is_string() {
            Alg::Dijkstra
        } else if v["under"]["astar"].is_null() {
            Alg::AStar(None)
        } else {
            Alg::AStar(Some(fb(&v["under"]["astar"])))
        },
        query_wf: if v["query_wf"].is_null() { None } else { Some(fb(&v["query_wf"])) },
        k: v["k"].as_u64().unwrap() as usize,
        qk: if v["qk"].is_string() {
            QK::Absent
        } else if let Some(b) = v["qk"].get("bad") {
            QK::Bad(b.clone())
        } else {
            QK::Nat(v["qk"]["nat"].as_u64().unwrap())
        },
        term: if v["term"].is_string() {
            KTerm::Exact
        } else if let Some(m) = v["term"].get("max") {
            KTerm::MaxIteration(m.as_u64().unwrap())
        } else {
            KTerm::Factor(v["term"]["factor"].as_u64().unwrap())
        },
        term_explicit: v["term_explicit"].as_bool().unwrap_or(true),
        sim: if v["sim"].is_null() {
            None
        } else if v["sim"].is_string() {
            Some(Sim::AcceptAll)
        } else if let Some(i) = v["sim"].get("edge_id") {
            Some(Sim::EdgeId(i.as_u64().unwrap() as usize))
        } else {
            Some(Sim::Distance(v["sim"]["distance"].as_u64().unwrap() as usize))
        },
        source: v["source"].as_u64().unwrap() as usize,
        target: v["target"].as_u64().map(|x| x as usize),
        optimal: v["optimal"].as_bool().unwrap_or(false),
        edge: v["orient"] == "edge",
        fold: v["fold"].as_bool().unwrap_or(true),
    }
}

// -------------------------------------------------------------------------------------------- cases

struct Ctx {
    st: Stream,
    hangs: usize,
}

fn add_case(cx: &mut Ctx, family: &str, w: &World, c: &KCase) {
    let id = cx.st.next_id();
    let o = run_watchdog(w, c, c.sim);
    if o.status == "Hang" {
        cx.hangs += 1;
    }
    // the same query under AcceptAll (single-via only; Yen: its own count)
    let aa = match (c.alg, c.sim_eff()) {
        (KAlg::SingleVia, s) if s != Sim::AcceptAll => run_watchdog(w, c, Some(Sim::AcceptAll)).routes.len(),
        _ => o.routes.len(),
    };
    // least cost from the source over the cost table (certificate for the checker)
    // (edge-oriented: from the end vertex of the origin edge, where the vertex-oriented run starts)
    let pi_source = if c.edge { w.edges.get(c.source).map(|e| e.1).unwrap_or(usize::MAX) } else { c.source };
    let pi = true_dist(w, Dir::Reverse, pi_source);
    // with turn costs the objective depends on the previous edge: least total cost of a walk from the source that ENDS
    // with each edge (Bellman-Ford over consecutive edge pairs), the checker's certificate for "first is least-cost"
    let pie: Vec<Option<f64>> = if w.turn.is_empty() || c.edge { vec![] } else { edge_potentials(w, c.source) };
    let world = coq_world(w, NumKind::F);
    let kq = coq_kq(c);
    let terms = vec![
        format!("KR.line_M{}F {} {}%Z {} {} {}", if c.edge { "E" } else { "" }, default_fuel(w), id, world, kq, DETAIL),
        format!(
            "KR.line_S{} {}%Z {} {} {} {} {} {} {} {}",
            if c.edge { "E".to_string() } else { format!("G {} {} {}", coq_bool(c.fold), default_fuel(w), coq_list(&pie, |x| coq_opt(x, |f| coq_f64(*f)))) },
            id,
            world,
            kq,
            coq_sim_q(c.sim_eff()),
            coq_list(&pi, |x| coq_opt(x, |f| coq_f64(*f))),
            coq_bool(c.optimal),
            coq_outcome(&o, NumKind::F),
            aa,
            DETAIL
        ),
    ];
    let line = format!("I {} {} aa={}", id, show_outcome(&o, DETAIL), aa);
    let desc = json!({"id": id, "family": family, "world": world_to_json(w), "ksp": case_to_json(c),
                      "impl_short": format!("{} aa={}", show_outcome(&o, 0), aa).chars().take(240).collect::<String>()});
    let st = &mut cx.st;
    st.count(&format!("family:{}", family));
    st.count(&format!("status:{}", o.status));
    st.count(&format!("alg:{:?}", c.alg));
    st.count(if c.edge { "orient:edge" } else { "orient:vertex" });
    st.count(&format!("under:{}", match c.under { Alg::Dijkstra => "dijkstra".to_string(), Alg::AStar(None) => "astar(default)".to_string(), Alg::AStar(Some(x)) => format!("astar({})", x) }));
    st.count(&format!("k:{}", c.k_eff().map(|k| k.to_string()).unwrap_or("bad".into())));
    st.count(&format!("k_from:{}", if c.qk == QK::Absent { "config" } else { "query" }));
    st.count(&format!("sim:{}", match c.sim { None => "default".to_string(), Some(Sim::AcceptAll) => "accept_all".to_string(), Some(Sim::EdgeId(i)) => format!("edge_id@{}", THRESHOLDS[i].0), Some(Sim::Distance(i)) => format!("distance@{}", THRESHOLDS[i].0) }));
    st.count(&format!("term:{}", match c.term { KTerm::Exact => if c.term_explicit { "exact".to_string() } else { "default".to_string() }, KTerm::MaxIteration(m) => format!("max{}k", if (m as usize) >= c.k_eff().unwrap_or(0) { ">=" } else { "<" }), KTerm::Factor(f) => format!("factor{}", f.min(2)) }));
    st.count(&format!("routes:{}", o.routes.len().min(7)));
    if o.is_ok() {
        st.count(&format!("aa_minus_routes:{}", (aa as i64 - o.routes.len() as i64).min(3)));
        if let Some(k) = c.k_eff() {
            st.count(if o.routes.len() == k { "routes_eq_k" } else if o.routes.len() < k { "routes_lt_k" } else { "routes_gt_k" });
        }
        let lens: Vec<usize> = o.routes.iter().map(|r| r.len()).collect();
        st.count(&format!("first_route_edges:{}", lens.first().copied().unwrap_or(0).min(6)));
    }
    st.count(&format!("n:{}", (w.n + 7) / 8 * 8));
    if !w.turn.is_empty() {
        st.count("has_turn_costs");
    }
    if w.init != 0.0 {
        st.count("nonzero_initial_state");
    }
    if w.term != Term::Unlimited {
        st.count("termination_limit");
    }
    if w.cost.iter().all(|c| *c < 1.0) {
        st.count("fractional_lengths");
    }
    if o.routes.len() >= 2 || !o.is_ok() {
        st.mark_nontrivial(&format!("{}|{}", world_to_json(w), case_to_json(c)));
    }
    st.case(terms, vec![line], desc);
}

fn edge_potentials(w: &World, s: usize) -> Vec<Option<f64>> {
    let m = w.edges.len();
    let turn: std::collections::HashMap<(usize, usize), f64> = w.turn.iter().map(|(a, b, c)| ((*a, *b), *c)).collect();
    let mut d: Vec<Option<f64>> = (0..m).map(|e| if w.edges[e].0 == s { Some(w.cost[e]) } else { None }).collect();
    for _ in 0..m + 1 {
        let mut changed = false;
        for e in 0..m {
            if let Some(de) = d[e] {
                for f in 0..m {
                    if w.edges[e].1 == w.edges[f].0 {
                        let cand = de + turn.get(&(e, f)).copied().unwrap_or(0.0) + w.cost[f];
                        if d[f].map_or(true, |x| cand < x) {
                            d[f] = Some(cand);
                            changed = true;
                        }
                    }
                }
            }
        }
        if !changed {
            break;
        }
    }
    d
}

/// two routes 0-1-3 (5+5, no turn charge: total 10) and 0-2-3 (4.5+4.5 plus a turn charge of 5: total 14): the second has the
/// smaller traversal-only share (9 against 10) and the larger total cost
fn turn_penalty() -> World {
    let mut w = World::new(4, vec![(0, 1), (1, 3), (0, 2), (2, 3)], vec![5.0, 5.0, 4.5, 4.5]);
    w.turn = vec![(2, 3, 5.0)];
    w
}

fn base_case(alg: KAlg, k: usize, s: usize, t: usize) -> KCase {
    KCase { alg, under: Alg::Dijkstra, query_wf: None, k, qk: QK::Absent, term: KTerm::Exact, sim: None, term_explicit: false, source: s, target: Some(t), optimal: true, edge: false, fold: true }
}

/// the two corpus witnesses of D-YEN and the D-ACCEPTALL diamond (also kept as files under corpus/C13)
fn diamond() -> World {
    World::new(4, vec![(0, 1), (1, 3), (0, 2), (2, 3), (0, 3)], vec![1.0, 1.0, 2.0, 2.0, 10.0])
}
fn three_edge() -> World {
    World::new(4, vec![(0, 1), (1, 2), (2, 3), (0, 2), (1, 3), (0, 3)], vec![1.0, 1.0, 1.0, 5.0, 5.0, 20.0])
}
/// tie-free variant of the diamond (distinct dyadic costs)
fn diamond_tf() -> World {
    World::new(4, vec![(0, 1), (1, 3), (0, 2), (2, 3), (0, 3)], vec![1.0, 1.25, 2.5, 2.0, 10.0])
}
/// shortest path 0-1-2-3 and a parallel lane 0-4-5-3 whose two inner vertices both reproduce the same alternative
/// (the exact-duplicate test is what keeps the second copy out), plus a third lane 0-6-3
fn two_lanes() -> World {
    World::new(7, vec![(0, 1), (1, 2), (2, 3), (0, 4), (4, 5), (5, 3), (0, 6), (6, 3)], vec![1.0, 1.5, 1.25, 2.0, 2.5, 2.25, 8.0, 9.5])
}
/// a via vertex whose forward and reverse halves overlap: 0-1-2-3 is shortest; vertex 4 hangs off 1 and returns to 1
/// (0-1-4-1-... is a loop), and 5 is a dead-end spur off 2
fn loopy() -> World {
    World::new(6, vec![(0, 1), (1, 2), (2, 3), (1, 4), (4, 1), (2, 5), (5, 2), (4, 2)], vec![1.0, 1.5, 1.25, 0.5, 0.75, 0.25, 0.375, 3.0])
}

/// shortest 0-1-2-7; a lane 0-3-4-5-7 and its variant 0-3-4-6-7, which shares half its edges with the lane and none
/// with the shortest route: at threshold 0.3 the variant is dissimilar to the FIRST route but similar to the SECOND
fn lane_variant() -> World {
    World::new(8, vec![(0, 1), (1, 2), (2, 7), (0, 3), (3, 4), (4, 5), (5, 7), (4, 6), (6, 7)], vec![3.0, 3.25, 2.75, 1.0, 1.0, 1.0, 8.25, 1.5, 8.5])
}

/// shortest 0-1-5; the via vertices 2, 3, 4 sit on the one-way ring 1-2-3-4-1, so their candidates (0-1-2-3-4-1-5)
/// revisit vertex 1 without any two consecutive edges doubling back
fn one_way_ring() -> World {
    World::new(6, vec![(0, 1), (1, 5), (1, 2), (2, 3), (3, 4), (4, 1)], vec![5.0, 5.0, 1.0, 1.0, 1.25, 1.0])
}

/// upper route 0-2-3-1 (1+1+10) and lower route 0-4-5-1 (1+1+1).  The estimate table (times the weight factor: 7.5 at
/// vertex 3, 12.5 at vertex 4) lures the forward A* onto the upper route (it pops the destination at f = 12 while
/// vertex 4 waits at 13.5) and lets the reverse A* find the lower one: the two trees disagree about the best route
fn lured(wf: f64) -> World {
    let mut w = World::new(6, vec![(0, 2), (2, 3), (3, 1), (0, 4), (4, 5), (5, 1)], vec![1.0, 1.0, 10.0, 1.0, 1.0, 1.0]);
    w.h = vec![0.0, 0.0, 0.0, 7.5 / wf, 12.5 / wf, 0.0];
    w
}
/// lane_variant with link lengths below one unit (k/64): shortest 0-1-2-7, lane 0-3-4-5-7 and its variant 0-3-4-6-7, which
/// share two long links; the distance-weighted cosine of lane and variant is 481/sqrt(521*539) = 0.908 although the
/// product of their norms is 0.13
fn fractional_lanes() -> World {
    let c = |k: u32| k as f64 / 64.0;
    World::new(8, vec![(0, 1), (1, 2), (2, 7), (0, 3), (3, 4), (4, 5), (5, 7), (4, 6), (6, 7)], vec![c(12), c(14), c(11), c(15), c(16), c(2), c(6), c(3), c(7)])
}
/// hub: origin 0, destination 1, `mids` two-link alternatives 0-m-1; the first is cheap (1+1), alternative j costs
/// (100+j) + (100.25+j/2), so either underlying Dijkstra pops the destination in its third iteration while the
/// intersection of the two trees holds every alternative
fn hub(mids: usize) -> World {
    let mut edges = vec![];
    let mut cost = vec![];
    for j in 0..mids {
        let m = 2 + j;
        edges.push((0, m));
        cost.push(if j == 0 { 1.0 } else { 100.0 + j as f64 });
        edges.push((m, 1));
        cost.push(if j == 0 { 1.0 } else { 100.25 + j as f64 / 2.0 });
    }
    World::new(2 + mids, edges, cost)
}

fn boundary_cases() -> Vec<(String, World, KCase)> {
    let mut out: Vec<(String, World, KCase)> = vec![];
    // ---- an inexact underlying search (A* weight factor above 1): forward and reverse tree disagree ----
    for wf in [2.0, 5.0, 10.0] {
        for k in 1..=3 {
            let mut c = base_case(KAlg::SingleVia, k, 0, 1);
            c.under = Alg::AStar(Some(wf));
            c.optimal = false;
            out.push((format!("sv_lured_wf{}_k{}", wf, k), lured(wf), c));
        }
    }
    let mut c = base_case(KAlg::SingleVia, 2, 0, 1);
    c.under = Alg::AStar(None);
    c.query_wf = Some(10.0);
    c.optimal = false;
    out.push(("sv_lured_query_weight_factor".into(), lured(10.0), c));
    // ---- an access model that charges turns: the alternative has the smaller traversal-only share but the larger total ----
    for k in 1..=3 {
        for sim in [None, Some(Sim::EdgeId(3))] {
            let mut c = base_case(KAlg::SingleVia, k, 0, 3);
            c.sim = sim;
            out.push((format!("sv_turn_penalty_k{}_{:?}", k, sim), turn_penalty(), c));
        }
    }
    // ---- link lengths below one unit: the product of the route norms is below 1 ----
    for sim in [Sim::AcceptAll, Sim::Distance(1), Sim::Distance(2), Sim::Distance(3), Sim::Distance(4), Sim::EdgeId(2)] {
        let mut c = base_case(KAlg::SingleVia, 4, 0, 7);
        c.sim = Some(sim);
        out.push((format!("sv_fractional_lanes_{:?}", sim), fractional_lanes(), c));
    }
    // ---- a TerminationModel in the SearchInstance: IterationsLimit between what the two underlying searches need (3) and
    // the number of via candidates the single-via loop examines; the loop itself does not consult the termination model ----
    for (mids, limit, k) in [(30usize, 10u64, 20usize), (30, 10, 5), (30, 3, 30), (30, 2, 20), (12, 4, 12), (12, 50, 12)] {
        let mut w = hub(mids);
        w.term = Term::Iter(limit);
        out.push((format!("sv_hub{}_limit{}_k{}", mids, limit, k), w.clone(), base_case(KAlg::SingleVia, k, 0, 1)));
        if k == 20 {
            w.term = Term::Combined(vec![Term::Size(1000), Term::Iter(limit)]);
            out.push((format!("sv_hub{}_combined_limit{}_k{}", mids, limit, k), w, base_case(KAlg::SingleVia, k, 0, 1)));
        }
    }
    for k in 2..=3 {
        out.push((format!("sv_one_way_ring_k{}", k), one_way_ring(), base_case(KAlg::SingleVia, k, 0, 5)));
    }
    let d = diamond();
    // Yen k = 1 is checked normally, on 1-, 2- and 3-edge shortest paths
    out.push(("yen_k1_one_edge".into(), d.clone(), base_case(KAlg::Yens, 1, 0, 1)));
    out.push(("yen_k1_two_edge".into(), diamond_tf(), base_case(KAlg::Yens, 1, 0, 3)));
    out.push(("yen_k1_three_edge".into(), three_edge(), base_case(KAlg::Yens, 1, 0, 3)));
    // single-via on the same shapes
    for k in 1..=4 {
        out.push((format!("sv_diamond_k{}", k), diamond_tf(), base_case(KAlg::SingleVia, k, 0, 3)));
        out.push((format!("sv_diamond_ties_k{}", k), d.clone(), base_case(KAlg::SingleVia, k, 0, 3)));
        out.push((format!("sv_two_lanes_k{}", k), two_lanes(), base_case(KAlg::SingleVia, k, 0, 3)));
        out.push((format!("sv_loopy_k{}", k), loopy(), base_case(KAlg::SingleVia, k, 0, 3)));
    }
    out.push(("sv_one_edge".into(), d.clone(), base_case(KAlg::SingleVia, 3, 0, 1)));
    out.push(("sv_three_edge".into(), three_edge(), base_case(KAlg::SingleVia, 3, 0, 3)));
    // exactly one route exists
    let path = World::new(4, vec![(0, 1), (1, 2), (2, 3)], vec![1.0, 2.0, 4.0]);
    out.push(("sv_only_one_route".into(), path.clone(), base_case(KAlg::SingleVia, 4, 0, 3)));
    out.push(("yen_k1_only_one_route".into(), path.clone(), base_case(KAlg::Yens, 1, 0, 3)));
    // every similarity function and threshold on the two-lane network, k from the query
    for (i, _) in THRESHOLDS.iter().enumerate() {
        for sim in [Sim::EdgeId(i), Sim::Distance(i)] {
            let mut c = base_case(KAlg::SingleVia, 1, 0, 3);
            c.qk = QK::Nat(4);
            c.sim = Some(sim);
            out.push((format!("sv_two_lanes_{:?}", sim), two_lanes(), c));
        }
    }
    for sim in [Sim::AcceptAll, Sim::EdgeId(1), Sim::Distance(1), Sim::EdgeId(2), Sim::EdgeId(4)] {
        let mut c = base_case(KAlg::SingleVia, 4, 0, 7);
        c.sim = Some(sim);
        out.push((format!("sv_lane_variant_{:?}", sim), lane_variant(), c));
    }
    let mut c = base_case(KAlg::SingleVia, 4, 0, 3);
    c.sim = Some(Sim::AcceptAll);
    c.term = KTerm::Exact;
    c.term_explicit = true;
    out.push(("sv_two_lanes_explicit_defaults".into(), two_lanes(), c));
    // termination criteria that never fire (max < k, factor 0): the queue is exhausted and the result truncated
    for (name, term) in [("max_lt_k", KTerm::MaxIteration(1)), ("max_ge_k", KTerm::MaxIteration(9)), ("factor0", KTerm::Factor(0)), ("factor1", KTerm::Factor(1)), ("factor3", KTerm::Factor(3))] {
        for k in [1usize, 2, 3] {
            let mut c = base_case(KAlg::SingleVia, k, 0, 3);
            c.term = term;
            c.term_explicit = true;
            out.push((format!("sv_two_lanes_{}_k{}", name, k), two_lanes(), c.clone()));
            c.alg = KAlg::Yens;
            c.k = 1;
            out.push((format!("yen_k1_{}", name), two_lanes(), c));
        }
    }
    // k in the query: overrides, not an integer, negative, zero
    let mut c = base_case(KAlg::SingleVia, 2, 0, 3);
    c.qk = QK::Bad(json!("three"));
    out.push(("k_not_an_integer".into(), two_lanes(), c.clone()));
    c.qk = QK::Bad(json!(-2));
    out.push(("k_negative".into(), two_lanes(), c.clone()));
    c.qk = QK::Bad(json!(2.5));
    out.push(("k_fraction".into(), two_lanes(), c.clone()));
    c.qk = QK::Nat(0);
    out.push(("k_zero".into(), two_lanes(), c.clone()));
    c.alg = KAlg::Yens;
    c.qk = QK::Nat(1);
    c.k = 5;
    out.push(("yen_k1_from_query".into(), two_lanes(), c.clone()));
    // no destination, origin = destination, unreachable destination, unknown vertex
    for alg in [KAlg::SingleVia, KAlg::Yens] {
        let mut c = base_case(alg, 1, 0, 3);
        c.target = None;
        out.push((format!("{:?}_no_destination", alg), two_lanes(), c));
        out.push((format!("{:?}_origin_is_destination", alg), two_lanes(), base_case(alg, 1, 2, 2)));
        out.push((format!("{:?}_unreachable", alg), two_lanes(), base_case(alg, 1, 3, 0)));
        out.push((format!("{:?}_unknown_vertex", alg), two_lanes(), base_case(alg, 1, 0, 17)));
    }
    // ---- edge-oriented queries (SearchAlgorithm::run_edge_oriented): origin edge 0, destination edge 1, three lanes of
    // different length between them, so the alternatives end in different states
    let lanes3 = World::new(7, vec![(0, 1), (2, 3), (1, 4), (4, 2), (1, 5), (5, 2), (1, 6), (6, 2)], vec![1.5, 2.5, 5.0, 5.25, 6.0, 6.5, 7.0, 7.75]);
    for k in 1..=4 {
        for sim in [None, Some(Sim::EdgeId(3))] {
            let mut c = base_case(KAlg::SingleVia, k, 0, 1);
            c.edge = true;
            c.sim = sim;
            out.push((format!("eo_three_lanes_k{}_{:?}", k, sim), lanes3.clone(), c));
        }
    }
    let mut w_init = lanes3.clone();
    w_init.init = 100.0;
    let mut c = base_case(KAlg::SingleVia, 3, 0, 1);
    c.edge = true;
    out.push(("eo_three_lanes_initial_state".into(), w_init, c.clone()));
    c.alg = KAlg::Yens;
    c.k = 1;
    out.push(("eo_yen_k1".into(), lanes3.clone(), c.clone()));
    let mut c = base_case(KAlg::SingleVia, 3, 0, 0);
    c.edge = true;
    out.push(("eo_same_edge".into(), lanes3.clone(), c.clone()));
    c.target = Some(2);
    out.push(("eo_adjacent_edges".into(), lanes3.clone(), c.clone()));
    c.target = None;
    out.push(("eo_no_destination".into(), lanes3.clone(), c.clone()));
    c.target = Some(40);
    out.push(("eo_unknown_destination_edge".into(), lanes3.clone(), c.clone()));
    c.source = 1;
    c.target = Some(0);
    out.push(("eo_unreachable".into(), lanes3.clone(), c.clone()));
    // underlying A-star (default factor, exact estimate) and a query weight factor
    let mut w = two_lanes();
    gen_heuristic(&mut Rng::new(1), &mut w, Dir::Forward, Some(3), HKind::Exact);
    for under in [Alg::AStar(None), Alg::AStar(Some(1.0)), Alg::AStar(Some(0.5))] {
        let mut c = base_case(KAlg::SingleVia, 3, 0, 3);
        c.under = under;
        out.push((format!("sv_astar_{:?}", under), w.clone(), c.clone()));
        c.alg = KAlg::Yens;
        c.k = 1;
        out.push((format!("yen_k1_astar_{:?}", under), w.clone(), c));
    }
    let mut c = base_case(KAlg::SingleVia, 3, 0, 3);
    c.query_wf = Some(0.5);
    out.push(("sv_query_weight_factor".into(), w.clone(), c));
    out
}

// --------------------------------------------------------------------------------------- generators

fn costs(rng: &mut Rng, m: usize, fam: CostFamily) -> Vec<f64> {
    gen_costs(rng, m, fam)
}
/// layers of `width` vertices; edges from each layer to the next (density ~2/3), a few skips over one layer and a
/// few edges backwards; vertex 0 = origin, last = destination
fn gen_layered(rng: &mut Rng, fam: CostFamily) -> (World, usize, usize) {
    let layers = rng.range(2, 5) as usize;
    let width = rng.range(1, 4) as usize;
    let n = 2 + layers * width;
    let lay = |l: usize, i: usize| 1 + l * width + i;
    let mut edges = vec![];
    for i in 0..width {
        edges.push((0, lay(0, i)));
        edges.push((lay(layers - 1, i), n - 1));
    }
    for l in 0..layers - 1 {
        for i in 0..width {
            for j in 0..width {
                if i == j || rng.chance(1, 2) {
                    edges.push((lay(l, i), lay(l + 1, j)));
                }
                if rng.chance(1, 6) {
                    edges.push((lay(l + 1, j), lay(l, i)));
                }
            }
        }
    }
    for l in 0..layers.saturating_sub(2) {
        if rng.chance(1, 2) {
            edges.push((lay(l, rng.below(width as u64) as usize), lay(l + 2, rng.below(width as u64) as usize)));
        }
    }
    if rng.chance(1, 3) {
        rng.shuffle(&mut edges);
    }
    let c = costs(rng, edges.len(), fam);
    (World::new(n, edges, c), 0, n - 1)
}
/// a rows x cols grid of two-way streets
fn gen_grid(rng: &mut Rng, fam: CostFamily) -> (World, usize, usize) {
    let rows = rng.range(2, 4) as usize;
    let cols = rng.range(2, 5) as usize;
    let id = |r: usize, c: usize| r * cols + c;
    let mut edges = vec![];
    for r in 0..rows {
        for c in 0..cols {
            if c + 1 < cols {
                edges.push((id(r, c), id(r, c + 1)));
                if rng.chance(4, 5) {
                    edges.push((id(r, c + 1), id(r, c)));
                }
            }
            if r + 1 < rows {
                edges.push((id(r, c), id(r + 1, c)));
                if rng.chance(4, 5) {
                    edges.push((id(r + 1, c), id(r, c)));
                }
            }
        }
    }
    let c = costs(rng, edges.len(), fam);
    let n = rows * cols;
    let (s, t) = if rng.chance(2, 3) { (0, n - 1) } else { (rng.below(n as u64) as usize, rng.below(n as u64) as usize) };
    (World::new(n, edges, c), s, t)
}
/// `lanes` parallel chains of 1..4 edges between origin 0 and destination 1, some cross links
fn gen_diamond(rng: &mut Rng, fam: CostFamily) -> (World, usize, usize) {
    let lanes = rng.range(1, 5) as usize;
    let mut edges = vec![];
    let mut n = 2;
    let mut inner: Vec<Vec<usize>> = vec![];
    for _ in 0..lanes {
        let len = rng.range(1, 4) as usize;
        let mut prev = 0;
        let mut vs = vec![];
        for i in 0..len {
            let next = if i + 1 == len {
                1
            } else {
                n += 1;
                n - 1
            };
            edges.push((prev, next));
            if next != 1 {
                vs.push(next);
            }
            prev = next;
        }
        inner.push(vs);
    }
    let all: Vec<usize> = inner.iter().flatten().copied().collect();
    if all.len() >= 2 {
        for _ in 0..rng.below(3) {
            let a = *rng.pick(&all);
            let b = *rng.pick(&all);
            if a != b {
                edges.push((a, b));
            }
        }
    }
    let c = costs(rng, edges.len(), fam);
    (World::new(n, edges, c), 0, 1)
}
/// a main path with dead-end spurs, two-way side streets (loop candidates) and bypasses
fn gen_spur_rich(rng: &mut Rng, fam: CostFamily) -> (World, usize, usize) {
    let len = rng.range(1, 6) as usize;
    let mut edges: Vec<(usize, usize)> = (0..len).map(|i| (i, i + 1)).collect();
    let mut n = len + 1;
    for v in 0..=len {
        match rng.below(5) {
            0 => {
                // dead-end spur, out and back
                edges.push((v, n));
                edges.push((n, v));
                n += 1;
            }
            1 => {
                // one-way dead end
                edges.push((v, n));
                n += 1;
            }
            2 if v + 2 <= len => {
                // bypass over one or two vertices through a new vertex
                let to = (v + 2 + rng.below(2) as usize).min(len);
                edges.push((v, n));
                edges.push((n, to));
                n += 1;
            }
            3 if v + 2 <= len => edges.push((v, v + 2)),
            _ => {}
        }
        if v > 0 && rng.chance(1, 3) {
            edges.push((v, v - 1));
        }
    }
    if rng.chance(1, 2) {
        rng.shuffle(&mut edges);
    }
    let c = costs(rng, edges.len(), fam);
    (World::new(n, edges, c), 0, len)
}

fn pick_sim(rng: &mut Rng) -> Option<Sim> {
    match rng.below(8) {
        0 => None,
        1 => Some(Sim::AcceptAll),
        2..=4 => Some(Sim::EdgeId(rng.below(5) as usize)),
        _ => Some(Sim::Distance(rng.below(5) as usize)),
    }
}
fn pick_term(rng: &mut Rng) -> (KTerm, bool) {
    match rng.below(6) {
        0 => (KTerm::Exact, false),
        1 | 2 => (KTerm::Exact, true),
        3 | 4 => (KTerm::MaxIteration(rng.below(9)), true),
        _ => (KTerm::Factor(rng.below(4)), true),
    }
}

// ------------------------------------------------------------------------------------------ stream sim

/// RouteSimilarityFunction::test_similarity on one pair of edge-id sequences (deserialised from its JSON configuration)
fn run_sim(w: &World, sim: Sim, a: &[usize], b: &[usize]) -> String {
    let (w2, a2, b2) = (w.clone(), a.to_vec(), b.to_vec());
    match catch(move || {
        let si = build_instance(&w2);
        let f: RouteSimilarityFunction = serde_json::from_value(sim_json(sim)).expect("similarity configuration");
        let mk = |r: &[usize]| -> Vec<EdgeTraversal> {
            r.iter().map(|e| EdgeTraversal { edge_id: EdgeId(*e), access_cost: Cost::ZERO, traversal_cost: Cost::ZERO, result_state: vec![] }).collect()
        };
        let (ra, rb) = (mk(&a2), mk(&b2));
        match f.test_similarity(&ra.iter().collect::<Vec<_>>(), &rb.iter().collect::<Vec<_>>(), &si) {
            Ok(x) => format!("Ok {}", show_bool(x)),
            Err(_) => "Err".to_string(),
        }
    }) {
        Ok(s) => s,
        Err(_) => "Panic".to_string(),
    }
}

fn sim_case(st: &mut Stream, family: &str, w: &World, sim: Sim, a: &[usize], b: &[usize]) {
    let id = st.next_id();
    let out = run_sim(w, sim, a, b);
    let world = coq_world(w, NumKind::F);
    let (ca, cb) = (coq_list(a, |e| e.to_string()), coq_list(b, |e| e.to_string()));
    let terms = vec![
        format!("KR.line_simM {}%Z {} {} {} {}", id, world, coq_sim_f(sim), ca, cb),
        format!("KR.line_simS {}%Z {} {} {} {} {}", id, world, coq_sim_q(sim), ca, cb, coq_string(&out)),
    ];
    let norm2 = |r: &[usize]| -> f64 {
        let mut seen: Vec<usize> = r.to_vec();
        seen.sort();
        seen.dedup();
        seen.iter().map(|e| w.cost.get(*e).copied().unwrap_or(0.0).powi(2)).sum()
    };
    let shared = a.iter().filter(|e| b.contains(e)).count();
    st.count(&format!("family:{}", family));
    st.count(&format!("result:{}", out));
    st.count(&format!("sim:{}", match sim { Sim::AcceptAll => "accept_all".to_string(), Sim::EdgeId(i) => format!("edge_id@{}", THRESHOLDS[i].0), Sim::Distance(i) => format!("distance@{}", THRESHOLDS[i].0) }));
    st.count(&format!("shared_edges:{}", shared.min(4)));
    let small = matches!(sim, Sim::Distance(_)) && (norm2(a) * norm2(b)).sqrt() < 1.0;
    if small {
        st.count("norm_product_below_1");
    }
    if a.is_empty() || b.is_empty() {
        st.count("empty_route");
    }
    if shared > 0 || small {
        st.mark_nontrivial(&format!("{}|{:?}|{:?}|{:?}", world_to_json(w), sim, a, b));
    }
    let desc = json!({"id": id, "family": family, "world": world_to_json(w), "sim": format!("{:?}", sim),
                      "sim_json": sim_json(sim), "a": a, "b": b, "impl": out});
    st.case(terms, vec![format!("I {} {}", id, out)], desc);
}

fn sim_from_text(t: &str) -> Sim {
    let idx = |s: &str| s.trim_end_matches(')').rsplit('(').next().unwrap().parse::<usize>().unwrap();
    if t.starts_with("EdgeId") {
        Sim::EdgeId(idx(t))
    } else if t.starts_with("Distance") {
        Sim::Distance(idx(t))
    } else {
        Sim::AcceptAll
    }
}

/// a path graph of m edges (edge i joins vertex i to i+1) carrying the given lengths
fn path_world(len: Vec<f64>) -> World {
    let m = len.len();
    World::new(m + 1, (0..m).map(|i| (i, i + 1)).collect(), len)
}

fn sim_stream(a: &Args) {
    let mut st = Stream::new(&a.out, "sim", KHEADER, a.shards);
    if let Some(p) = &a.replay {
        st.full = true;
        let v: Value = serde_json::from_str(&std::fs::read_to_string(p).unwrap()).unwrap();
        let case = &v["case"];
        let w = world_from_json(&case["world"]);
        let us = |x: &Value| -> Vec<usize> { x.as_array().unwrap().iter().map(|y| y.as_u64().unwrap() as usize).collect() };
        sim_case(&mut st, "replay", &w, sim_from_text(case["sim"].as_str().unwrap()), &us(&case["a"]), &us(&case["b"]));
        st.finish();
        return;
    }
    // ---- boundary pairs: identical, disjoint, empty, repeated edges, zero-length links, tiny norms ----
    let c = |k: u32| k as f64 / 64.0;
    let frac = path_world(vec![c(15), c(16), c(2), c(6), c(3), c(7), c(12), c(14)]);
    let unit = path_world(vec![1.0; 8]);
    let big = path_world(vec![1500.0, 1600.0, 200.0, 600.0, 300.0, 700.0, 1200.0, 1400.0]);
    let zero = path_world(vec![0.0, 0.0, 0.5, 0.25, 0.0, 3.0, 0.0, 0.0]);
    let pairs: Vec<(&str, Vec<usize>, Vec<usize>)> = vec![
        ("near_copy", vec![0, 1, 2, 3], vec![0, 1, 4, 5]),
        ("identical", vec![0, 1, 2], vec![0, 1, 2]),
        ("same_set_other_order", vec![2, 1, 0], vec![0, 1, 2]),
        ("disjoint", vec![0, 1], vec![6, 7]),
        ("one_shared", vec![0, 2, 3], vec![0, 6, 7]),
        ("repeated_edge", vec![0, 0, 1], vec![0, 1, 1, 1]),
        ("empty_left", vec![], vec![0, 1]),
        ("empty_both", vec![], vec![]),
        ("subset", vec![0, 1], vec![0, 1, 2, 3, 4, 5]),
        ("zero_length_only", vec![0, 1], vec![0, 4]),
    ];
    for (wname, w) in [("fractional", &frac), ("unit", &unit), ("metres", &big), ("zero_lengths", &zero)] {
        for (pname, pa, pb) in &pairs {
            for sim in [Sim::Distance(1), Sim::Distance(3), Sim::Distance(4), Sim::Distance(0), Sim::EdgeId(2), Sim::EdgeId(6), Sim::AcceptAll] {
                if st.next_id() < a.n.max(280) {
                    sim_case(&mut st, &format!("{}_{}", wname, pname), w, sim, pa, pb);
                }
            }
        }
    }
    // ---- random pairs ----
    let mut rng = Rng::new(a.seed);
    while st.next_id() < a.n {
        let mut r = rng.fork();
        let m = r.range(2, 12) as usize;
        let fam = *r.pick(&["fractional", "tiny", "small_int", "dyadic", "with_zero"]);
        let len: Vec<f64> = (0..m)
            .map(|_| match fam {
                "fractional" => r.range(1, 63) as f64 / 64.0,
                "tiny" => r.range(1, 64) as f64 / 4096.0,
                "small_int" => r.range(1, 3) as f64,
                "dyadic" => r.range(1, (1 << 20) - 1) as f64 / 64.0,
                _ => if r.chance(1, 3) { 0.0 } else { r.range(1, 200) as f64 / 64.0 },
            })
            .collect();
        let w = path_world(len);
        for _ in 0..(2 + r.below(4)) {
            if st.next_id() >= a.n {
                break;
            }
            let la = r.below(7) as usize;
            let pa: Vec<usize> = (0..la).map(|_| r.below(m as u64) as usize).collect();
            // the second route: a mutation of the first (shares edges) or an independent draw
            let pb: Vec<usize> = if r.chance(2, 3) && !pa.is_empty() {
                let mut x = pa.clone();
                for _ in 0..(1 + r.below(3)) {
                    match r.below(3) {
                        0 if !x.is_empty() => {
                            let i = r.below(x.len() as u64) as usize;
                            x[i] = r.below(m as u64) as usize;
                        }
                        1 => x.push(r.below(m as u64) as usize),
                        _ if !x.is_empty() => {
                            let i = r.below(x.len() as u64) as usize;
                            x.remove(i);
                        }
                        _ => {}
                    }
                }
                x
            } else {
                (0..r.below(7) as usize).map(|_| r.below(m as u64) as usize).collect()
            };
            let sim = match r.below(8) {
                0 => Sim::AcceptAll,
                1 | 2 => Sim::EdgeId(r.below(8) as usize),
                _ => Sim::Distance(r.below(8) as usize),
            };
            sim_case(&mut st, &format!("random_{}", fam), &w, sim, &pa, &pb);
        }
    }
    st.finish();
}

fn main() {
    silence_panics();
    let a = parse_args();
    if a.stream == "sim" {
        sim_stream(&a);
        std::process::exit(0);
    }
    if a.stream == "probe" {
        for (name, w, c) in boundary_cases() {
            let o = run_watchdog(&w, &c, c.sim);
            println!("{:44} {:?} k={:?} {:?} {:?} s={} t={:?} :: {}", name, c.alg, c.k_eff(), c.sim, c.term, c.source, c.target, show_outcome(&o, 0));
        }
        std::process::exit(0);
    }
    let mut cx = Ctx { st: Stream::new(&a.out, "ksp", KHEADER, a.shards), hangs: 0 };
    if let Some(p) = &a.replay {
        cx.st.full = true;
        let v: Value = serde_json::from_str(&std::fs::read_to_string(p).unwrap()).unwrap();
        let case = &v["case"];
        let w = world_from_json(&case["world"]);
        let c = case_from_json(&case["ksp"]);
        add_case(&mut cx, "replay", &w, &c);
        cx.st.finish();
        std::process::exit(0);
    }
    // ---- deterministic boundary families first ----
    for (name, w, c) in boundary_cases() {
        add_case(&mut cx, &name, &w, &c);
    }
    // ---- random worlds ----
    let mut rng = Rng::new(a.seed);
    while cx.st.next_id() < a.n {
        let mut r = rng.fork();
        let fam = if r.chance(3, 5) { CostFamily::TieFree } else { CostFamily::TieRich };
        let (kind, (mut w, s, t)) = match r.below(11) {
            0..=2 => ("layered", gen_layered(&mut r, fam)),
            3 | 4 => ("grid", gen_grid(&mut r, fam)),
            5 | 6 => ("diamond", gen_diamond(&mut r, fam)),
            7 | 8 => ("spur_rich", gen_spur_rich(&mut r, fam)),
            10 => ("layered", gen_layered(&mut r, fam)),
            9 if r.chance(1, 2) => {
                // hub with an iterations limit around the number of via candidates (k drawn up to the number of lanes below)
                let mids = r.range(4, 30) as usize;
                let mut w = hub(mids);
                w.term = Term::Iter(r.range(1, mids as i64 + 4) as u64);
                ("hub_limit", (w, 0, 1))
            }
            _ => {
                let (w, _) = {
                    let (n, edges, flags) = gen_graph(&mut r);
                    let c = costs(&mut r, edges.len(), fam);
                    (World::new(n, edges, c), flags)
                };
                let s = r.below(w.n as u64) as usize;
                let reach = reachable(&w, Dir::Forward, s);
                let cands: Vec<usize> = (0..w.n).filter(|v| reach[*v] && *v != s).collect();
                let t = if !cands.is_empty() && r.chance(9, 10) { *r.pick(&cands) } else { r.below(w.n as u64) as usize };
                ("random", (w, s, t))
            }
        };
        // one world in six measures its links in fractions of the distance unit (k/64 below one)
        let fractional = kind != "hub_limit" && r.chance(1, 6);
        if fractional {
            for c in w.cost.iter_mut() {
                *c = r.range(1, 40) as f64 / 64.0;
            }
        }
        // (one world in seven: a weight factor above 1 over an exact or a random admissible table -- an inexact search whose
        // forward and reverse trees may disagree; the least-cost and state-fold clauses are then not judged)
        let under = if kind == "hub_limit" {
            Alg::Dijkstra
        } else {
            match r.below(7) {
                0..=2 => Alg::Dijkstra,
                3 => Alg::AStar(None),
                4 => Alg::AStar(Some(1.0)),
                5 => Alg::AStar(Some(0.5)),
                _ => Alg::AStar(Some(*r.pick(&[2.0, 5.0, 10.0]))),
            }
        };
        let inexact = matches!(under, Alg::AStar(Some(x)) if x > 1.0);
        // one world in four is queried edge to edge: a stub edge into the origin and one out of the destination
        let stubs = if r.chance(1, 4) && s != t && !inexact && kind != "hub_limit" {
            let (u, v) = (w.n, w.n + 1);
            w.n += 2;
            w.edges.push((u, s));
            w.edges.push((t, v));
            let extra = gen_costs(&mut r, 2, fam);
            w.cost.extend(extra);
            Some((w.edges.len() - 2, w.edges.len() - 1))
        } else {
            None
        };
        // underlying search; the estimate table is exact (consistent) or zero, so the forward search is optimal
        if under != Alg::Dijkstra {
            let hk = if inexact {
                if r.chance(1, 2) { HKind::Exact } else { HKind::Admissible }
            } else if r.chance(3, 4) {
                HKind::Exact
            } else {
                HKind::Zero
            };
            gen_heuristic(&mut r, &mut w, Dir::Forward, Some(t), hk);
        }
        // one world in five charges turns (access model) and one in four starts from a non-zero state: the reverse
        // half of an alternative must then be re-traversed with the right previous edge and start state
        let mut extras = String::new();
        if r.chance(1, 5) {
            let m = w.edges.len();
            for a in 0..m {
                for b in 0..m {
                    if w.edges[a].1 == w.edges[b].0 && a != b && r.chance(1, 3) && w.turn.len() < 40 {
                        let c = if fam == CostFamily::TieFree { r.range(1, 4096) as f64 / 64.0 } else { r.range(1, 2) as f64 };
                        w.turn.push((a, b, c));
                    }
                }
            }
            extras.push_str("_turns");
        }
        if r.chance(1, 4) {
            w.init = if fam == CostFamily::TieFree { r.range(1, 1 << 16) as f64 / 64.0 } else { 100.0 };
        }
        if fractional {
            extras.push_str("_fractional");
        }
        if inexact {
            extras.push_str("_inexact");
        }
        let family = format!("{}_{}{}", kind, if fam == CostFamily::TieFree { "tie_free" } else { "tie_rich" }, extras);
        // several configurations per world (the world is the expensive part to vary)
        let per = 2 + r.below(4);
        for _ in 0..per {
            if cx.st.next_id() >= a.n {
                break;
            }
            let yen = kind != "hub_limit" && r.chance(1, 8);
            let yen_big = yen && r.chance(1, 3) && cx.hangs < MAX_HANGS;
            let k = if yen && !yen_big {
                1
            } else if kind == "hub_limit" {
                r.range(1, w.n as i64) as usize
            } else {
                r.range(1, 6) as usize
            };
            let (term, term_explicit) = pick_term(&mut r);
            let (kc, qk) = if r.chance(1, 4) { (r.range(1, 6) as usize, QK::Nat(k as u64)) } else { (k, QK::Absent) };
            let c = KCase {
                alg: if yen { KAlg::Yens } else { KAlg::SingleVia },
                under,
                query_wf: if under != Alg::Dijkstra && !inexact && r.chance(1, 8) { Some(*r.pick(&[0.0, 0.5, 1.0])) } else { None },
                k: kc,
                qk,
                term,
                sim: pick_sim(&mut r),
                term_explicit,
                source: s,
                target: Some(t),
                optimal: !inexact,
                edge: false,
                fold: !inexact,
            };
            // edge-oriented worlds: the query names the two stub edges
            let c = match stubs {
                Some((e1, e2)) => KCase { source: e1, target: Some(e2), edge: true, ..c },
                None => c,
            };
            add_case(&mut cx, &if yen_big { format!("yen_k_ge_2_{}", family) } else { family.clone() }, &w, &c);
        }
    }
    cx.st.finish();
    // abandoned watchdog threads (if any) die here
    std::process::exit(0);
}
