//! C14 harness: generic linear interpolators (stream `interp`) and the interpolated speed/grade
//! powertrain model over the bundled vehicle models (stream `sg`).
use routee_compass_core::model::unit::{
    as_f64::AsF64, Distance, EnergyRate, EnergyRateUnit, Grade, GradeUnit, Speed, SpeedUnit,
};
use routee_compass_powertrain::routee::prediction::interpolation::interp::{
    Interp1D, Interp2D, Interp3D, InterpND, Interpolator, Strategy,
};
use routee_compass_powertrain::routee::prediction::interpolation::interpolation_speed_grade_model::InterpolationSpeedGradeModel;
use routee_compass_powertrain::routee::prediction::interpolation::utils::linspace;
use routee_compass_powertrain::routee::prediction::{load_prediction_model, model_type::ModelType, PredictionModel};
use serde_json::json;
use routee_compass_core::util::cache_policy::float_cache_policy::{FloatCachePolicy, FloatCachePolicyConfig};
use routee_compass::app::compass::config::traversal_model::energy_model_vehicle_builders::VehicleBuilder;
use routee_compass_core::model::state::state_model::StateModel;
use routee_compass_core::model::traversal::traversal_model_error::TraversalModelError;
use routee_compass_powertrain::routee::vehicle::VehicleType;
use std::path::PathBuf;
use std::sync::Arc;
use verif_harness::*;

// ------------------------------------------------------------------ results in canonical form

type R = Result<Result<f64, String>, String>; // outer Err = panic

fn classify_err(m: &str) -> &'static str {
    if m.contains("Supplied point slice should have length") || m.contains("No point should be provided") {
        "point-len"
    } else if m.contains("Supplied point must be within grid") {
        "out-of-grid"
    } else if m.contains("cannot be NaN") {
        "nan"
    } else if m.contains("cannot be empty") || m.contains("Could not get last grid value") {
        "empty"
    } else if m.contains("sorted and non-repeating") {
        "unsorted"
    } else if m.contains("not compatible shapes") {
        "shape"
    } else if m.contains("Length of supplied `grid`") {
        "grid-dim"
    } else if m == "skip" {
        "skip"
    } else {
        "other"
    }
}
fn show_r(r: &R) -> String {
    match r {
        Ok(Ok(v)) => format!("Ok {}", show_f64(*v)),
        Ok(Err(m)) => format!("Err {}", classify_err(m)),
        Err(_) => "Panic".to_string(),
    }
}
fn coq_r(r: &R) -> String {
    match r {
        Ok(Ok(v)) => format!("(Ok {})", coq_f64(*v)),
        Ok(Err(m)) => format!("(Err {})", coq_string(classify_err(m))),
        Err(_) => "(Panic \"p\"%string)".to_string(),
    }
}
fn show_pts(l: &[(R, R)]) -> String {
    l.iter().map(|(a, b)| format!("{}/{}", show_r(a), show_r(b))).collect::<Vec<_>>().join(";")
}
fn coq_pts(l: &[(R, R)]) -> String {
    coq_list(l, |(a, b)| format!("({}, {})", coq_r(a), coq_r(b)))
}
fn coq_fl(l: &[f64]) -> String {
    coq_list(l, |x| coq_f64(*x))
}
fn coq_fll(l: &[Vec<f64>]) -> String {
    coq_list(l, |x| coq_fl(x))
}

// ------------------------------------------------------------------ n-dimensional data

/// nested Gallina list of depth shape.len() from row-major data
fn coq_nested(shape: &[usize], data: &[f64]) -> String {
    if shape.is_empty() {
        return coq_f64(data[0]);
    }
    let sub: usize = shape[1..].iter().product();
    let parts: Vec<String> = (0..shape[0]).map(|i| coq_nested(&shape[1..], &data[i * sub..(i + 1) * sub])).collect();
    format!("[{}]", parts.join("; "))
}

// ndarray is not a direct dependency of the harness crate: the ArrayD<f64> argument of InterpND::new is
// obtained through type inference only (Default -> Array1 via From<Vec<f64>> -> into_shape_with_order).
fn dflt<A: Default, R2>(_f: fn(Vec<Vec<f64>>, A) -> R2) -> A {
    A::default()
}
fn from_vec_like<B: From<Vec<f64>>>(_w: &B, v: Vec<f64>) -> B {
    v.into()
}
fn build_nd(grid: Vec<Vec<f64>>, shape: &[usize], data: Vec<f64>) -> Result<InterpND, String> {
    // ArrayD::default() is empty (shape [0]) in ndarray 0.16; only its type is used
    let a0 = dflt(InterpND::new);
    let w = a0.into_shape_with_order(0usize).map_err(|e| format!("harness: default array: {}", e))?;
    let a1 = from_vec_like(&w, data);
    let ad = a1.into_shape_with_order(shape.to_vec()).map_err(|e| format!("harness: reshape: {}", e))?;
    InterpND::new(grid, ad)
}

#[derive(Clone, Debug)]
struct GCase {
    family: String,
    grid: Vec<Vec<f64>>,
    shape: Vec<usize>,
    data: Vec<f64>,
    pts: Vec<Vec<f64>>,
    tags: Vec<String>,
    /// the table is c + prod_i (b_i + a_i x_i) sampled on the grid: (c, [(a_i, b_i)])
    ml: Option<(f64, Vec<(f64, f64)>)>,
}

fn nest2(shape: &[usize], d: &[f64]) -> Vec<Vec<f64>> {
    (0..shape[0]).map(|i| d[i * shape[1]..(i + 1) * shape[1]].to_vec()).collect()
}
fn nest3(shape: &[usize], d: &[f64]) -> Vec<Vec<Vec<f64>>> {
    let sub = shape[1] * shape[2];
    (0..shape[0]).map(|i| nest2(&shape[1..], &d[i * sub..(i + 1) * sub])).collect()
}

fn call(f: impl FnOnce() -> Result<f64, String> + std::panic::UnwindSafe) -> R {
    catch(f)
}

/// run the real interpolators: (specialised results or None for n > 3 / construction outcome, nd results)
fn run_generic(c: &GCase) -> (Result<Vec<(R, R)>, String>, Result<Vec<(R, R)>, String>, bool) {
    let n = c.shape.len();
    let lin = Strategy::Linear;
    let mut has_sp = true;
    let sp: Result<Vec<(R, R)>, String> = match n {
        1 => match catch(|| Interp1D::new(c.grid[0].clone(), c.data.clone())) {
            Err(_) => Err("Panic".into()),
            Ok(Err(e)) => Err(format!("Err {}", classify_err(&e))),
            Ok(Ok(i)) => {
                let it = Interpolator::Interp1D(i);
                Ok(c.pts
                    .iter()
                    .map(|p| {
                        let a = call(std::panic::AssertUnwindSafe(|| it.interpolate(p, &lin)));
                        let b = if p.len() == 1 {
                            call(std::panic::AssertUnwindSafe(|| match &it {
                                Interpolator::Interp1D(i) => i.linear(p[0]),
                                _ => unreachable!(),
                            }))
                        } else {
                            Ok(Err("skip".to_string()))
                        };
                        (a, b)
                    })
                    .collect())
            }
        },
        2 => match catch(|| Interp2D::new(c.grid[0].clone(), c.grid[1].clone(), nest2(&c.shape, &c.data))) {
            Err(_) => Err("Panic".into()),
            Ok(Err(e)) => Err(format!("Err {}", classify_err(&e))),
            Ok(Ok(i)) => {
                let it = Interpolator::Interp2D(i);
                Ok(c.pts
                    .iter()
                    .map(|p| {
                        let a = call(std::panic::AssertUnwindSafe(|| it.interpolate(p, &lin)));
                        let b = if p.len() == 2 {
                            call(std::panic::AssertUnwindSafe(|| match &it {
                                Interpolator::Interp2D(i) => i.linear(p),
                                _ => unreachable!(),
                            }))
                        } else {
                            Ok(Err("skip".to_string()))
                        };
                        (a, b)
                    })
                    .collect())
            }
        },
        3 => match catch(|| {
            Interp3D::new(c.grid[0].clone(), c.grid[1].clone(), c.grid[2].clone(), nest3(&c.shape, &c.data))
        }) {
            Err(_) => Err("Panic".into()),
            Ok(Err(e)) => Err(format!("Err {}", classify_err(&e))),
            Ok(Ok(i)) => {
                let it = Interpolator::Interp3D(i);
                Ok(c.pts
                    .iter()
                    .map(|p| {
                        let a = call(std::panic::AssertUnwindSafe(|| it.interpolate(p, &lin)));
                        let b = if p.len() == 3 {
                            call(std::panic::AssertUnwindSafe(|| match &it {
                                Interpolator::Interp3D(i) => i.linear(p),
                                _ => unreachable!(),
                            }))
                        } else {
                            Ok(Err("skip".to_string()))
                        };
                        (a, b)
                    })
                    .collect())
            }
        },
        _ => {
            has_sp = false;
            Ok(vec![])
        }
    };
    let nd: Result<Vec<(R, R)>, String> = match catch(|| build_nd(c.grid.clone(), &c.shape, c.data.clone())) {
        Err(_) => Err("Panic".into()),
        Ok(Err(e)) => { if std::env::var("C14_DEBUG").is_ok() { eprintln!("nd ctor error: {}", e); } Err(format!("Err {}", classify_err(&e))) }
        Ok(Ok(i)) => {
            let it = Interpolator::InterpND(i);
            Ok(c.pts
                .iter()
                .map(|p| {
                    let a = call(std::panic::AssertUnwindSafe(|| it.interpolate(p, &lin)));
                    let b = if p.len() == n {
                        call(std::panic::AssertUnwindSafe(|| match &it {
                            Interpolator::InterpND(i) => i.linear(p),
                            _ => unreachable!(),
                        }))
                    } else {
                        Ok(Err("skip".to_string()))
                    };
                    (a, b)
                })
                .collect())
        }
    };
    (sp, nd, has_sp)
}

fn emit_generic(st: &mut Stream, c: &GCase, gen: serde_json::Value) {
    let id = st.next_id();
    let n = c.shape.len();
    let (sp, nd, has_sp) = run_generic(c);
    let part = |r: &Result<Vec<(R, R)>, String>| match r {
        Ok(v) => show_pts(v),
        Err(e) => format!("new={}", e),
    };
    let payload = format!("{} | {}", if has_sp { part(&sp) } else { "-".to_string() }, part(&nd));
    let vals = coq_nested(&c.shape, &c.data);
    let pts = coq_fll(&c.pts);
    let m_term = match n {
        1 => format!("line_g1 {} {} {} {}", id, coq_fl(&c.grid[0]), vals, pts),
        2 => format!("line_g2 {} {} {} {} {}", id, coq_fl(&c.grid[0]), coq_fl(&c.grid[1]), vals, pts),
        3 => format!(
            "line_g3 {} {} {} {} {} {}",
            id,
            coq_fl(&c.grid[0]),
            coq_fl(&c.grid[1]),
            coq_fl(&c.grid[2]),
            vals,
            pts
        ),
        _ => format!("line_gn {} {} {} ({} : @Interp.arr FN {}) {}", id, n, coq_fll(&c.grid), vals, n, pts),
    };
    let mut terms = vec![m_term];
    // the specification line only when both constructors succeeded (valid grid and table)
    if let (Ok(spv), Ok(ndv)) = (&sp, &nd) {
        let ml = match &c.ml {
            None => "None".to_string(),
            Some((cc, ab)) => format!(
                "(Some ({}, {}))",
                coq_f64(*cc),
                coq_list(ab, |(a, b)| format!("({}, {})", coq_f64(*a), coq_f64(*b)))
            ),
        };
        terms.push(format!(
            "line_sg {} {} {} ({} : @Interp.arr FN {}) {} {} {} {}",
            id,
            n,
            coq_fll(&c.grid),
            vals,
            n,
            pts,
            ml,
            coq_pts(spv),
            coq_pts(ndv)
        ));
    }
    st.count(&format!("family:{}", c.family));
    st.count(&format!("dim:{}", n));
    for t in &c.tags {
        st.count(&format!("query:{}", t));
    }
    let mut nontrivial = false;
    if let Ok(ndv) = &nd {
        for ((a, _), t) in ndv.iter().zip(c.tags.iter()) {
            match a {
                Ok(Ok(_)) => st.count("result:ok"),
                Ok(Err(m)) => st.count(&format!("result:err-{}", classify_err(m))),
                Err(_) => st.count("result:panic"),
            }
            if t != "inside" && t != "inside-dyadic" {
                nontrivial = true;
            }
        }
    } else {
        st.count("result:constructor-rejects");
    }
    if nontrivial {
        st.mark_nontrivial(&format!("{:?}", c));
    }
    let desc = json!({"id": id, "family": c.family, "gen": gen, "dim": n, "grid": c.grid, "shape": c.shape,
                      "values": c.data, "points": c.pts, "query_kinds": c.tags,
                      "multilinear_c_ab": c.ml});
    st.case(terms, vec![format!("I {} {}", id, payload)], desc);
}

// ------------------------------------------------------------------ generators (generic stream)

fn dyadic_grid(r: &mut Rng, len: usize) -> Vec<f64> {
    let mut x = r.range(-80, 80) as f64 / 8.0;
    let mut v = vec![x];
    for _ in 1..len {
        x += r.range(1, 40) as f64 / 16.0;
        v.push(x);
    }
    v
}
fn next_up(x: f64) -> f64 {
    let b = x.to_bits();
    if x == 0.0 {
        f64::from_bits(1)
    } else if x > 0.0 {
        f64::from_bits(b + 1)
    } else {
        f64::from_bits(b - 1)
    }
}
fn next_down(x: f64) -> f64 {
    -next_up(-x)
}
fn inside(r: &mut Rng, g: &[f64]) -> f64 {
    let (lo, hi) = (g[0], g[g.len() - 1]);
    let v = lo + (hi - lo) * r.unit_f64();
    v.max(lo).min(hi)
}
fn inside_dyadic(r: &mut Rng, g: &[f64]) -> f64 {
    let i = r.below(g.len() as u64 - 1) as usize;
    g[i] + (g[i + 1] - g[i]) * (r.range(1, 7) as f64 / 8.0)
}

const QUERY_KINDS: [&str; 14] = [
    "inside", "inside-dyadic", "one-axis-on-line", "corner", "upper-one-axis", "upper-all", "lower-all",
    "outside-below", "outside-above", "wrong-length", "ulp-inside-boundary", "ulp-outside-boundary",
    "ulp-below-line", "ulp-above-line",
];

fn gen_point(r: &mut Rng, grid: &[Vec<f64>], kind: &str) -> Vec<f64> {
    let n = grid.len();
    let mut p: Vec<f64> = grid.iter().map(|g| if r.chance(1, 2) { inside(r, g) } else { inside_dyadic(r, g) }).collect();
    let a = r.below(n as u64) as usize;
    let last = |g: &Vec<f64>| g[g.len() - 1];
    match kind {
        "inside" => p = grid.iter().map(|g| inside(r, g)).collect(),
        "inside-dyadic" => p = grid.iter().map(|g| inside_dyadic(r, g)).collect(),
        "one-axis-on-line" => p[a] = grid[a][r.below(grid[a].len() as u64) as usize],
        "corner" => p = grid.iter().map(|g| g[r.below(g.len() as u64) as usize]).collect(),
        "upper-one-axis" => p[a] = last(&grid[a]),
        "upper-all" => p = grid.iter().map(last).collect(),
        "lower-all" => p = grid.iter().map(|g| g[0]).collect(),
        "outside-below" => p[a] = grid[a][0] - r.range(1, 400) as f64 / 16.0,
        "outside-above" => p[a] = last(&grid[a]) + r.range(1, 400) as f64 / 16.0,
        "wrong-length" => {
            if r.chance(1, 2) {
                p.push(0.5)
            } else {
                p.pop();
            }
        }
        "ulp-inside-boundary" => p[a] = if r.chance(1, 2) { next_up(grid[a][0]) } else { next_down(last(&grid[a])) },
        "ulp-below-line" | "ulp-above-line" => {
            // one ulp to either side of a grid line (an interior one when the axis has one)
            let g = &grid[a];
            let k = if g.len() > 2 { 1 + r.below(g.len() as u64 - 2) as usize } else { r.below(2) as usize * (g.len() - 1) };
            let v = if kind == "ulp-below-line" { next_down(g[k]) } else { next_up(g[k]) };
            p[a] = v.max(g[0]).min(g[g.len() - 1]);
        }
        "ulp-outside-boundary" => p[a] = if r.chance(1, 2) { next_down(grid[a][0]) } else { next_up(last(&grid[a])) },
        _ => {}
    }
    p
}

fn gen_values(r: &mut Rng, grid: &[Vec<f64>]) -> (Vec<f64>, &'static str, Option<(f64, Vec<(f64, f64)>)>) {
    let shape: Vec<usize> = grid.iter().map(|g| g.len()).collect();
    let total: usize = shape.iter().product();
    // row-major index vectors
    let index_of = |flat: usize| -> Vec<usize> {
        let mut idx = vec![0usize; shape.len()];
        let mut f = flat;
        for k in (0..shape.len()).rev() {
            idx[k] = f % shape[k];
            f /= shape[k];
        }
        idx
    };
    match r.below(5) {
        3 => ((0..total).map(|_| r.range(0, 2) as f64).collect(), "small-int", None),
        4 => {
            // piecewise constant like a tree model: blocks of 2 indices per axis share a level
            let levels: Vec<f64> = (0..3).map(|_| r.range(-40, 40) as f64 / 4.0).collect();
            ((0..total).map(|t| levels[index_of(t).iter().map(|i| i / 2).sum::<usize>() % 3]).collect(), "locally-constant", None)
        }
        0 => ((0..total).map(|_| r.range(-6400, 6400) as f64 / 64.0).collect(), "dyadic", None),
        1 => ((0..total).map(|_| r.unit_f64() * 200.0 - 100.0).collect(), "arbitrary", None),
        _ => {
            // affine in each variable: c + prod_i (b_i + a_i x_i)
            let n = grid.len();
            let a: Vec<f64> = (0..n).map(|_| r.range(-8, 8) as f64 / 4.0).collect();
            let b: Vec<f64> = (0..n).map(|_| r.range(-8, 8) as f64 / 2.0).collect();
            let c = r.range(-20, 20) as f64;
            let mut out = Vec::with_capacity(total);
            let mut idx = vec![0usize; n];
            for _ in 0..total {
                let mut prod = 1.0;
                for k in 0..n {
                    prod *= b[k] + a[k] * grid[k][idx[k]];
                }
                out.push(c + prod);
                for k in (0..n).rev() {
                    idx[k] += 1;
                    if idx[k] < shape[k] {
                        break;
                    }
                    idx[k] = 0;
                }
            }
            let ab: Vec<(f64, f64)> = a.iter().cloned().zip(b.iter().cloned()).collect();
            (out, "multilinear", Some((c, ab)))
        }
    }
}

fn rand_generic(r: &mut Rng) -> GCase {
    let n = match r.below(20) {
        0..=4 => 1,
        5..=11 => 2,
        12..=16 => 3,
        _ => 4,
    };
    let maxlen = match n {
        1 | 2 => 9,
        3 => 6,
        _ => 4,
    };
    let mut grid: Vec<Vec<f64>> = (0..n).map(|_| { let l = r.range(2, maxlen as i64) as usize; dyadic_grid(r, l) }).collect();
    let (mut data, mut vk, mut ml) = gen_values(r, &grid);
    let shape: Vec<usize> = grid.iter().map(|g| g.len()).collect();
    if n >= 2 && r.chance(1, 5) {
        // cells with equal OPPOSITE corners that are not flat: square cells (same step on every axis) with
        // f = a + b (x0 - x1) (+ c x2 ...), or the saddle x0 + x1 - 2 x0 x1 on an integer grid
        let saddle = r.chance(1, 2);
        let h = if saddle { 1.0 } else { r.range(1, 16) as f64 / 8.0 };
        for (k, g) in grid.iter_mut().enumerate() {
            let x0 = if saddle && k < 2 { 0.0 } else { r.range(-16, 16) as f64 / 4.0 };
            for (i, x) in g.iter_mut().enumerate() {
                *x = x0 + h * i as f64;
            }
        }
        let (a, b) = (r.range(-20, 20) as f64 / 2.0, r.range(1, 8) as f64 / 2.0);
        let cs: Vec<f64> = (0..n).map(|_| r.range(-4, 4) as f64 / 2.0).collect();
        let total: usize = shape.iter().product();
        data = (0..total)
            .map(|t| {
                let mut idx = vec![0usize; n];
                let mut f = t;
                for k in (0..n).rev() {
                    idx[k] = f % shape[k];
                    f /= shape[k];
                }
                let x: Vec<f64> = (0..n).map(|k| grid[k][idx[k]]).collect();
                let rest: f64 = (2..n).map(|k| cs[k] * x[k]).sum();
                if saddle { x[0] + x[1] - 2.0 * x[0] * x[1] + rest } else { a + b * (x[0] - x[1]) + rest }
            })
            .collect();
        vk = if saddle { "saddle" } else { "antidiagonal-square" };
        ml = None;
    }
    let npts = 6;
    let mut pts = vec![];
    let mut tags = vec![];
    for _ in 0..npts {
        let k = *r.pick(&QUERY_KINDS);
        pts.push(gen_point(r, &grid, k));
        tags.push(k.to_string());
    }
    GCase { family: format!("random-{}", vk), grid, shape, data, pts, tags, ml }
}

fn det_generic() -> Vec<GCase> {
    let mut out = vec![];
    // every grid value, every midpoint, both boundaries and one step outside, for 2..9 points, 1-D and 2-D
    for len in 2..=9usize {
        let g: Vec<f64> = (0..len).map(|i| (i * i) as f64 / 4.0 - 1.0).collect();
        let f: Vec<f64> = (0..len).map(|i| ((i * 7) % 5) as f64 - 1.5).collect();
        let mut pts: Vec<Vec<f64>> = vec![];
        let mut tags = vec![];
        for i in 0..len {
            pts.push(vec![g[i]]);
            tags.push("corner".to_string());
            if i + 1 < len {
                pts.push(vec![(g[i] + g[i + 1]) / 2.0]);
                tags.push("inside-dyadic".to_string());
            }
        }
        pts.push(vec![g[0] - 0.5]);
        tags.push("outside-below".into());
        pts.push(vec![g[len - 1] + 0.5]);
        tags.push("outside-above".into());
        out.push(GCase { family: "sweep-1d".into(), grid: vec![g.clone()], shape: vec![len], data: f.clone(), pts: pts.clone(), tags: tags.clone(), ml: None });
        // 2-D: the same axis against a 3-point axis; queries sweep x on the line y = h[1], on y upper boundary and inside
        let h = vec![-0.5, 0.25, 2.0];
        let data: Vec<f64> = (0..len * 3).map(|k| ((k * 11) % 7) as f64 * 0.75 - 2.0).collect();
        let mut p2 = vec![];
        let mut t2 = vec![];
        for p in &pts {
            for (y, t) in [(h[1], "one-axis-on-line"), (h[2], "upper-one-axis"), (1.0, "inside-dyadic")] {
                p2.push(vec![p[0], y]);
                t2.push(t.to_string());
            }
        }
        out.push(GCase { family: "sweep-2d".into(), grid: vec![g.clone(), h], shape: vec![len, 3], data, pts: p2, tags: t2, ml: None });
    }
    // non-flat cells whose opposite corners coincide: f = 5 + 2x - 2y on square cells, the saddle x + y - 2xy,
    // a small-integer table; queries inside, on the cell border x = 1 and one ulp to either side of it
    {
        let g3 = vec![0.0, 1.0, 2.0];
        let mk = |f: &dyn Fn(f64, f64) -> f64| -> Vec<f64> { g3.iter().flat_map(|x| g3.iter().map(move |y| (*x, *y))).map(|(x, y)| f(x, y)).collect() };
        let mut pts: Vec<Vec<f64>> = vec![];
        let mut tags: Vec<String> = vec![];
        for y in [0.25, 0.5, 1.0, 1.75] {
            for (x, t) in [(0.25, "inside-dyadic"), (0.75, "inside-dyadic"), (next_down(1.0), "ulp-below-line"), (1.0, "one-axis-on-line"), (next_up(1.0), "ulp-above-line"), (1.5, "inside-dyadic")] {
                pts.push(vec![x, y]);
                tags.push(t.to_string());
            }
        }
        let tabs: Vec<(&str, Vec<f64>)> = vec![
            ("equal-opposite-corners-antidiagonal", mk(&|x, y| 5.0 + 2.0 * x - 2.0 * y)),
            ("equal-opposite-corners-saddle", mk(&|x, y| x + y - 2.0 * x * y)),
            ("equal-opposite-corners-small-int", vec![1.0, 0.0, 2.0, 2.0, 1.0, 0.0, 0.0, 2.0, 1.0]),
            ("locally-constant", vec![3.0, 3.0, 7.0, 3.0, 3.0, 7.0, 1.0, 1.0, 7.0]),
        ];
        for (fam, data) in tabs {
            out.push(GCase { family: fam.into(), grid: vec![g3.clone(), g3.clone()], shape: vec![3, 3], data, pts: pts.clone(), tags: tags.clone(), ml: None });
        }
    }
    // constructor validation
    let ok2 = vec![0.0, 1.0];
    out.push(GCase { family: "ctor-unsorted".into(), grid: vec![vec![0.0, 2.0, 1.0]], shape: vec![3], data: vec![1.0, 2.0, 3.0], pts: vec![vec![0.5]], tags: vec!["inside".into()], ml: None });
    out.push(GCase { family: "ctor-repeated".into(), grid: vec![vec![0.0, 1.0, 1.0], ok2.clone()], shape: vec![3, 2], data: vec![1.0; 6], pts: vec![vec![0.5, 0.5]], tags: vec!["inside".into()], ml: None });
    out.push(GCase { family: "ctor-shape".into(), grid: vec![vec![0.0, 1.0, 2.0], ok2.clone()], shape: vec![2, 2], data: vec![1.0; 4], pts: vec![vec![0.5, 0.5]], tags: vec!["inside".into()], ml: None });
    out.push(GCase { family: "ctor-shape".into(), grid: vec![ok2.clone(), ok2.clone(), vec![0.0, 1.0, 3.0]], shape: vec![2, 2, 2], data: vec![1.0; 8], pts: vec![vec![0.5, 0.5, 0.5]], tags: vec!["inside".into()], ml: None });
    // axes with a single point: the specialised interpolators underflow `len - 2`; InterpND pins the axis
    out.push(GCase { family: "single-point-axis".into(), grid: vec![vec![5.0], ok2.clone()], shape: vec![1, 2], data: vec![1.0, 2.0], pts: vec![vec![5.0, 0.5], vec![5.0, 1.0], vec![4.0, 0.5]], tags: vec!["one-axis-on-line".into(), "corner".into(), "outside-below".into()], ml: None });
    out.push(GCase { family: "single-point-axis".into(), grid: vec![vec![5.0]], shape: vec![1], data: vec![1.0], pts: vec![vec![5.0], vec![], vec![4.0]], tags: vec!["corner".into(), "wrong-length".into(), "outside-below".into()], ml: None });
    out.push(GCase { family: "single-point-axis".into(), grid: vec![vec![5.0], vec![7.0]], shape: vec![1, 1], data: vec![1.0], pts: vec![vec![5.0, 7.0], vec![]], tags: vec!["corner".into(), "wrong-length".into()], ml: None });
    // NaN in the table: InterpND refuses, the specialised interpolators propagate
    out.push(GCase { family: "nan-table".into(), grid: vec![ok2.clone(), ok2.clone()], shape: vec![2, 2], data: vec![1.0, f64::NAN, 2.0, 3.0], pts: vec![vec![0.5, 0.5], vec![0.0, 0.0], vec![0.0, 1.0], vec![0.5, 0.0]], tags: vec!["inside".into(), "corner".into(), "corner".into(), "one-axis-on-line".into()], ml: None });
    // NaN / infinite query
    out.push(GCase { family: "nan-query".into(), grid: vec![vec![0.0, 1.0, 2.0]], shape: vec![3], data: vec![1.0, 2.0, 4.0], pts: vec![vec![f64::NAN], vec![f64::INFINITY], vec![f64::NEG_INFINITY]], tags: vec!["outside-above".into(), "outside-above".into(), "outside-below".into()], ml: None });
    out
}

// ------------------------------------------------------------------ speed / grade stream

const FILES: [&str; 4] = [
    "Toyota_Camry.bin",
    "2017_CHEVROLET_Bolt.bin",
    "2016_CHEVROLET_Volt_Charge_Depleting.bin",
    "2016_CHEVROLET_Volt_Charge_Sustaining.bin",
];
const SU: [SpeedUnit; 3] = [SpeedUnit::MilesPerHour, SpeedUnit::KilometersPerHour, SpeedUnit::MetersPerSecond];
const GU: [GradeUnit; 3] = [GradeUnit::Decimal, GradeUnit::Percent, GradeUnit::Millis];
const EU: [EnergyRateUnit; 5] = [
    EnergyRateUnit::GallonsGasolinePerMile,
    EnergyRateUnit::KilowattHoursPerMile,
    EnergyRateUnit::GallonsDieselPerMile,
    EnergyRateUnit::KilowattHoursPerKilometer,
    EnergyRateUnit::KilowattHoursPerMeter,
];

#[derive(Clone, Debug, serde::Serialize, serde::Deserialize)]
struct SCase {
    family: String,
    file: usize,
    su: usize,
    gu: usize,
    eu: usize,
    s_lo: f64,
    s_hi: f64,
    s_bins: usize,
    g_lo: f64,
    g_hi: f64,
    g_bins: usize,
    via_ops: bool,
    /// sequence case: every call on the shared instance is also asked of a fresh instance built for that call alone
    #[serde(default)]
    fresh_check: bool,
    /// built through the configuration path: VehicleBuilder::build on a JSON vehicle entry (get_model_record_from_params)
    #[serde(default)]
    via_config: bool,
    /// nested declaration: the underlying model of the (outer) grid is itself an interpolated model with these
    /// (coarse) bounds and bins over smartcore: (s_lo, s_hi, s_bins, g_lo, g_hi, g_bins)
    #[serde(default)]
    inner: Option<(f64, f64, usize, f64, f64, usize)>,
    /// float_cache_policy enabled on the interpolated model's record: key precisions (cache_size 10000)
    #[serde(default)]
    cache: Option<Vec<i32>>,
    /// (raw speed, unit index, raw grade, unit index, kind)
    queries: Vec<(f64, usize, f64, usize, String)>,
}

fn model_dir() -> PathBuf {
    let repo = std::env::var("VERIF_REPO").unwrap_or_else(|_| "/repo".to_string());
    PathBuf::from(repo).join("rust/routee-compass-powertrain/src/routee/test")
}

/// a vehicle built by the configuration path, seen as a PredictionModel: energy consumed over one distance unit
/// from an empty state = the rate of the vehicle's prediction model record (checked bit for bit on the underlying model)
struct ConfigVehicle {
    vehicle: Arc<dyn VehicleType>,
    sm: StateModel,
    eu: EnergyRateUnit,
}
impl PredictionModel for ConfigVehicle {
    fn predict(&self, speed: (Speed, SpeedUnit), grade: (Grade, GradeUnit)) -> Result<(EnergyRate, EnergyRateUnit), TraversalModelError> {
        let mut state = self.sm.initial_state().map_err(|e| TraversalModelError::BuildError(e.to_string()))?;
        self.vehicle.consume_energy(speed, grade, (Distance::new(1.0), self.eu.associated_distance_unit()), &mut state, &self.sm)?;
        let e = self
            .sm
            .get_energy(&state, &"energy_liquid".to_string(), &self.eu.associated_energy_unit())
            .map_err(|e| TraversalModelError::BuildError(e.to_string()))?;
        Ok((EnergyRate::new(e.as_f64()), self.eu))
    }
}

fn interp_type(under: ModelType, b: (f64, f64, usize, f64, f64, usize)) -> ModelType {
    ModelType::Interpolate {
        underlying_model_type: Box::new(under),
        speed_lower_bound: Speed::new(b.0),
        speed_upper_bound: Speed::new(b.1),
        speed_bins: b.2,
        grade_lower_bound: Grade::new(b.3),
        grade_upper_bound: Grade::new(b.4),
        grade_bins: b.5,
    }
}

fn emit_sg(st: &mut Stream, c: &SCase, gen: serde_json::Value) {
    let id = st.next_id();
    let path = model_dir().join(FILES[c.file]);
    let (su, gu, eu) = (SU[c.su], GU[c.gu], EU[c.eu]);
    // the underlying model, loaded by the harness and sampled exactly as `new` does: unit distance through the record
    let under_type = match c.inner {
        None => ModelType::Smartcore,
        Some(b) => interp_type(ModelType::Smartcore, b),
    };
    let outer = (c.s_lo, c.s_hi, c.s_bins, c.g_lo, c.g_hi, c.g_bins);
    let under = load_prediction_model("u".to_string(), &path, under_type.clone(), su, gu, eu, Some(EnergyRate::new(0.0)), None, None)
        .expect("declared underlying model loads");
    let du = eu.associated_distance_unit();
    let xs = catch(|| linspace(c.s_lo, c.s_hi, c.s_bins));
    let ys = catch(|| linspace(c.g_lo, c.g_hi, c.g_bins));
    let mut samples: Vec<((f64, f64), R)> = vec![];
    let mut tab: Vec<Vec<f64>> = vec![];
    let mut rate_equals_energy = true;
    if let (Ok(xs), Ok(ys)) = (&xs, &ys) {
        for &s in xs {
            let mut row = vec![];
            for &g in ys {
                let r: R = catch(std::panic::AssertUnwindSafe(|| {
                    under
                        .predict((Speed::new(s), su), (Grade::new(g), gu), (Distance::new(1.0), du))
                        .map(|(e, _)| e.as_f64())
                        .map_err(|e| e.to_string())
                }));
                // table = predictor at unit distance: energy for one distance unit is the rate itself
                if let (Ok(Ok(e)), Ok((rate, _))) = (&r, under.prediction_model.predict((Speed::new(s), su), (Grade::new(g), gu))) {
                    if e.to_bits() != rate.as_f64().to_bits() {
                        rate_equals_energy = false;
                    }
                    row.push(*e);
                }
                samples.push(((s, g), r));
            }
            tab.push(row);
        }
    }
    // the real interpolated model
    let build_model = || -> Result<Result<Arc<dyn PredictionModel>, String>, String> {
        catch(std::panic::AssertUnwindSafe(|| {
            if c.via_config {
                // the configuration path: a JSON vehicle entry -> VehicleBuilder::build -> get_model_record_from_params
                let entry = json!({
                    "name": "cfg", "type": "ice",
                    "model_input_file": path.to_string_lossy(),
                    "model_type": serde_json::to_value(interp_type(under_type.clone(), outer)).unwrap(),
                    "speed_unit": serde_json::to_value(su).unwrap(),
                    "grade_unit": serde_json::to_value(gu).unwrap(),
                    "energy_rate_unit": serde_json::to_value(eu).unwrap(),
                    "ideal_energy_rate": 0.0,
                    "real_world_energy_adjustment": 1.0
                });
                let mut entry = entry;
                if let Some(kp) = &c.cache {
                    entry["float_cache_policy"] = json!({"cache_size": 10000, "key_precisions": kp});
                }
                let vehicle = VehicleBuilder::ICE.build(&entry).map_err(|e| e.to_string())?;
                let sm = StateModel::new(vehicle.state_features());
                Ok(Arc::new(ConfigVehicle { vehicle, sm, eu }) as Arc<dyn PredictionModel>)
            } else if c.via_ops {
                let cache = match &c.cache {
                    Some(kp) => Some(FloatCachePolicy::from_config(FloatCachePolicyConfig { cache_size: 10000, key_precisions: kp.clone() }).map_err(|e| e.to_string())?),
                    None => None,
                };
                load_prediction_model("i".to_string(), &path, interp_type(under_type.clone(), outer), su, gu, eu, Some(EnergyRate::new(0.0)), None, cache)
                    .map(|rec| rec.prediction_model.clone())
                    .map_err(|e| e.to_string())
            } else {
                InterpolationSpeedGradeModel::new(
                    &path,
                    under_type.clone(),
                    "i".to_string(),
                    su,
                    (Speed::new(c.s_lo), Speed::new(c.s_hi)),
                    c.s_bins,
                    gu,
                    (Grade::new(c.g_lo), Grade::new(c.g_hi)),
                    c.g_bins,
                    eu,
                )
                .map(|m| Arc::new(m) as Arc<dyn PredictionModel>)
                .map_err(|e| e.to_string())
            }
        }))
    };
    let built = build_model();
    let mut history_dependent: Vec<String> = vec![];
    let mut conv_s: Vec<(f64, f64)> = vec![];
    let mut conv_g: Vec<(f64, f64)> = vec![];
    let mut cq: Vec<(f64, f64)> = vec![];
    let mut outs: Vec<R> = vec![];
    let payload;
    match &built {
        Err(_) => payload = "new=Panic".to_string(),
        Ok(Err(e)) => {
            let cls = if e.contains("cannot be empty") {
                "empty"
            } else if e.contains("sorted and non-repeating") {
                "unsorted"
            } else if e.contains("not compatible shapes") {
                "shape"
            } else {
                "other"
            };
            payload = format!("new=Err {}", cls)
        }
        Ok(Ok(model)) => {
            for (k, (ars, arsu, arg, argu, _k)) in c.queries.iter().enumerate() {
                // record-level float cache (config path): the documented key of an input is round-half-away-from-zero of
                // value * 10^precision per component; an input whose key was seen earlier in this sequence is answered
                // with the stored answer of the FIRST input of that key, every other input with its own answer
                let key = |q: &(f64, usize, f64, usize, String)| -> Option<(i64, i64)> {
                    let kp = c.cache.as_ref()?;
                    Some(((q.0 * 10f64.powi(kp[0])).round() as i64, (q.2 * 10f64.powi(kp[1])).round() as i64))
                };
                let eff = if c.via_config && c.cache.is_some() {
                    (0..=k).find(|i| key(&c.queries[*i]) == key(&c.queries[k])).unwrap_or(k)
                } else {
                    k
                };
                if eff != k {
                    st.count("cached-record:answer-of-an-earlier-input-with-the-same-key");
                }
                let (rs, rsu, rg, rgu, _) = &c.queries[eff];
                let _ = (arsu, argu);
                let (qsu, qgu) = (SU[*rsu], GU[*rgu]);
                let sv = qsu.convert(&Speed::new(*rs), &su).as_f64();
                let gv = qgu.convert(&Grade::new(*rg), &gu).as_f64();
                conv_s.push((*rs, sv));
                conv_g.push((*rg, gv));
                cq.push((sv, gv));
                let r: R = catch(std::panic::AssertUnwindSafe(|| {
                    model
                        .predict((Speed::new(*ars), SU[*arsu]), (Grade::new(*arg), GU[*argu]))
                        .map(|(e, u)| {
                            assert_eq!(u, eu);
                            e.as_f64()
                        })
                        .map_err(|e| e.to_string())
                }));
                let r = match r {
                    Ok(Err(m)) => Ok(Err(m.replace("Failed to interpolate speed/grade model output during prediction: ", ""))),
                    x => x,
                };
                if c.fresh_check {
                    // the k-th answer of a sequence of calls on one instance must be the answer of that call alone
                    if let Ok(Ok(fresh)) = build_model() {
                        let f: R = catch(std::panic::AssertUnwindSafe(|| {
                            fresh
                                .predict((Speed::new(*rs), qsu), (Grade::new(*rg), qgu))
                                .map(|(e, _)| e.as_f64())
                                .map_err(|e| e.to_string().replace("Failed to interpolate speed/grade model output during prediction: ", ""))
                        }));
                        if show_r(&f) != show_r(&r) {
                            history_dependent.push(format!("call{}:shared={},fresh={}", outs.len(), show_r(&r), show_r(&f)));
                        }
                    }
                }
                outs.push(r);
            }
            let xs = xs.clone().unwrap();
            let ys = ys.clone().unwrap();
            payload = format!(
                "x={} y={} {}",
                show_list(&xs, |v| show_f64(*v)),
                show_list(&ys, |v| show_f64(*v)),
                outs.iter().map(show_r).collect::<Vec<_>>().join(";")
            );
        }
    }
    let pair = |l: &[(f64, f64)]| coq_list(l, |(a, b)| format!("({}, {})", coq_f64(*a), coq_f64(*b)));
    let samples_coq = coq_list(&samples, |((s, g), r)| format!("(({}, {}), {})", coq_f64(*s), coq_f64(*g), coq_r(r)));
    let qs: Vec<(f64, f64)> = if conv_s.len() == c.queries.len() {
        conv_s.iter().zip(conv_g.iter()).map(|(a, b)| (a.0, b.0)).collect() // the effective inputs (see the cache rule above)
    } else {
        c.queries.iter().map(|q| (q.0, q.2)).collect()
    };
    let mut terms = vec![format!(
        "line_sgm {} {} {} {} {} {} {} {} {} {} {}",
        id,
        samples_coq,
        pair(&conv_s),
        pair(&conv_g),
        coq_f64(c.s_lo),
        coq_f64(c.s_hi),
        coq_nat(c.s_bins),
        coq_f64(c.g_lo),
        coq_f64(c.g_hi),
        coq_nat(c.g_bins),
        pair(&qs)
    )];
    if let (Ok(Ok(_)), Ok(xs), Ok(ys)) = (&built, &xs, &ys) {
        terms.push(format!(
            "line_sgs {} {} {} {} {} {} {} {} {} {} {} {}",
            id,
            coq_f64(c.s_lo),
            coq_f64(c.s_hi),
            coq_nat(c.s_bins),
            coq_f64(c.g_lo),
            coq_f64(c.g_hi),
            coq_nat(c.g_bins),
            coq_fl(xs),
            coq_fl(ys),
            coq_fll(&tab),
            pair(&cq),
            coq_list(&outs, coq_r)
        ));
    }
    st.count(&format!("family:{}", c.family));
    st.count(&format!("vehicle:{}", FILES[c.file]));
    st.count(&format!("model-units:{}/{}", su, gu));
    st.count(&format!("bins:{}x{}", c.s_bins.min(9), c.g_bins.min(9)));
    st.count(if c.via_config { "built-by:VehicleBuilder::build(config entry)" } else if c.via_ops { "built-by:load_prediction_model" } else { "built-by:InterpolationSpeedGradeModel::new" });
    if c.inner.is_some() {
        st.count("nested:interpolate-over-interpolate-over-smartcore");
    }
    if !rate_equals_energy {
        st.count("unit-distance-energy-differs-from-rate");
    }
    let mut nontrivial = false;
    for q in &c.queries {
        st.count(&format!("query:{}", q.4));
        st.count(&format!("query-units:{}/{}", SU[q.1], GU[q.3]));
        if q.4 != "inside" {
            nontrivial = true;
        }
    }
    if nontrivial {
        st.mark_nontrivial(&format!("{:?}", c));
    }
    let desc = json!({"id": id, "family": c.family, "gen": gen, "case": c, "unit_distance_energy_equals_rate": rate_equals_energy});
    let payload = if rate_equals_energy { payload } else { format!("{} RATE!=ENERGY", payload) };
    let payload = if history_dependent.is_empty() { payload } else { format!("{} HISTORY-DEPENDENT[{}]", payload, history_dependent.join(" ")) };
    if c.fresh_check {
        st.count("sequence-cases-with-fresh-instance-check");
    }
    st.case(terms, vec![format!("I {} {}", id, payload)], desc);
}

/// value in unit `from` whose conversion to the model unit is (approximately) v
fn back_speed(v: f64, model: SpeedUnit, q: SpeedUnit) -> f64 {
    model.convert(&Speed::new(v), &q).as_f64()
}
fn back_grade(v: f64, model: GradeUnit, q: GradeUnit) -> f64 {
    model.convert(&Grade::new(v), &q).as_f64()
}

const SG_KINDS: [&str; 10] = [
    "inside", "inside", "grid-point", "grid-line-speed", "grid-line-grade", "upper-boundary", "outside-low",
    "outside-high", "outside-both", "far-outside",
];

fn gen_sg(r: &mut Rng, family: &str, s_bins: usize, g_bins: usize) -> SCase {
    let file = r.below(4) as usize;
    let (su, gu, eu) = (r.below(3) as usize, r.below(3) as usize, r.below(5) as usize);
    // bounds in model units: roughly 0..100 mph and -0.2..0.2 decimal, expressed in the chosen units
    let s_scale = [1.0, 1.6, 0.45][su];
    let g_scale = [1.0, 100.0, 1000.0][gu];
    let s_lo = (r.range(0, 40) as f64) * s_scale;
    let s_hi = s_lo + (r.range(8, 70) as f64) * s_scale * if r.chance(1, 4) { 1.0 / 3.0 } else { 1.0 };
    let g_lo = -(r.range(2, 25) as f64) / 100.0 * g_scale;
    let g_hi = (r.range(1, 25) as f64) / 100.0 * g_scale * if r.chance(1, 4) { 1.0 / 3.0 } else { 1.0 };
    let xs = linspace(s_lo, s_hi, s_bins);
    let ys = linspace(g_lo, g_hi, g_bins);
    let mut queries = vec![];
    for _ in 0..8 {
        let k = *r.pick(&SG_KINDS);
        let (mut qsu, mut qgu) = (r.below(3) as usize, r.below(3) as usize);
        let ins = |r: &mut Rng| s_lo + (s_hi - s_lo) * r.unit_f64();
        let ing = |r: &mut Rng| g_lo + (g_hi - g_lo) * r.unit_f64();
        let (mut sv, mut gv) = (ins(r), ing(r));
        match k {
            "grid-point" => {
                sv = xs[r.below(xs.len() as u64) as usize];
                gv = ys[r.below(ys.len() as u64) as usize];
                qsu = su;
                qgu = gu;
            }
            "grid-line-speed" => {
                sv = xs[r.below(xs.len() as u64) as usize];
                qsu = su;
            }
            "grid-line-grade" => {
                gv = ys[r.below(ys.len() as u64) as usize];
                qgu = gu;
            }
            "upper-boundary" => {
                sv = xs[xs.len() - 1];
                qsu = su;
                if r.chance(1, 2) {
                    gv = ys[ys.len() - 1];
                    qgu = gu;
                }
            }
            "outside-low" => {
                if r.chance(1, 2) {
                    sv = s_lo - (s_hi - s_lo) * r.unit_f64()
                } else {
                    gv = g_lo - (g_hi - g_lo) * r.unit_f64()
                }
            }
            "outside-high" => {
                if r.chance(1, 2) {
                    sv = s_hi + (s_hi - s_lo) * r.unit_f64()
                } else {
                    gv = g_hi + (g_hi - g_lo) * r.unit_f64()
                }
            }
            "outside-both" => {
                sv = if r.chance(1, 2) { s_lo - 1.0 - r.unit_f64() } else { s_hi + 1.0 + r.unit_f64() };
                gv = if r.chance(1, 2) { g_lo - r.unit_f64() * g_scale } else { g_hi + r.unit_f64() * g_scale };
            }
            "far-outside" => {
                sv = if r.chance(1, 2) { -1.0e6 } else { 1.0e9 };
                gv = if r.chance(1, 2) { -1.0e7 } else { 1.0e5 };
            }
            _ => {}
        }
        let rs = if qsu == su { sv } else { back_speed(sv, SU[su], SU[qsu]) };
        let rg = if qgu == gu { gv } else { back_grade(gv, GU[gu], GU[qgu]) };
        queries.push((rs, qsu, rg, qgu, k.to_string()));
    }
    let mut inner: Option<(f64, f64, usize, f64, f64, usize)> = None;
    if family == "nested" {
        // a coarse inner table (slightly wider than the outer grid) between the outer grid and smartcore
        let (ws, wg) = ((s_hi - s_lo) * 0.125, (g_hi - g_lo) * 0.125);
        inner = Some((s_lo - ws, s_hi + ws, r.range(2, 5) as usize, g_lo - wg, g_hi + wg, r.range(2, 4) as usize));
        for q in queries.iter_mut().take(3) {
            *q = (xs[r.below(xs.len() as u64) as usize], su, ys[r.below(ys.len() as u64) as usize], gu, "grid-point".to_string());
        }
    }
    if family == "config" {
        for q in queries.iter_mut().take(3) {
            *q = (xs[r.below(xs.len() as u64) as usize], su, ys[r.below(ys.len() as u64) as usize], gu, "grid-point".to_string());
        }
    }
    let mut fresh_check = false;
    if family == "sequence" {
        // one instance, 3-10 calls: consecutive calls re-use the SAME raw numbers under other units, repeat a call,
        // or keep the units and change the numbers
        fresh_check = true;
        let n_calls = r.range(3, 10) as usize;
        let mut seq: Vec<(f64, usize, f64, usize, String)> = vec![];
        // raw numbers that are meaningful in several units: a speed number inside the grid when read in the model unit
        let base = |r: &mut Rng| -> (f64, usize, f64, usize, String) {
            let sv = (s_lo + (s_hi - s_lo) * (r.range(1, 15) as f64 / 16.0) * 4.0).round() / 4.0;
            let gv = ((g_lo + (g_hi - g_lo) * (r.range(1, 15) as f64 / 16.0)) * 64.0).round() / 64.0;
            (sv, r.below(3) as usize, gv, r.below(3) as usize, "seq-start".to_string())
        };
        seq.push(base(r));
        while seq.len() < n_calls {
            let (ps, psu, pg, pgu, _) = seq[seq.len() - 1].clone();
            let other = |r: &mut Rng, u: usize| (u + 1 + r.below(2) as usize) % 3;
            let nxt = match r.below(6) {
                0 => (ps, other(r, psu), pg, pgu, "seq-same-numbers-other-speed-unit".to_string()),
                1 => (ps, psu, pg, other(r, pgu), "seq-same-numbers-other-grade-unit".to_string()),
                2 => (ps, other(r, psu), pg, other(r, pgu), "seq-same-numbers-both-units-changed".to_string()),
                3 => (ps, psu, pg, pgu, "seq-repeat".to_string()),
                4 => {
                    let b = base(r);
                    (b.0, psu, b.2, pgu, "seq-same-units-other-numbers".to_string())
                }
                _ => base(r),
            };
            seq.push(nxt);
        }
        queries = seq;
    }
    let _ = fresh_check;
    SCase { family: family.to_string(), file, su, gu, eu, s_lo, s_hi, s_bins, g_lo, g_hi, g_bins, via_ops: r.chance(1, 2), fresh_check, via_config: family == "config", inner, cache: None, queries }
}

fn det_sg() -> Vec<SCase> {
    let mut out = vec![];
    // the configuration of the repository's own test, coarsened, for every bundled vehicle: every grid point
    for file in 0..4 {
        let (s_bins, g_bins) = (5usize, 4usize);
        let xs = linspace(0.0, 100.0, s_bins);
        let ys = linspace(-0.2, 0.2, g_bins);
        let mut queries = vec![];
        for &x in &xs {
            for &y in &ys {
                queries.push((x, 0, y, 0, "grid-point".to_string()));
            }
        }
        queries.push((50.0, 0, 0.0, 1, "inside".to_string()));
        queries.push((150.0, 0, 30.0, 1, "outside-both".to_string()));
        queries.push((-3.0, 2, -300.0, 2, "outside-both".to_string()));
        out.push(SCase { family: "vehicle-grid-sweep".into(), file, su: 0, gu: 0, eu: if file == 0 { 0 } else { 1 }, s_lo: 0.0, s_hi: 100.0, s_bins, g_lo: -0.2, g_hi: 0.2, g_bins, via_ops: file % 2 == 0, fresh_check: false, via_config: false, inner: None, cache: None, queries });
    }
    // sequences of calls on ONE instance of the real smartcore-backed models (Bolt, Camry): the same raw numbers under
    // different units in consecutive calls, repeats, and the same units with other numbers
    for (file, eu) in [(1usize, 1usize), (0, 0)] {
        let sq = |s: f64, su: usize, g: f64, gu: usize, k: &str| (s, su, g, gu, k.to_string());
        let queries = vec![
            sq(60.0, 0, 0.0, 0, "seq-start"),
            sq(60.0, 1, 0.0, 0, "seq-same-numbers-other-speed-unit"),
            sq(25.0, 2, 3.0, 1, "seq-start"),
            sq(25.0, 0, 3.0, 1, "seq-same-numbers-other-speed-unit"),
            sq(25.0, 0, 3.0, 2, "seq-same-numbers-other-grade-unit"),
            sq(40.0, 0, -0.05, 0, "seq-same-units-other-numbers"),
            sq(40.0, 0, -0.05, 1, "seq-same-numbers-other-grade-unit"),
            sq(40.0, 0, -0.05, 0, "seq-same-numbers-other-grade-unit"),
            sq(40.0, 0, -0.05, 0, "seq-repeat"),
            sq(40.0, 1, -0.05, 2, "seq-same-numbers-both-units-changed"),
        ];
        out.push(SCase { family: "sequence-one-instance".into(), file, su: 0, gu: 0, eu, s_lo: 0.0, s_hi: 100.0, s_bins: 21, g_lo: -0.2, g_hi: 0.2, g_bins: 9, via_ops: file == 0, fresh_check: true, via_config: false, inner: None, cache: None, queries });
    }
    // the configuration path for every speed-unit x grade-unit pair of the model declaration: bounds written in the
    // model's own units (0..100 mph and -0.2..0.2 decimal expressed in them); every configured node, inside, outside
    for su in 0..3usize {
        for gu in 0..3usize {
            let (ss, gs) = ([1.0, 1.6, 0.45][su], [1.0, 100.0, 1000.0][gu]);
            let (s_lo, s_hi, g_lo, g_hi) = (0.0, 100.0 * ss, -0.2 * gs, 0.2 * gs);
            let (s_bins, g_bins) = (5usize, 3usize);
            let xs = linspace(s_lo, s_hi, s_bins);
            let ys = linspace(g_lo, g_hi, g_bins);
            let mut queries = vec![];
            for &x in &xs {
                for &y in &ys {
                    queries.push((x, su, y, gu, "grid-point".to_string()));
                }
            }
            queries.push((40.0 * ss, su, 0.05 * gs, gu, "inside".to_string()));
            queries.push((50.0, 0, 0.0, 0, "inside".to_string()));
            queries.push((150.0 * ss, su, 0.3 * gs, gu, "outside-both".to_string()));
            queries.push((-5.0 * ss, su, -0.5 * gs, gu, "outside-both".to_string()));
            out.push(SCase { family: "config-units".into(), file: (su + gu) % 4, su, gu, eu: 0, s_lo, s_hi, s_bins, g_lo, g_hi, g_bins, via_ops: false, fresh_check: false, via_config: true, inner: None, cache: None, queries });
        }
    }
    // nested declaration: a fine outer grid over a coarse 5x3 inner table over smartcore; at the outer nodes the value is
    // the INNER interpolated model's value
    for (k, (file, eu)) in [(0usize, 0usize), (1, 1), (2, 1)].into_iter().enumerate() {
        let (s_bins, g_bins) = (9usize, 7usize);
        let xs = linspace(5.0, 85.0, s_bins);
        let ys = linspace(-0.15, 0.15, g_bins);
        let mut queries = vec![];
        for &x in &xs {
            for &y in &ys {
                queries.push((x, 0, y, 0, "grid-point".to_string()));
            }
        }
        queries.push((33.0, 0, 0.02, 0, "inside".to_string()));
        queries.push((120.0, 0, 0.5, 0, "outside-both".to_string()));
        out.push(SCase { family: "nested-interpolate".into(), file, su: 0, gu: 0, eu, s_lo: 5.0, s_hi: 85.0, s_bins, g_lo: -0.15, g_hi: 0.15, g_bins, via_ops: k != 0, fresh_check: false, via_config: k == 2, inner: Some((0.0, 100.0, 5, -0.2, 0.2, 3)), cache: None, queries });
    }
    // float_cache_policy ENABLED on the interpolated model. (a) the cache must not influence the construction of the table:
    // key precisions coarser than the grid step ([0,2] on a 0.25 mph grid, [-1,1] on a 5 mph grid) and finer as control;
    // every node must return the uncached underlying value. (b) one cached record (config path): a sequence of inputs
    // around 0 (-0.02..0.02 step 0.01, repeats, inputs that share a key); each answer is the uncached answer of the first
    // input of its key (round half away from zero)
    {
        let all_nodes = |s_lo: f64, s_hi: f64, sb: usize, g_lo: f64, g_hi: f64, gb: usize| {
            let mut q = vec![];
            for &x in &linspace(s_lo, s_hi, sb) {
                for &y in &linspace(g_lo, g_hi, gb) {
                    q.push((x, 0usize, y, 0usize, "grid-point".to_string()));
                }
            }
            q
        };
        for (k, (kp, s_hi, sb)) in [(vec![0, 2], 10.0, 41usize), (vec![-1, 1], 100.0, 21), (vec![3, 5], 10.0, 41), (vec![0, 2], 10.0, 41)].into_iter().enumerate() {
            let queries = all_nodes(0.0, s_hi, sb, -0.2, 0.2, 5);
            out.push(SCase { family: "cache-table-construction".into(), file: k % 4, su: 0, gu: 0, eu: if k % 4 == 0 { 0 } else { 1 }, s_lo: 0.0, s_hi, s_bins: sb, g_lo: -0.2, g_hi: 0.2, g_bins: 5, via_ops: true, fresh_check: false, via_config: k == 3, inner: None, cache: Some(kp), queries });
        }
        for (file, eu) in [(1usize, 1usize), (0, 0)] {
            let mut queries = vec![];
            for g in [0.0, -0.01, 0.01, -0.02, 0.02, -0.004, 0.004, 0.0, -0.01, -0.014, 0.016] {
                queries.push((30.0, 0usize, g, 0usize, "cached-sequence-grade-around-0".to_string()));
            }
            for sp in [0.0, -0.01, 0.01, -0.02, 0.02, 0.004, 1.0, 0.99, 1.01, 0.0] {
                queries.push((sp, 0usize, 0.03, 0usize, "cached-sequence-speed-around-0".to_string()));
            }
            out.push(SCase { family: "cache-record-sequence".into(), file, su: 0, gu: 0, eu, s_lo: 0.0, s_hi: 100.0, s_bins: 21, g_lo: -0.2, g_hi: 0.2, g_bins: 9, via_ops: false, fresh_check: false, via_config: true, inner: None, cache: Some(vec![2, 2]), queries });
        }
    }
    // smallest grids and degenerate configurations
    let q = vec![(10.0, 0, 0.0, 0, "inside".to_string()), (0.0, 0, -0.1, 0, "grid-point".to_string()), (99.0, 0, 0.5, 0, "outside-high".to_string())];
    let qn = vec![(f64::NAN, 0, 0.0, 0, "nan-speed".to_string()), (10.0, 0, f64::NAN, 0, "nan-grade".to_string()), (f64::INFINITY, 0, f64::NEG_INFINITY, 0, "infinite".to_string())];
    out.push(SCase { family: "non-finite-query".into(), file: 0, su: 0, gu: 0, eu: 0, s_lo: 0.0, s_hi: 60.0, s_bins: 3, g_lo: -0.1, g_hi: 0.1, g_bins: 3, via_ops: false, fresh_check: false, via_config: false, inner: None, cache: None, queries: qn });
    out.push(SCase { family: "bins-2x2".into(), file: 0, su: 0, gu: 0, eu: 0, s_lo: 0.0, s_hi: 60.0, s_bins: 2, g_lo: -0.1, g_hi: 0.1, g_bins: 2, via_ops: false, fresh_check: false, via_config: false, inner: None, cache: None, queries: q.clone() });
    out.push(SCase { family: "bounds-reversed".into(), file: 0, su: 0, gu: 0, eu: 0, s_lo: 60.0, s_hi: 0.0, s_bins: 3, g_lo: -0.1, g_hi: 0.1, g_bins: 3, via_ops: true, fresh_check: false, via_config: false, inner: None, cache: None, queries: q.clone() });
    out.push(SCase { family: "bounds-equal".into(), file: 0, su: 0, gu: 0, eu: 0, s_lo: 30.0, s_hi: 30.0, s_bins: 3, g_lo: -0.1, g_hi: 0.1, g_bins: 3, via_ops: false, fresh_check: false, via_config: false, inner: None, cache: None, queries: q.clone() });
    out.push(SCase { family: "bins-1".into(), file: 0, su: 0, gu: 0, eu: 0, s_lo: 0.0, s_hi: 60.0, s_bins: 1, g_lo: -0.1, g_hi: 0.1, g_bins: 3, via_ops: false, fresh_check: false, via_config: false, inner: None, cache: None, queries: q.clone() });
    out
}

// ------------------------------------------------------------------ main

fn main() {
    silence_panics();
    let a = parse_args();
    let header = "From Coq Require Import ZArith List String Floats.\nFrom RC Require Import Base.Show Base.Res Base.Num Model.Interp Model.InterpRun.\nImport ListNotations InterpRun.\nOpen Scope Z_scope.";
    let name = if a.stream.is_empty() { "interp".to_string() } else { a.stream.clone() };
    let mut st = Stream::new(&a.out, &name, header, a.shards);
    if let Some(p) = &a.replay {
        st.full = true;
        let v: serde_json::Value = serde_json::from_str(&std::fs::read_to_string(p).unwrap()).unwrap();
        let gen = v["case"]["gen"].clone();
        let kind = gen["kind"].as_str().unwrap_or("");
        if name == "interp" {
            // the stored case itself when it is complete (finite numbers survive JSON exactly); else regenerate it
            let cj = &v["case"];
            let stored: Option<GCase> = (|| {
                Some(GCase {
                    family: cj["family"].as_str()?.to_string(),
                    grid: serde_json::from_value(cj["grid"].clone()).ok()?,
                    shape: serde_json::from_value(cj["shape"].clone()).ok()?,
                    data: serde_json::from_value(cj["values"].clone()).ok()?,
                    pts: serde_json::from_value(cj["points"].clone()).ok()?,
                    tags: serde_json::from_value(cj["query_kinds"].clone()).ok()?,
                    ml: serde_json::from_value(cj["multilinear_c_ab"].clone()).ok()?,
                })
            })();
            let c = if let Some(c) = stored {
                c
            } else if kind == "det" {
                det_generic()[gen["k"].as_u64().unwrap() as usize].clone()
            } else {
                let mut r = Rng(gen["state"].as_str().unwrap().parse::<u64>().unwrap());
                rand_generic(&mut r)
            };
            emit_generic(&mut st, &c, gen);
        } else {
            let stored: Option<SCase> = serde_json::from_value(v["case"]["case"].clone()).ok();
            let c: SCase = if let Some(c) = stored {
                c
            } else if kind == "det" {
                det_sg()[gen["k"].as_u64().unwrap() as usize].clone()
            } else {
                let mut r = Rng(gen["state"].as_str().unwrap().parse::<u64>().unwrap());
                let (sb, gb) = (gen["s_bins"].as_u64().unwrap() as usize, gen["g_bins"].as_u64().unwrap() as usize);
                let fam = gen["family"].as_str().unwrap_or("random").to_string();
                // consume what the generating run drew before gen_sg: the two bin counts and the family choice
                let _ = (r.range(2, 9), r.range(2, 9), r.below(6));
                gen_sg(&mut r, &fam, sb, gb)
            };
            emit_sg(&mut st, &c, gen);
        }
        st.finish();
        return;
    }
    let mut rng = Rng::new(a.seed);
    if name == "interp" {
        for (k, c) in det_generic().iter().enumerate() {
            emit_generic(&mut st, c, json!({"kind": "det", "k": k}));
        }
        while st.next_id() < a.n {
            let r = rng.fork();
            let state = r.0;
            let mut r = r;
            let c = rand_generic(&mut r);
            emit_generic(&mut st, &c, json!({"kind": "rand", "state": state.to_string()}));
        }
    } else {
        for (k, c) in det_sg().iter().enumerate() {
            emit_sg(&mut st, c, json!({"kind": "det", "k": k}));
        }
        while st.next_id() < a.n {
            let r = rng.fork();
            let state = r.0;
            let mut r = r;
            let (sb, gb) = (r.range(2, 9) as usize, r.range(2, 9) as usize);
            let fam = ["sequence", "sequence", "config", "nested", "random", "random"][r.below(6) as usize];
            let c = gen_sg(&mut r, fam, sb, gb);
            emit_sg(&mut st, &c, json!({"kind": "rand", "state": state.to_string(), "s_bins": sb, "g_bins": gb, "family": fam}));
        }
    }
    st.finish();
}
