//! C15 harness.
//! Stream `files`: edge / vertex lists are rendered as CSV files (plain, gzip with .gz, gzip WITHOUT the
//! extension; with / without trailing newline; LF or CRLF; shuffled columns, extra columns, padded fields;
//! explicit or scanned counts), loaded through the real `Graph::from_files` (or the config glue
//! `DefaultGraphBuilder::build`), and every accessor of the loaded graph is printed in the canonical format
//! of coq/Model/LoaderRun.v (`show_view`).
//! Stream `tables`: per-edge tables (speed, grade, road class, headings) written as files and loaded through
//! the readers the models use (`read_raw_file` + decoders, `SpeedTraversalEngine::new`, `from_csv`).
//! Distances / coordinates / table values are multiples of 1/4 and compared as 4x integers (exact).
use flate2::write::GzEncoder;
use flate2::Compression;
use routee_compass::app::compass::config::compass_configuration_error::CompassConfigurationError;
use routee_compass::app::compass::config::graph_builder::DefaultGraphBuilder;
use routee_compass_core::algorithm::search::direction::Direction;
use routee_compass_core::model::access::default::turn_delays::edge_heading::EdgeHeading;
use routee_compass_core::model::network::{Edge, EdgeId, Graph, NetworkError, Vertex, VertexId};
use routee_compass_core::model::traversal::default::speed_traversal_engine::SpeedTraversalEngine;
use routee_compass_core::model::unit::as_f64::AsF64;
use routee_compass_core::model::unit::{Grade, Speed, SpeedUnit};
use routee_compass_core::util::fs::{read_decoders, read_utils};
use serde::{Deserialize, Serialize};
use serde_json::json;
use std::io::Write as _;
use std::path::{Path, PathBuf};
use verif_harness::*;

type CMap = routee_compass_core::util::compact_ordered_hash_map::CompactOrderedHashMap<EdgeId, VertexId>;

// ------------------------------------------------------------------ case description
#[derive(Clone, Copy, Debug, Serialize, Deserialize, PartialEq)]
enum Fmt {
    Plain,
    GzExt,
    GzNoExt,
}
const FMTS: [Fmt; 3] = [Fmt::Plain, Fmt::GzExt, Fmt::GzNoExt];

/// how one CSV file is rendered
#[derive(Clone, Debug, Serialize, Deserialize)]
struct Layout {
    fmt: Fmt,
    trailing_newline: bool,
    crlf: bool,
    /// extra blank lines after the last row (counted by line_count, skipped by the CSV reader)
    blank_lines: usize,
    /// zero-byte file (no header)
    empty_file: bool,
    /// column order: a permutation of the required columns interleaved with extra columns ("+name")
    columns: Vec<String>,
    pad: bool,
    /// numbers written as 1225e-2 instead of 12.25
    exp_form: bool,
}

#[derive(Clone, Debug, Serialize, Deserialize)]
struct Case {
    /// (edge_id, src, dst, 4 x distance)
    erows: Vec<(usize, usize, usize, i64)>,
    /// (vertex_id, 4 x x, 4 x y)
    vrows: Vec<(usize, i64, i64)>,
    el: Layout,
    vl: Layout,
    ne: Option<usize>,
    nv: Option<usize>,
    via_builder: bool,
}

/// plausible aliases and near-misses of the real column names (extra columns with these names must be ignored)
const VALIAS: [&str; 22] = [
    "lon", "lat", "longitude", "latitude", "X", "Y", "x_coord", "y_coord", "x2", "y2", "id", "vertex", "vertex_uuid",
    "Vertex_Id", "vertex_id2", "vid", "node_id", "lng", "easting", "northing", " x", "y ",
];
const EALIAS: [&str; 24] = [
    "src", "dst", "source", "target", "from", "to", "length", "dist", "edge", "id", "src_vertex", "dst_vertex",
    "dst_vertex_id2", "src_vertex_id_old", "edge_id2", "Edge_Id", "eid", "distance_m", "Distance", "length_m", "u", "v",
    " distance", "edge_id ",
];
const ECOLS: [&str; 4] = ["edge_id", "src_vertex_id", "dst_vertex_id", "distance"];
const VCOLS: [&str; 3] = ["vertex_id", "x", "y"];

fn plain_layout(cols: &[&str]) -> Layout {
    Layout {
        fmt: Fmt::Plain,
        trailing_newline: true,
        crlf: false,
        blank_lines: 0,
        empty_file: false,
        columns: cols.iter().map(|s| s.to_string()).collect(),
        pad: false,
        exp_form: false,
    }
}

fn quarters(q: i64, exp_form: bool) -> String {
    if exp_form {
        return format!("{}e-2", q * 25);
    }
    let neg = q < 0;
    let a = q.abs();
    let frac = ["", ".25", ".5", ".75"][(a % 4) as usize];
    format!("{}{}{}", if neg { "-" } else { "" }, a / 4, frac)
}

/// the text of a CSV file and the number of lines BufRead::lines() yields for it (computed here from the
/// structure of the text, independently of the code under test)
fn render(l: &Layout, rows: &[Vec<(String, String)>]) -> (String, usize) {
    if l.empty_file {
        return (String::new(), 0);
    }
    let nl = if l.crlf { "\r\n" } else { "\n" };
    let mut lines: Vec<String> = vec![];
    lines.push(l.columns.iter().map(|c| c.trim_start_matches('+').to_string()).collect::<Vec<_>>().join(","));
    for (ri, r) in rows.iter().enumerate() {
        let fields: Vec<String> = l
            .columns
            .iter()
            .enumerate()
            .map(|(ci, c)| {
                let v = if let Some(x) = c.strip_prefix('+') {
                    // extra column. A name that is an alias / near-miss of a real column carries a NUMBER that no
                    // real column of that row holds (so a reader that takes it for the real one is seen);
                    // the other extra columns hold text, a number or nothing
                    if VALIAS.contains(&x) || EALIAS.contains(&x) {
                        format!("{}", 5000 + 7 * ri + ci)
                    } else {
                        match (ri + ci + x.len()) % 3 {
                            0 => format!("{}{}", x, ri),
                            1 => format!("{}", (ri * 7 + ci) as f64 / 8.0),
                            _ => String::new(),
                        }
                    }
                } else {
                    r.iter().find(|(k, _)| k == c).map(|(_, v)| v.clone()).unwrap_or_default()
                };
                if l.pad && !v.is_empty() {
                    format!(" {} ", v)
                } else {
                    v
                }
            })
            .collect();
        lines.push(fields.join(","));
    }
    let mut text = lines.join(nl);
    let mut count = lines.len();
    // blank lines are always terminated, so each of them is a line of its own for BufRead::lines()
    if l.trailing_newline || l.blank_lines > 0 {
        text.push_str(nl);
    }
    for _ in 0..l.blank_lines {
        count += 1;
        text.push_str(nl);
    }
    (text, count)
}

fn write_file(dir: &Path, stem: &str, fmt: Fmt, text: &str) -> PathBuf {
    let name = match fmt {
        Fmt::Plain => format!("{}.csv", stem),
        Fmt::GzExt => format!("{}.csv.gz", stem),
        Fmt::GzNoExt => format!("{}_gz_noext.csv", stem),
    };
    let p = dir.join(name);
    match fmt {
        Fmt::Plain => std::fs::write(&p, text).unwrap(),
        _ => {
            let f = std::fs::File::create(&p).unwrap();
            let mut enc = GzEncoder::new(f, Compression::default());
            enc.write_all(text.as_bytes()).unwrap();
            enc.finish().unwrap();
        }
    }
    p
}

// ------------------------------------------------------------------ canonical printing of the implementation
fn net_err(e: &NetworkError) -> &'static str {
    match e {
        NetworkError::EdgeNotFound(_) => "EdgeNotFound",
        NetworkError::VertexNotFound(_) => "VertexNotFound",
        NetworkError::AttributeError(_, _) => "AttributeError",
        NetworkError::DatasetError(_) => "DatasetError",
        NetworkError::IOError { .. } => "IOError",
        NetworkError::CsvError { .. } => "CsvError",
        NetworkError::InternalError(_) => "InternalError",
    }
}
fn q4(x: f64) -> String {
    let y = x * 4.0;
    if y.fract() == 0.0 && y.abs() < 1e15 {
        format!("{}", y as i64)
    } else {
        format!("f{}", show_f64(x))
    }
}
fn s_edge(e: &Edge) -> String {
    format!("{}:{}>{}@{}", e.edge_id.0, e.src_vertex_id.0, e.dst_vertex_id.0, q4(e.distance.as_f64()))
}
fn s_vertex(v: &Vertex) -> String {
    format!("{}({},{})", v.vertex_id.0, q4(v.x() as f64), q4(v.y() as f64))
}
fn s_vev(t: &(&Vertex, &Edge, &Vertex)) -> String {
    format!("{}-{}-{}", s_vertex(t.0), s_edge(t.1), s_vertex(t.2))
}
fn sr<T>(r: &Result<T, NetworkError>, f: impl Fn(&T) -> String) -> String {
    match r {
        Ok(t) => f(t),
        Err(e) => format!("!{}", net_err(e)),
    }
}
fn ids(l: &[EdgeId]) -> String {
    show_list(l, |e| e.0.to_string())
}

fn show_graph(g: &Graph) -> String {
    let ne = g.n_edges();
    let nv = g.n_vertices();
    let (al, rl) = (g.adj.len(), g.rev.len());
    let es: Vec<usize> = (0..ne + 2).collect();
    let vs: Vec<usize> = (0..nv + 2).collect();
    let avs: Vec<usize> = (0..nv.max(al).max(rl) + 2).collect();
    // the adjacency fields read through iter(): (edge, other end) in insertion order
    fn adjv(side: &[CMap], v: usize) -> Vec<(usize, usize)> {
        match side.get(v) {
            None => vec![],
            Some(m) => m.iter().map(|(e, o)| (e.0, o.0)).collect(),
        }
    }
    // same edge set? (edge, src, dst) triples described by adj and by rev: equal size and mutual inclusion
    let mut ta: Vec<(usize, usize, usize)> = vec![];
    for v in 0..al {
        for (e, d) in adjv(&g.adj, v) {
            ta.push((e, v, d));
        }
    }
    let mut tr: Vec<(usize, usize, usize)> = vec![];
    for v in 0..rl {
        for (e, s) in adjv(&g.rev, v) {
            tr.push((e, s, v));
        }
    }
    let same = ta.len() == tr.len() && ta.iter().all(|t| tr.contains(t)) && tr.iter().all(|t| ta.contains(t));
    // the same fields read through keys() + get(), and len()
    fn getv(side: &[CMap], v: usize) -> Vec<(usize, Option<usize>)> {
        match side.get(v) {
            None => vec![],
            Some(m) => m.keys().map(|k| (k.0, m.get(k).map(|x| x.0))).collect(),
        }
    }
    fn lenv(side: &[CMap], v: usize) -> usize {
        side.get(v).map(|m| m.len()).unwrap_or(0)
    }
    // the *_iter variants and the id ranges agree with the collecting accessors
    for &v in &avs {
        let o: Vec<EdgeId> = g.out_edges_iter(&VertexId(v)).cloned().collect();
        assert_eq!(o, g.out_edges(&VertexId(v)));
        let i: Vec<EdgeId> = g.incident_edges_iter(&VertexId(v), &Direction::Reverse).cloned().collect();
        assert_eq!(i, g.in_edges(&VertexId(v)));
    }
    assert_eq!(g.edge_ids().map(|e| e.0).collect::<Vec<_>>(), (0..ne).collect::<Vec<_>>());
    assert_eq!(g.vertex_ids().map(|v| v.0).collect::<Vec<_>>(), (0..nv).collect::<Vec<_>>());

    let dirs = [Direction::Forward, Direction::Reverse];
    let mut s = format!("ne={} nv={} al={} rl={}", ne, nv, al, rl);
    s += &format!(" E={}", show_list(&es, |i| sr(&g.get_edge(&EdgeId(*i)), |e| s_edge(e))));
    s += &format!(" V={}", show_list(&vs, |i| sr(&g.get_vertex(&VertexId(*i)), |v| s_vertex(v))));
    s += &format!(" out={}", show_list(&avs, |v| ids(&g.out_edges(&VertexId(*v)))));
    s += &format!(" in={}", show_list(&avs, |v| ids(&g.in_edges(&VertexId(*v)))));
    s += &format!(" adj={}", show_list(&avs, |v| show_list(&adjv(&g.adj, *v), |(e, d)| format!("{}>{}", e, d))));
    s += &format!(" rev={}", show_list(&avs, |v| show_list(&adjv(&g.rev, *v), |(e, d)| format!("{}<{}", e, d))));
    s += &format!(" ag={}", show_list(&avs, |v| show_list(&getv(&g.adj, *v), |(e, d)| format!("{}>{}", e, show_opt(d, |x| x.to_string())))));
    s += &format!(" rg={}", show_list(&avs, |v| show_list(&getv(&g.rev, *v), |(e, d)| format!("{}<{}", e, show_opt(d, |x| x.to_string())))));
    s += &format!(" deg={}", show_list(&avs, |v| format!("{}/{}", lenv(&g.adj, *v), lenv(&g.rev, *v))));
    s += &format!(
        " sd={}",
        show_list(&es, |i| format!(
            "{}>{}",
            sr(&g.src_vertex_id(&EdgeId(*i)), |v| v.0.to_string()),
            sr(&g.dst_vertex_id(&EdgeId(*i)), |v| v.0.to_string())
        ))
    );
    s += &format!(
        " iv={}",
        show_list(&es, |i| format!(
            "{}/{}",
            sr(&g.incident_vertex(&EdgeId(*i), &dirs[0]), |v| v.0.to_string()),
            sr(&g.incident_vertex(&EdgeId(*i), &dirs[1]), |v| v.0.to_string())
        ))
    );
    s += &format!(" tri={}", show_list(&es, |i| sr(&g.edge_triplet(&EdgeId(*i)), |t| s_vev(t))));
    s += &format!(" if={}", show_list(&avs, |v| ids(&g.incident_edges(&VertexId(*v), &dirs[0]))));
    s += &format!(" ir={}", show_list(&avs, |v| ids(&g.incident_edges(&VertexId(*v), &dirs[1]))));
    for (tag, d) in [("tf", &dirs[0]), ("tr", &dirs[1])] {
        s += &format!(
            " {}={}",
            tag,
            show_list(&avs, |v| sr(&g.incident_triplet_ids(&VertexId(*v), d), |l| show_list(l, |(a, e, b)| format!(
                "{}-{}-{}",
                a.0, e.0, b.0
            ))))
        );
    }
    for (tag, d) in [("af", &dirs[0]), ("ar", &dirs[1])] {
        s += &format!(
            " {}={}",
            tag,
            show_list(&avs, |v| sr(&g.incident_triplet_attributes(&VertexId(*v), d), |l| show_list(l, |t| s_vev(t))))
        );
    }
    s += &format!(" same={}", show_bool(same));
    s
}

// ------------------------------------------------------------------ one case of stream `files`
fn load(c: &Case, ep: &PathBuf, vp: &PathBuf) -> String {
    if c.via_builder {
        let mut params = json!({
            "edge_list_input_file": ep.to_str().unwrap(),
            "vertex_list_input_file": vp.to_str().unwrap(),
        });
        if let Some(n) = c.ne {
            params["n_edges"] = json!(n);
        }
        if let Some(n) = c.nv {
            params["n_vertices"] = json!(n);
        }
        match DefaultGraphBuilder::build(&params) {
            Ok(g) => show_graph(&g),
            Err(CompassConfigurationError::GraphError(e)) => format!("!{}", net_err(&e)),
            Err(e) => format!("!Config({})", e),
        }
    } else {
        match Graph::from_files(ep, vp, c.ne, c.nv, Some(false)) {
            Ok(g) => show_graph(&g),
            Err(e) => format!("!{}", net_err(&e)),
        }
    }
}

fn coq_onat(o: &Option<usize>) -> String {
    coq_opt(o, |n| coq_nat(*n))
}

fn add_files_case(st: &mut Stream, root: &Path, c: Case, family: &str) {
    let id = st.next_id();
    let dir = root.join("data").join(format!("case_{:05}", id));
    std::fs::create_dir_all(&dir).unwrap();
    let erows: Vec<Vec<(String, String)>> = c
        .erows
        .iter()
        .map(|(i, s, d, q)| {
            vec![
                ("edge_id".to_string(), i.to_string()),
                ("src_vertex_id".to_string(), s.to_string()),
                ("dst_vertex_id".to_string(), d.to_string()),
                ("distance".to_string(), quarters(*q, c.el.exp_form)),
            ]
        })
        .collect();
    let vrows: Vec<Vec<(String, String)>> = c
        .vrows
        .iter()
        .map(|(i, x, y)| {
            vec![
                ("vertex_id".to_string(), i.to_string()),
                ("x".to_string(), quarters(*x, c.vl.exp_form)),
                ("y".to_string(), quarters(*y, c.vl.exp_form)),
            ]
        })
        .collect();
    let (etext, elines) = render(&c.el, &erows);
    let (vtext, vlines) = render(&c.vl, &vrows);
    let ep = write_file(&dir, "edges", c.el.fmt, &etext);
    let vp = write_file(&dir, "vertices", c.vl.fmt, &vtext);

    let coq_e = coq_list(&c.erows, |(i, s, d, q)| {
        format!("({},{},{},{})", coq_nat(*i), coq_nat(*s), coq_nat(*d), coq_z(*q as i128))
    });
    let coq_v = coq_list(&c.vrows, |(i, x, y)| format!("({},{},{})", coq_nat(*i), coq_z(*x as i128), coq_z(*y as i128)));
    let args = format!(
        "{} {} {} {} {} {} {}",
        id,
        coq_e,
        coq_v,
        coq_nat(elines),
        coq_nat(vlines),
        coq_onat(&c.ne),
        coq_onat(&c.nv)
    );
    let terms = vec![format!("line_m {}", args), format!("line_s {}", args)];

    let (cc, e2, v2) = (c.clone(), ep.clone(), vp.clone());
    let out = catch(move || load(&cc, &e2, &v2)).unwrap_or_else(|e| format!("!Panic {}", e));

    // ---- histogram / non-triviality
    let nvr = c.vrows.len();
    let mut outd = vec![0usize; nvr.max(1)];
    let mut ind = vec![0usize; nvr.max(1)];
    let mut pairs = std::collections::BTreeSet::new();
    let (mut parallel, mut selfloop, mut oob) = (false, false, false);
    for (_, s, d, _) in &c.erows {
        if *s < nvr {
            outd[*s] += 1;
        } else {
            oob = true;
        }
        if *d < nvr {
            ind[*d] += 1;
        } else {
            oob = true;
        }
        if s == d {
            selfloop = true;
        }
        if !pairs.insert((*s, *d)) {
            parallel = true;
        }
    }
    let maxdeg = outd.iter().chain(ind.iter()).cloned().max().unwrap_or(0);
    let isolated = (0..nvr).any(|v| outd[v] == 0 && ind[v] == 0);
    let ids_ok = c.erows.iter().enumerate().all(|(i, r)| r.0 == i);
    let vids_ok = c.vrows.iter().enumerate().all(|(i, r)| r.0 == i);
    let inside = ids_ok
        && vids_ok
        && true
        && !c.el.empty_file
        && !c.vl.empty_file
        && c.el.blank_lines == 0
        && c.vl.blank_lines == 0
        && c.nv.map(|n| n == nvr).unwrap_or(true);
    st.count(&format!("family:{}", family));
    st.count(&format!("edge_fmt:{:?}", c.el.fmt));
    st.count(&format!("vertex_fmt:{:?}", c.vl.fmt));
    st.count(&format!("edge_trailing_newline:{}", c.el.trailing_newline));
    st.count(&format!("vertex_trailing_newline:{}", c.vl.trailing_newline));
    st.count(&format!("n_edges:{}", match c.ne { None => "scanned", Some(n) if n == c.erows.len() => "explicit_true", _ => "explicit_other" }));
    st.count(&format!("n_vertices:{}", match c.nv { None => "scanned", Some(n) if n == nvr => "explicit_true", _ => "explicit_other" }));
    st.count(&format!("max_degree:{}", if maxdeg > 12 { "13+".to_string() } else { maxdeg.to_string() }));
    st.count(&format!("edges:{}", (c.erows.len() + 9) / 10 * 10));
    let (format_ok, inside) = (inside, inside && !oob);
    st.count(&format!("inside_hypotheses:{}", inside));
    if format_ok && oob {
        st.count("documented_format_but_dangling_end_point(must_fail)");
    }
    st.count(&format!("via:{}", if c.via_builder { "DefaultGraphBuilder" } else { "Graph::from_files" }));
    if c.vl.columns.iter().any(|n| n.strip_prefix('+').map(|x| VALIAS.contains(&x)).unwrap_or(false)) {
        st.count("vertex_extra_column_named_like_alias");
    }
    if c.el.columns.iter().any(|n| n.strip_prefix('+').map(|x| EALIAS.contains(&x)).unwrap_or(false)) {
        st.count("edge_extra_column_named_like_alias");
    }
    if c.vl.columns != VCOLS.iter().map(|s| s.to_string()).collect::<Vec<_>>() {
        st.count("vertex_columns_shuffled_or_extra");
    }
    if c.el.columns != ECOLS.iter().map(|s| s.to_string()).collect::<Vec<_>>() {
        st.count("edge_columns_shuffled_or_extra");
    }
    for (k, b) in [("parallel_edges", parallel), ("self_loop", selfloop), ("isolated_vertex", isolated), ("end_point_out_of_range", oob),
        ("crlf", c.el.crlf || c.vl.crlf), ("padded_fields", c.el.pad || c.vl.pad), ("unsorted_ids", !(ids_ok && vids_ok))]
    {
        if b {
            st.count(k);
        }
    }
    if maxdeg >= 6 && inside {
        st.mark_nontrivial(&format!("{:?}", c));
    }
    let desc = json!({"id": id, "family": family, "stream": "files", "case": serde_json::to_value(&c).unwrap(),
        "files": [ep.to_str().unwrap(), vp.to_str().unwrap()]});
    st.case(terms, vec![format!("I {} {}", id, out)], desc);
}

// ------------------------------------------------------------------ generators (stream `files`)
fn shuffled_columns(r: &mut Rng, req: &[&str], extras: usize) -> Vec<String> {
    let mut cols: Vec<String> = req.iter().map(|s| s.to_string()).collect();
    r.shuffle(&mut cols);
    let plain = ["name", "z", "elev", "road", "note"];
    let alias: &[&str] = if req.len() == 3 { &VALIAS } else { &EALIAS };
    for k in 0..extras {
        let pos = r.below(cols.len() as u64 + 1) as usize;
        // two extra columns in three carry the name of an alias / near-miss of a real column
        let name = if r.chance(2, 3) { *r.pick(alias) } else { plain[k % plain.len()] };
        let name = format!("+{}", name);
        if !cols.contains(&name) {
            cols.insert(pos, name);
        }
    }
    cols
}
/// the real columns in the given order with ALL the given extra names inserted at position `pos`
fn with_extras_at(real: &[&str], extras: &[&str], pos: usize) -> Vec<String> {
    let mut cols: Vec<String> = real.iter().map(|s| s.to_string()).collect();
    for (k, e) in extras.iter().enumerate() {
        cols.insert(pos + k, format!("+{}", e));
    }
    cols
}
fn random_layout(r: &mut Rng, req: &[&str]) -> Layout {
    let mut l = plain_layout(req);
    l.fmt = *r.pick(&FMTS);
    l.trailing_newline = r.chance(1, 2);
    l.crlf = r.chance(1, 6);
    if r.chance(1, 2) {
        let extras = r.below(5) as usize;
        l.columns = shuffled_columns(r, req, extras);
    }
    l.pad = r.chance(1, 5);
    l.exp_form = r.chance(1, 8);
    l
}
fn vertices(r: &mut Rng, n: usize) -> Vec<(usize, i64, i64)> {
    (0..n).map(|i| (i, r.range(-480, 480), r.range(-360, 360))).collect()
}
/// a graph with hubs: vertex degrees from 0 to well above 5
fn random_graph(r: &mut Rng) -> (Vec<(usize, usize, usize, i64)>, Vec<(usize, i64, i64)>) {
    let n = match r.below(10) {
        0 => r.below(3) as usize,
        1..=5 => 3 + r.below(8) as usize,
        _ => 8 + r.below(10) as usize,
    };
    let vr = vertices(r, n);
    if n == 0 {
        return (vec![], vr);
    }
    let m = match r.below(8) {
        0 => r.below(4) as usize,
        1..=4 => 5 + r.below(25) as usize,
        _ => 20 + r.below(45) as usize,
    };
    // vertices 0..live take part; the rest stay isolated
    let live = if r.chance(1, 3) && n > 2 { n - 1 - r.below((n / 3).max(1) as u64) as usize } else { n };
    let hub_out = r.below(live as u64) as usize;
    let hub_in = r.below(live as u64) as usize;
    let mut es: Vec<(usize, usize)> = vec![];
    for _ in 0..m {
        let s = if r.chance(2, 5) { hub_out } else { r.below(live as u64) as usize };
        let d = if r.chance(2, 5) { hub_in } else { r.below(live as u64) as usize };
        es.push((s, d));
    }
    if r.chance(1, 4) && !es.is_empty() {
        let k = r.below(es.len() as u64) as usize;
        let e = es[k];
        es.push(e); // parallel edge
    }
    if r.chance(1, 4) {
        let v = r.below(live as u64) as usize;
        es.push((v, v)); // self loop
    }
    r.shuffle(&mut es);
    let er = es.into_iter().enumerate().map(|(i, (s, d))| (i, s, d, r.range(0, 4000))).collect();
    (er, vr)
}

fn base_case(er: Vec<(usize, usize, usize, i64)>, vr: Vec<(usize, i64, i64)>) -> Case {
    Case { erows: er, vrows: vr, el: plain_layout(&ECOLS), vl: plain_layout(&VCOLS), ne: None, nv: None, via_builder: false }
}
/// hub 0 with out-degree d and in-degree d2 over n vertices (deterministic)
fn star(n: usize, d: usize, d2: usize) -> Case {
    let mut er = vec![];
    for k in 0..d {
        er.push((er.len(), 0, 1 + k % (n - 1), 4 * k as i64 + 1));
    }
    for k in 0..d2 {
        er.push((er.len(), 1 + (k * 2) % (n - 1), 0, 4 * k as i64 + 2));
    }
    let vr = (0..n).map(|i| (i, i as i64 * 5 - 7, 3 - i as i64 * 2)).collect();
    base_case(er, vr)
}

/// corpus/C15/<stream>_*.json (witnesses of fixed defects and of the mutations tried), replayed first
fn corpus_cases(a: &Args, stream: &str) -> Vec<(String, serde_json::Value)> {
    let mut out = vec![];
    let mut it = a.extra.iter();
    while let Some(x) = it.next() {
        if x == "--corpus" {
            if let Some(dir) = it.next() {
                let mut names: Vec<PathBuf> = std::fs::read_dir(dir).map(|d| d.filter_map(|e| e.ok().map(|e| e.path())).collect()).unwrap_or_default();
                names.sort();
                for p in names {
                    let n = p.file_name().unwrap().to_str().unwrap().to_string();
                    if n.starts_with(&format!("{}_", stream)) && n.ends_with(".json") {
                        let v: serde_json::Value = serde_json::from_str(&std::fs::read_to_string(&p).unwrap()).unwrap();
                        out.push((format!("corpus:{}", &n[..n.len() - 5]), v["case"]["case"].clone()));
                    }
                }
            }
        }
    }
    out
}

fn files_stream(a: &Args) {
    let header = "From Coq Require Import ZArith List String.\nFrom RC Require Import Base.Show Model.Loader Model.LoaderRun.\nImport ListNotations.";
    let mut st = Stream::new(&a.out, "files", header, a.shards);
    let root = a.out.clone();
    if let Some(p) = &a.replay {
        st.full = true;
        let v: serde_json::Value = serde_json::from_str(&std::fs::read_to_string(p).unwrap()).unwrap();
        let c: Case = serde_json::from_value(v["case"]["case"].clone()).unwrap();
        add_files_case(&mut st, &root, c, "replay");
        st.finish();
        return;
    }
    for (name, v) in corpus_cases(a, "files") {
        let c: Case = serde_json::from_value(v).unwrap();
        add_files_case(&mut st, &root, c, &name);
    }
    // ---- deterministic boundary families ----
    // degrees 0..9 out and in (the container changes representation at 5), every file format
    for d in 0..=9usize {
        for (k, f) in FMTS.iter().enumerate() {
            let mut c = star(6, d, (d + k) % 10);
            c.el.fmt = *f;
            c.vl.fmt = FMTS[(k + d) % 3];
            c.el.trailing_newline = d % 2 == 0;
            c.vl.trailing_newline = (d + k) % 2 == 0;
            add_files_case(&mut st, &root, c, "star_degree_x_format");
        }
    }
    // all format / trailing newline combinations of both files on one degree-7 network
    for ef in FMTS {
        for vf in FMTS {
            for bits in 0..4 {
                let mut c = star(5, 7, 6);
                c.el.fmt = ef;
                c.vl.fmt = vf;
                c.el.trailing_newline = bits & 1 == 1;
                c.vl.trailing_newline = bits & 2 == 2;
                add_files_case(&mut st, &root, c, "format_x_newline");
            }
        }
    }
    // k parallel edges, k self loops
    for k in 1..=8usize {
        let vr: Vec<(usize, i64, i64)> = (0..3).map(|i| (i, i as i64, -(i as i64))).collect();
        let par = (0..k).map(|i| (i, 0, 1, 10 + i as i64)).collect();
        add_files_case(&mut st, &root, base_case(par, vr.clone()), "parallel_edges");
        let lo = (0..k).map(|i| (i, 1, 1, 10 + i as i64)).collect();
        let mut c = base_case(lo, vr);
        c.el.fmt = FMTS[k % 3];
        add_files_case(&mut st, &root, c, "self_loops");
    }
    // no edges / no vertices / header only / zero-byte files, scanned and explicit
    for fmt in FMTS {
        let mut c = base_case(vec![], vec![]);
        c.el.fmt = fmt;
        c.vl.fmt = fmt;
        add_files_case(&mut st, &root, c.clone(), "header_only");
        c.el.trailing_newline = false;
        c.vl.trailing_newline = false;
        add_files_case(&mut st, &root, c.clone(), "header_only");
        let mut c2 = base_case(vec![], (0..4).map(|i| (i, i as i64, 1)).collect());
        c2.vl.fmt = fmt;
        add_files_case(&mut st, &root, c2, "isolated_vertices_only");
        let mut z = base_case(vec![], vec![]);
        z.el.empty_file = true;
        z.el.fmt = fmt;
        add_files_case(&mut st, &root, z.clone(), "zero_byte_file");
        z.ne = Some(0);
        add_files_case(&mut st, &root, z.clone(), "zero_byte_file");
        let mut z2 = base_case(vec![], vec![]);
        z2.vl.empty_file = true;
        z2.vl.fmt = fmt;
        add_files_case(&mut st, &root, z2.clone(), "zero_byte_file");
        z2.nv = Some(0);
        add_files_case(&mut st, &root, z2, "zero_byte_file");
    }
    // explicit counts: true, wrong edge count (ignored by the code), wrong vertex count
    for (ne, nv) in [(Some(13), Some(5)), (Some(0), None), (Some(3000), Some(5)), (None, Some(5)), (None, Some(3)), (None, Some(9)), (Some(13), Some(0))] {
        for via in [false, true] {
            let mut c = star(5, 7, 6);
            c.ne = ne;
            c.nv = nv;
            c.via_builder = via;
            c.el.fmt = Fmt::GzNoExt;
            add_files_case(&mut st, &root, c, "explicit_counts");
        }
    }
    // end points outside the vertex list (scanned counts)
    for (s, d) in [(0usize, 7usize), (7, 0), (7, 8), (4, 4), (5, 5)] {
        let mut c = star(5, 6, 2);
        let k = c.erows.len();
        c.erows.push((k, s, d, 9));
        c.erows.push((k + 1, 0, 1, 10));
        add_files_case(&mut st, &root, c, "end_point_out_of_range");
    }
    // rows not in id order / duplicate ids (outside the documented format: model-only comparison)
    {
        let mut c = star(5, 6, 3);
        c.vrows.swap(0, 3);
        add_files_case(&mut st, &root, c, "unsorted_vertex_rows");
        let mut c = star(5, 6, 3);
        c.vrows.reverse();
        c.vl.fmt = Fmt::GzExt;
        add_files_case(&mut st, &root, c, "unsorted_vertex_rows");
        let mut c = star(5, 6, 3);
        c.erows.swap(1, 7);
        add_files_case(&mut st, &root, c, "unsorted_edge_rows");
        let mut c = star(5, 7, 0);
        c.erows[6].0 = 2; // same id twice from the same source: the map entry is overwritten in place
        add_files_case(&mut st, &root, c, "duplicate_edge_ids");
        let mut c = star(5, 3, 0);
        c.erows[2].0 = 0;
        add_files_case(&mut st, &root, c, "duplicate_edge_ids");
        let mut c = star(5, 2, 2);
        for r in c.erows.iter_mut() {
            r.0 += 10; // ids that are not indices at all
        }
        add_files_case(&mut st, &root, c, "unsorted_edge_rows");
    }
    // blank lines after the last row: counted as lines, not rows
    for (eb, vb, nl) in [(1usize, 0usize, true), (0, 1, true), (2, 2, true), (1, 1, false)] {
        let mut c = star(4, 6, 1);
        c.el.blank_lines = eb;
        c.vl.blank_lines = vb;
        c.el.trailing_newline = nl;
        c.vl.trailing_newline = nl;
        add_files_case(&mut st, &root, c, "blank_trailing_lines");
    }
    // extra columns NAMED like aliases / near-misses of the real columns, holding other numbers, in every
    // position (before, between, after the real columns) and for several orders of the real columns
    {
        let vorders: [[&str; 3]; 3] = [["vertex_id", "x", "y"], ["y", "vertex_id", "x"], ["x", "y", "vertex_id"]];
        for (oi, real) in vorders.iter().enumerate() {
            for pos in 0..=3usize {
                let mut c = star(6, 6, 5);
                c.vl.columns = with_extras_at(real, &VALIAS, pos);
                c.vl.fmt = FMTS[(oi + pos) % 3];
                c.via_builder = (oi + pos) % 4 == 0;
                add_files_case(&mut st, &root, c, "alias_named_extra_columns_vertex");
            }
        }
        // one alias between every two real columns
        let mut c = star(6, 6, 5);
        c.vl.columns = ["+lat", "vertex_id", "+lon", "x", "+latitude", "y", "+longitude"].iter().map(|s| s.to_string()).collect();
        add_files_case(&mut st, &root, c, "alias_named_extra_columns_vertex");
        let mut c = star(6, 6, 5);
        c.vl.columns = ["+osm_id", "+lat", "+lon", "vertex_id", "x", "y", "+elevation"].iter().map(|s| s.to_string()).collect();
        add_files_case(&mut st, &root, c, "alias_named_extra_columns_vertex");
        let eorders: [[&str; 4]; 2] = [ECOLS, ["distance", "dst_vertex_id", "edge_id", "src_vertex_id"]];
        for (oi, real) in eorders.iter().enumerate() {
            for pos in 0..=4usize {
                let mut c = star(6, 6, 5);
                c.el.columns = with_extras_at(real, &EALIAS, pos);
                c.el.fmt = FMTS[(oi + pos) % 3];
                add_files_case(&mut st, &root, c, "alias_named_extra_columns_edge");
            }
        }
        let mut c = star(6, 6, 5);
        c.el.columns = ["+id", "edge_id", "+src", "src_vertex_id", "+dst", "dst_vertex_id", "+length", "distance", "+dist"].iter().map(|s| s.to_string()).collect();
        add_files_case(&mut st, &root, c, "alias_named_extra_columns_edge");
    }
    // column order / extra columns / padding / CRLF / exponent notation, one at a time
    {
        let mut r = Rng::new(a.seed ^ 0xC15);
        for k in 0..12 {
            let mut c = star(6, 6, 5);
            match k % 6 {
                0 => c.vl.columns = vec!["y".into(), "x".into(), "vertex_id".into()],
                1 => c.vl.columns = vec!["+name".into(), "x".into(), "+z".into(), "vertex_id".into(), "y".into(), "+note".into()],
                2 => c.el.columns = shuffled_columns(&mut r, &ECOLS, 2),
                3 => {
                    c.el.pad = true;
                    c.vl.pad = true
                }
                4 => {
                    c.el.crlf = true;
                    c.vl.crlf = true;
                    c.el.trailing_newline = k < 6;
                    c.vl.trailing_newline = k < 6;
                }
                _ => {
                    c.el.exp_form = true;
                    c.vl.exp_form = true
                }
            }
            c.el.fmt = FMTS[k % 3];
            c.vl.fmt = FMTS[(k / 3) % 3];
            c.via_builder = k % 4 == 3;
            add_files_case(&mut st, &root, c, "columns_and_field_syntax");
        }
    }
    // ---- random cases ----
    let mut rng = Rng::new(a.seed);
    while st.next_id() < a.n {
        let mut r = rng.fork();
        let (er, vr) = random_graph(&mut r);
        let mut c = base_case(er, vr);
        c.el = random_layout(&mut r, &ECOLS);
        c.vl = random_layout(&mut r, &VCOLS);
        c.via_builder = r.chance(1, 4);
        let (m, n) = (c.erows.len(), c.vrows.len());
        c.ne = match r.below(6) {
            0 | 1 => Some(m),
            2 => Some(r.below(2 * m as u64 + 3) as usize),
            _ => None,
        };
        c.nv = match r.below(6) {
            0 | 1 => Some(n),
            _ => None,
        };
        let mut family = "random_inside";
        // one case in six leaves the hypotheses
        if r.chance(1, 6) {
            family = "random_outside";
            match r.below(6) {
                0 => c.nv = Some(r.below(n as u64 + 4) as usize),
                1 if m > 0 => {
                    let k = r.below(m as u64) as usize;
                    if r.chance(1, 2) {
                        c.erows[k].1 = n + r.below(3) as usize
                    } else {
                        c.erows[k].2 = n + r.below(3) as usize
                    }
                }
                2 if n > 1 => {
                    let (i, j) = (r.below(n as u64) as usize, r.below(n as u64) as usize);
                    c.vrows.swap(i, j)
                }
                3 if m > 1 => {
                    let (i, j) = (r.below(m as u64) as usize, r.below(m as u64) as usize);
                    if r.chance(1, 2) {
                        c.erows.swap(i, j)
                    } else {
                        c.erows[i].0 = c.erows[j].0
                    }
                }
                4 => c.el.blank_lines = 1 + r.below(2) as usize,
                _ => c.vl.blank_lines = 1 + r.below(2) as usize,
            }
        }
        add_files_case(&mut st, &root, c, family);
    }
    st.finish();
}

// ------------------------------------------------------------------ stream `tables`
#[derive(Clone, Copy, Debug, Serialize, Deserialize, PartialEq)]
enum Kind {
    Speed,
    Grade,
    Class,
    Heading,
}
#[derive(Clone, Debug, Serialize, Deserialize)]
struct TCase {
    kind: Kind,
    /// Some(v): a decodable line (v = 4 x value for speed / grade, the class, or arrival*512+departure);
    /// None: a line the decoder must reject
    lines: Vec<Option<i64>>,
    /// for headings: departure column left empty (defaults to the arrival heading)
    fmt: Fmt,
    trailing_newline: bool,
    bad_text: String,
}

fn table_text(c: &TCase) -> String {
    let mut ls: Vec<String> = vec![];
    if c.kind == Kind::Heading {
        ls.push("arrival_heading,departure_heading".into());
    }
    for l in &c.lines {
        ls.push(match (l, c.kind) {
            (None, _) => c.bad_text.clone(),
            (Some(v), Kind::Speed) | (Some(v), Kind::Grade) => quarters(*v, false),
            (Some(v), Kind::Class) => v.to_string(),
            (Some(v), Kind::Heading) => {
                let (a, d) = (v / 512, v % 512);
                if a == d && a % 2 == 0 {
                    format!("{},", a) // departure omitted
                } else {
                    format!("{},{}", a, d)
                }
            }
        });
    }
    let mut t = ls.join("\n");
    if c.trailing_newline && !ls.is_empty() {
        t.push('\n');
    }
    t
}

fn load_table(c: &TCase, p: &PathBuf) -> String {
    let show = |v: Vec<i64>| show_list(&v, |x| x.to_string());
    let to_q = |x: f64| -> i64 {
        let y = x * 4.0;
        assert!(y.fract() == 0.0, "table value {} is not a multiple of 1/4", x);
        y as i64
    };
    match c.kind {
        Kind::Speed => {
            let r: Result<Box<[Speed]>, std::io::Error> = read_utils::read_raw_file(p, read_decoders::default, None);
            // the model's own constructor must hold the same table (it rejects empty / all-zero tables)
            let eng = SpeedTraversalEngine::new(p, SpeedUnit::KilometersPerHour, None, None);
            match (&r, &eng) {
                (Ok(t), Ok(e)) => assert_eq!(t.as_ref(), e.speed_table.as_ref()),
                (Ok(t), Err(_)) => assert!(t.iter().all(|s| s.as_f64() == 0.0)),
                (Err(_), Ok(_)) => panic!("SpeedTraversalEngine accepted a table read_raw_file rejects"),
                _ => {}
            }
            match r {
                Ok(t) => show(t.iter().map(|s| to_q(s.as_f64())).collect()),
                Err(_) => "!InvalidData".into(),
            }
        }
        Kind::Grade => {
            let r: Result<Box<[Grade]>, std::io::Error> = read_utils::read_raw_file(p, read_decoders::default, None);
            match r {
                Ok(t) => show(t.iter().map(|s| to_q(s.as_f64())).collect()),
                Err(_) => "!InvalidData".into(),
            }
        }
        Kind::Class => match read_utils::read_raw_file(p, read_decoders::u8, None) {
            Ok(t) => show(t.iter().map(|s| *s as i64).collect()),
            Err(_) => "!InvalidData".into(),
        },
        Kind::Heading => match read_utils::from_csv::<EdgeHeading>(&p.as_path(), true, None) {
            Ok(t) => show(t.iter().map(|h| h.start_heading() as i64 * 512 + h.end_heading() as i64).collect()),
            Err(_) => "!InvalidData".into(),
        },
    }
}

fn add_table_case(st: &mut Stream, root: &Path, c: TCase, family: &str) {
    let id = st.next_id();
    let dir = root.join("data");
    std::fs::create_dir_all(&dir).unwrap();
    let p = write_file(&dir, &format!("table_{:05}", id), c.fmt, &table_text(&c));
    let header = c.kind == Kind::Heading;
    // the model sees the file's lines: the header line of a headings file is a line too
    let mut coq_lines: Vec<Option<i64>> = vec![];
    if header {
        coq_lines.push(None);
    }
    coq_lines.extend(c.lines.iter().cloned());
    let l = coq_list(&coq_lines, |o| coq_opt(o, |v| coq_z(*v as i128)));
    let terms = vec![
        format!("line_tm {} {} {}", id, coq_bool(header), l),
        format!("line_ts {} {} {}", id, coq_bool(header), l),
    ];
    let (cc, pp) = (c.clone(), p.clone());
    let out = catch(move || load_table(&cc, &pp)).unwrap_or_else(|e| format!("!Panic {}", e));
    st.count(&format!("family:{}", family));
    st.count(&format!("kind:{:?}", c.kind));
    st.count(&format!("fmt:{:?}", c.fmt));
    st.count(&format!("trailing_newline:{}", c.trailing_newline));
    st.count(&format!("rows:{}", (c.lines.len() + 9) / 10 * 10));
    let bad = c.lines.iter().any(|l| l.is_none());
    if bad {
        st.count("has_undecodable_line");
    }
    if c.lines.len() >= 2 && !bad {
        st.mark_nontrivial(&format!("{:?}", c));
    }
    let desc = json!({"id": id, "family": family, "stream": "tables", "case": serde_json::to_value(&c).unwrap(), "files": [p.to_str().unwrap()]});
    st.case(terms, vec![format!("I {} {}", id, out)], desc);
}

fn random_value(r: &mut Rng, k: Kind) -> i64 {
    match k {
        Kind::Speed => r.range(0, 520),
        Kind::Grade => r.range(-120, 120),
        Kind::Class => r.range(0, 255),
        Kind::Heading => {
            let a = r.range(0, 359);
            a * 512 + if r.chance(1, 3) { a } else { r.range(0, 359) }
        }
    }
}
fn bad_text(k: Kind, which: u64) -> String {
    match (k, which % 3) {
        (Kind::Heading, 0) => "north,south".into(),
        (Kind::Heading, 1) => "40000,1".into(),
        (Kind::Heading, _) => "x".into(),
        (Kind::Class, 0) => "256".into(),
        (Kind::Class, 1) => "-1".into(),
        (Kind::Speed, 1) => "-0.25".into(),
        (_, 0) => "abc".into(),
        _ => "".into(), // a blank line inside a raw table
    }
}

fn tables_stream(a: &Args) {
    let header = "From Coq Require Import ZArith List String.\nFrom RC Require Import Base.Show Model.Loader Model.LoaderRun.\nImport ListNotations.";
    let mut st = Stream::new(&a.out, "tables", header, a.shards);
    let root = a.out.clone();
    if let Some(p) = &a.replay {
        st.full = true;
        let v: serde_json::Value = serde_json::from_str(&std::fs::read_to_string(p).unwrap()).unwrap();
        let c: TCase = serde_json::from_value(v["case"]["case"].clone()).unwrap();
        add_table_case(&mut st, &root, c, "replay");
        st.finish();
        return;
    }
    for (name, v) in corpus_cases(a, "tables") {
        let c: TCase = serde_json::from_value(v).unwrap();
        add_table_case(&mut st, &root, c, &name);
    }
    let kinds = [Kind::Speed, Kind::Grade, Kind::Class, Kind::Heading];
    // boundary: 0..3 rows, every kind, every format, with and without trailing newline
    for k in kinds {
        for n in 0..=3usize {
            for f in FMTS {
                for nl in [true, false] {
                    let lines = (0..n as i64).map(|i| Some(match k { Kind::Heading => (10 * i + 4) * 512 + if i % 2 == 0 { 10 * i + 4 } else { 77 }, _ => 4 * i + 1 })).collect();
                    add_table_case(&mut st, &root, TCase { kind: k, lines, fmt: f, trailing_newline: nl, bad_text: String::new() }, "small_tables");
                }
            }
        }
        // one undecodable line at the start / middle / end
        for pos in 0..3usize {
            for w in 0..3u64 {
                let mut lines: Vec<Option<i64>> = (0..3).map(|i| Some(if k == Kind::Heading { (i + 1) * 512 + 3 } else { i + 1 })).collect();
                lines[pos] = None;
                let mut bt = bad_text(k, w);
                if bt.is_empty() && pos == 2 {
                    bt = " ".into(); // an empty LAST line is not a line; a line holding a space is
                }
                add_table_case(&mut st, &root, TCase { kind: k, lines, fmt: FMTS[pos], trailing_newline: w != 1, bad_text: bt }, "undecodable_line");
            }
        }
    }
    let mut rng = Rng::new(a.seed);
    while st.next_id() < a.n {
        let mut r = rng.fork();
        let k = *r.pick(&kinds);
        let n = if r.chance(1, 4) { r.below(5) } else { 5 + r.below(70) } as usize;
        let mut lines: Vec<Option<i64>> = (0..n).map(|_| Some(random_value(&mut r, k))).collect();
        let mut family = "random";
        let w = r.below(3);
        let mut bt = bad_text(k, w);
        if r.chance(1, 8) && n > 0 {
            let p = r.below(n as u64) as usize;
            lines[p] = None;
            family = "random_undecodable";
            if bt.is_empty() && p == n - 1 {
                bt = " ".into();
            }
        }
        add_table_case(&mut st, &root, TCase { kind: k, lines, fmt: *r.pick(&FMTS), trailing_newline: r.chance(1, 2), bad_text: bt }, family);
    }
    st.finish();
}

fn main() {
    silence_panics();
    let a = parse_args();
    match a.stream.as_str() {
        "files" => files_stream(&a),
        "tables" => tables_stream(&a),
        s => panic!("unknown stream {}", s),
    }
}
