//! C15 harness.
//! Stream `files`: edge / vertex lists are rendered as CSV files (plain, gzip with .gz, gzip WITHOUT the
//! extension; with / without trailing newline; LF or CRLF; shuffled columns, extra columns, padded fields;
//! explicit or scanned counts), loaded through the real `Graph::from_files` (or the config glue
//! `DefaultGraphBuilder::build`), and every accessor of the loaded graph is printed in the canonical format
//! of coq/Model/LoaderRun.v (`show_view`).
//! Stream `tables`: per-edge tables (speed, grade, road class, headings) written as files and loaded through
//! the readers the models use (`read_raw_file` + decoders, `SpeedTraversalEngine::new`, `from_csv`).
//! Distances / coordinates / table values are multiples of 1/4 and compared as 4x integers (exact).
use flate2::write::GzEncoder;
use flate2::Compression;
use routee_compass::app::compass::config::compass_configuration_error::CompassConfigurationError;
use routee_compass::app::compass::config::graph_builder::DefaultGraphBuilder;
use routee_compass_core::algorithm::search::direction::Direction;
use routee_compass_core::model::access::default::turn_delays::edge_heading::EdgeHeading;
use routee_compass_core::model::network::{Edge, EdgeId, Graph, NetworkError, Vertex, VertexId};
use routee_compass_core::model::traversal::default::speed_traversal_engine::SpeedTraversalEngine;
use routee_compass_core::model::unit::as_f64::AsF64;
use routee_compass_core::model::unit::{Grade, Speed, SpeedUnit};
use routee_compass_core::util::fs::{read_decoders, read_utils};
use serde::{Deserialize, Serialize};
use serde_json::json;
use std::io::Write as _;
use std::path::{Path, PathBuf};
use verif_harness::*;

type CMap = routee_compass_core::util::compact_ordered_hash_map::CompactOrderedHashMap<EdgeId, VertexId>;

// ------------------------------------------------------------------ case description
#[derive(Clone, Copy, Debug, Serialize, Deserialize, PartialEq)]
enum Fmt {
    Plain,
    GzExt,
    GzNoExt,
}
const FMTS: [Fmt; 3] = [Fmt::Plain, Fmt::GzExt, Fmt::GzNoExt];

/// how one CSV file is rendered
#[derive(Clone, Debug, Serialize, Deserialize)]
struct Layout {
    fmt: Fmt,
    trailing_newline: bool,
    crlf: bool,
    /// extra blank lines after the last row (counted by line_count, skipped by the CSV reader)
    blank_lines: usize,
    /// zero-byte file (no header)
    empty_file: bool,
    /// column order: a permutation of the required columns interleaved with extra columns ("+name")
    columns: Vec<String>,
    pad: bool,
    /// numbers written as 1225e-2 instead of 12.25
    exp_form: bool,
    /// gzip only: the file is a MULTI-MEMBER gzip (`cat a.gz b.gz`), the rows split over 2-3 members at line
    /// boundaries. The readers use flate2's single-member GzDecoder, so for the loader the file IS its first
    /// member (header + the first rows): line count and row reader must agree on that.
    #[serde(default)]
    gz_members: usize,
}

#[derive(Clone, Debug, Serialize, Deserialize)]
struct Case {
    /// (edge_id, src, dst, 4 x distance)
    erows: Vec<(usize, usize, usize, i64)>,
    /// (vertex_id, 4 x x, 4 x y)
    vrows: Vec<(usize, i64, i64)>,
    el: Layout,
    vl: Layout,
    ne: Option<usize>,
    nv: Option<usize>,
    via_builder: bool,
    /// literal decimal text of (x, y) per vertex row, overriding the k/4 values of `vrows` (long decimals at /
    /// next to the midpoint of two adjacent f32 values)
    #[serde(default)]
    vdec: Option<Vec<(String, String)>>,
    /// member of a SEQUENCE of loads in this process at the SAME two paths (data/seq_<tag>/edges.dat,
    /// vertices.dat): the files are rewritten (other compression, other rows, other sizes) and loaded again.
    /// Each load is judged on its own - a loader has no memory of what a path held before.
    #[serde(default)]
    seq: Option<String>,
}

/// the earlier members of each running sequence (their descriptions go into the case description, so that a
/// replay re-creates the history before it runs the case)
static SEQ: std::sync::Mutex<Vec<(String, serde_json::Value)>> = std::sync::Mutex::new(Vec::new());
fn seq_history(tag: &str) -> Vec<serde_json::Value> {
    SEQ.lock().unwrap().iter().filter(|(t, _)| t == tag).map(|(_, v)| v.clone()).collect()
}

/// plausible aliases and near-misses of the real column names (extra columns with these names must be ignored)
const VALIAS: [&str; 22] = [
    "lon", "lat", "longitude", "latitude", "X", "Y", "x_coord", "y_coord", "x2", "y2", "id", "vertex", "vertex_uuid",
    "Vertex_Id", "vertex_id2", "vid", "node_id", "lng", "easting", "northing", " x", "y ",
];
const EALIAS: [&str; 24] = [
    "src", "dst", "source", "target", "from", "to", "length", "dist", "edge", "id", "src_vertex", "dst_vertex",
    "dst_vertex_id2", "src_vertex_id_old", "edge_id2", "Edge_Id", "eid", "distance_m", "Distance", "length_m", "u", "v",
    " distance", "edge_id ",
];
/// extra TEXT columns whose values are drawn from CSV-special content (raw CSV field text, quoted where needed)
const SPECIAL_COLS: [&str; 4] = ["marker_color", "label", "comment", "tag"];
fn special_value(k: usize) -> String {
    const POOL: [&str; 20] = [
        "#d62728", "plain", "# generated by hand", ";semi;colon", "\"quoted, with comma\"", "\"say \"\"hi\"\"\"", "  spaced  ", "",
        "NaN", "#", "'apostrophe", "-", "\"#quoted hash\"", "a#b", "\"\"", "inf", "0x1F", "tab\there", "#ff7f0e", "1e999",
    ];
    if k % 23 == 22 {
        return "x".repeat(3000); // a very long field
    }
    POOL[k % POOL.len()].to_string()
}
const ECOLS: [&str; 4] = ["edge_id", "src_vertex_id", "dst_vertex_id", "distance"];
const VCOLS: [&str; 3] = ["vertex_id", "x", "y"];

fn plain_layout(cols: &[&str]) -> Layout {
    Layout {
        fmt: Fmt::Plain,
        trailing_newline: true,
        crlf: false,
        blank_lines: 0,
        empty_file: false,
        columns: cols.iter().map(|s| s.to_string()).collect(),
        pad: false,
        exp_form: false,
        gz_members: 0,
    }
}

fn quarters(q: i64, exp_form: bool) -> String {
    if exp_form {
        return format!("{}e-2", q * 25);
    }
    let neg = q < 0;
    let a = q.abs();
    let frac = ["", ".25", ".5", ".75"][(a % 4) as usize];
    format!("{}{}{}", if neg { "-" } else { "" }, a / 4, frac)
}

/// an exact decimal: value = (-1)^neg * digits * 10^(-k)
#[derive(Clone, Debug, PartialEq)]
struct Dec {
    neg: bool,
    digits: u128,
    k: usize,
}
impl Dec {
    fn text(&self) -> String {
        let mut d = self.digits.to_string();
        while d.len() <= self.k {
            d.insert(0, '0');
        }
        if self.k > 0 {
            d.insert(d.len() - self.k, '.');
        }
        format!("{}{}", if self.neg { "-" } else { "" }, d)
    }
    /// plain decimal text (optional sign, digits, optional fraction, optional e<int>) -> exact decimal
    fn parse(t: &str) -> Dec {
        let t = t.trim();
        let (neg, t) = match t.strip_prefix('-') {
            Some(r) => (true, r),
            None => (false, t.strip_prefix('+').unwrap_or(t)),
        };
        let (mant, exp) = match t.find(|c| c == 'e' || c == 'E') {
            Some(i) => (&t[..i], t[i + 1..].parse::<i64>().unwrap()),
            None => (t, 0),
        };
        let (ip, fp) = match mant.find('.') {
            Some(i) => (&mant[..i], &mant[i + 1..]),
            None => (mant, ""),
        };
        let mut digits: u128 = format!("{}{}", ip, fp).parse().unwrap();
        let mut k = fp.len() as i64 - exp;
        while k < 0 {
            digits *= 10;
            k += 1;
        }
        Dec { neg, digits, k: k as usize }
    }
    /// the exact value of a finite f64 (|x| < 1000, at most 35 fractional digits)
    fn of_f64(x: f64) -> Dec {
        Dec::of_f64_prec(x, 36)
    }
    /// the value of x rounded to `prec` fractional digits (exact when x has no more than that)
    fn of_f64_prec(x: f64, prec: usize) -> Dec {
        let t = format!("{:.*}", prec, x);
        let t = t.trim_end_matches('0').trim_end_matches('.');
        Dec::parse(t)
    }
    fn sig_digits(&self) -> usize {
        self.digits.to_string().len()
    }
    /// decimal rounding (half up) to n significant digits
    fn round_sig(&self, n: usize) -> Dec {
        let len = self.sig_digits();
        if len <= n || len - n > self.k {
            return self.clone();
        }
        let drop = len - n;
        let p = 10u128.pow(drop as u32);
        Dec { neg: self.neg, digits: (self.digits + p / 2) / p, k: self.k - drop }
    }
    fn coq(&self) -> String {
        if self.neg {
            format!("((-{})%Z, {}%Z)", self.digits, self.k)
        } else {
            format!("({}%Z, {}%Z)", self.digits, self.k)
        }
    }
}
/// a decimal at / just above / just below the midpoint of two adjacent f32 values
fn midpoint_decimal(r: &mut Rng) -> Dec {
    let base = match r.below(5) {
        0 => 100.0 + r.unit_f64() * 80.0, // longitudes
        1 => 30.0 + r.unit_f64() * 30.0,  // latitudes
        2 => 1.0 + r.unit_f64() * 0.001,  // next to a power of two
        3 => 0.02 + r.unit_f64(),
        _ => 0.01 + r.unit_f64() * 999.0,
    };
    let v = base as f32;
    let w = f32::from_bits(v.to_bits() + 1);
    let m = (v as f64 + w as f64) / 2.0; // exact: the midpoint has 25 significant bits
    let e = Dec::of_f64(m);
    let mut d = match r.below(10) {
        0 => e.clone(),                                                     // the tie itself
        1 => Dec { neg: false, digits: e.digits * 10 + 1, k: e.k + 1 },     // just above, far below half an f64 ulp
        2 => Dec { neg: false, digits: e.digits * 10 - 1, k: e.k + 1 },     // just below
        3 => e.round_sig(17),
        4 => e.round_sig(18),
        5 => e.round_sig(19),
        6 => e.round_sig(20),
        7 => Dec::of_f64_prec(m * (1.0 + 2f64.powi(-50)), 30).round_sig(17),
        8 => Dec::of_f64_prec(m * (1.0 - 2f64.powi(-50)), 30).round_sig(17),
        _ => Dec::of_f64(v as f64).round_sig(9),                            // an ordinary short decimal
    };
    d.neg = r.chance(1, 2);
    d
}

/// the text of a CSV file and the number of lines BufRead::lines() yields for it (computed here from the
/// structure of the text, independently of the code under test)
fn render(l: &Layout, rows: &[Vec<(String, String)>]) -> (String, usize) {
    if l.empty_file {
        return (String::new(), 0);
    }
    let nl = if l.crlf { "\r\n" } else { "\n" };
    let mut lines: Vec<String> = vec![];
    lines.push(l.columns.iter().map(|c| c.trim_start_matches('+').to_string()).collect::<Vec<_>>().join(","));
    for (ri, r) in rows.iter().enumerate() {
        let fields: Vec<String> = l
            .columns
            .iter()
            .enumerate()
            .map(|(ci, c)| {
                let v = if let Some(x) = c.strip_prefix('+') {
                    // extra column. A name that is an alias / near-miss of a real column carries a NUMBER that no
                    // real column of that row holds (so a reader that takes it for the real one is seen);
                    // the other extra columns hold text, a number or nothing
                    if SPECIAL_COLS.contains(&x) {
                        // never padded: a quote must be the first character of its field
                        return special_value(ri * 7 + ci * 3 + x.len());
                    } else if VALIAS.contains(&x) || EALIAS.contains(&x) {
                        format!("{}", 5000 + 7 * ri + ci)
                    } else {
                        match (ri + ci + x.len()) % 3 {
                            0 => format!("{}{}", x, ri),
                            1 => format!("{}", (ri * 7 + ci) as f64 / 8.0),
                            _ => String::new(),
                        }
                    }
                } else {
                    r.iter().find(|(k, _)| k == c).map(|(_, v)| v.clone()).unwrap_or_default()
                };
                if l.pad && !v.is_empty() {
                    format!(" {} ", v)
                } else {
                    v
                }
            })
            .collect();
        lines.push(fields.join(","));
    }
    let mut text = lines.join(nl);
    let mut count = lines.len();
    // blank lines are always terminated, so each of them is a line of its own for BufRead::lines()
    if l.trailing_newline || l.blank_lines > 0 {
        text.push_str(nl);
    }
    for _ in 0..l.blank_lines {
        count += 1;
        text.push_str(nl);
    }
    (text, count)
}

fn write_file(dir: &Path, stem: &str, fmt: Fmt, text: &str) -> PathBuf {
    let name = match fmt {
        Fmt::Plain => format!("{}.csv", stem),
        Fmt::GzExt => format!("{}.csv.gz", stem),
        Fmt::GzNoExt => format!("{}_gz_noext.csv", stem),
    };
    write_file_at(dir.join(name), fmt, text)
}
/// splits a text of `1 + rows` lines (+ optional header handled by the caller via `head_lines`) into gzip members
/// at line boundaries; returns the member texts and the number of data rows in the first one
fn split_members(text: &str, head_lines: usize, members: usize) -> (Vec<String>, usize) {
    let lines: Vec<&str> = text.split_inclusive('\n').collect();
    let rows = lines.len().saturating_sub(head_lines);
    if members < 2 || rows < 2 {
        return (vec![text.to_string()], rows);
    }
    let chunk = (rows + members - 1) / members;
    let mut out = vec![];
    let mut first = lines[..head_lines + chunk].concat();
    if !first.ends_with('\n') {
        first.push('\n');
    }
    out.push(first);
    let mut k = head_lines + chunk;
    while k < lines.len() {
        let e = (k + chunk).min(lines.len());
        out.push(lines[k..e].concat());
        k = e;
    }
    (out, chunk)
}
fn write_gz_members(p: PathBuf, texts: &[String]) -> PathBuf {
    let mut f = std::fs::File::create(&p).unwrap();
    for t in texts {
        let mut enc = GzEncoder::new(Vec::new(), Compression::default());
        enc.write_all(t.as_bytes()).unwrap();
        f.write_all(&enc.finish().unwrap()).unwrap();
    }
    p
}
fn write_file_at(p: PathBuf, fmt: Fmt, text: &str) -> PathBuf {
    match fmt {
        Fmt::Plain => std::fs::write(&p, text).unwrap(),
        _ => {
            let f = std::fs::File::create(&p).unwrap();
            let mut enc = GzEncoder::new(f, Compression::default());
            enc.write_all(text.as_bytes()).unwrap();
            enc.finish().unwrap();
        }
    }
    p
}

// ------------------------------------------------------------------ canonical printing of the implementation
fn net_err(e: &NetworkError) -> &'static str {
    match e {
        NetworkError::EdgeNotFound(_) => "EdgeNotFound",
        NetworkError::VertexNotFound(_) => "VertexNotFound",
        NetworkError::AttributeError(_, _) => "AttributeError",
        NetworkError::DatasetError(_) => "DatasetError",
        NetworkError::IOError { .. } => "IOError",
        NetworkError::CsvError { .. } => "CsvError",
        NetworkError::InternalError(_) => "InternalError",
    }
}
fn q4(x: f64) -> String {
    let y = x * 4.0;
    if y.fract() == 0.0 && y.abs() < 1e15 {
        format!("{}", y as i64)
    } else {
        format!("f{}", show_f64(x))
    }
}
fn s_edge(e: &Edge) -> String {
    format!("{}:{}>{}@{}", e.edge_id.0, e.src_vertex_id.0, e.dst_vertex_id.0, q4(e.distance.as_f64()))
}
fn s_vertex(v: &Vertex) -> String {
    format!("{}({},{})", v.vertex_id.0, q4(v.x() as f64), q4(v.y() as f64))
}
fn s_vev(t: &(&Vertex, &Edge, &Vertex)) -> String {
    format!("{}-{}-{}", s_vertex(t.0), s_edge(t.1), s_vertex(t.2))
}
fn sr<T>(r: &Result<T, NetworkError>, f: impl Fn(&T) -> String) -> String {
    match r {
        Ok(t) => f(t),
        Err(e) => format!("!{}", net_err(e)),
    }
}
fn ids(l: &[EdgeId]) -> String {
    show_list(l, |e| e.0.to_string())
}

fn show_graph(g: &Graph) -> String {
    let ne = g.n_edges();
    let nv = g.n_vertices();
    let (al, rl) = (g.adj.len(), g.rev.len());
    let es: Vec<usize> = (0..ne + 2).collect();
    let vs: Vec<usize> = (0..nv + 2).collect();
    let avs: Vec<usize> = (0..nv.max(al).max(rl) + 2).collect();
    // the adjacency fields read through iter(): (edge, other end) in insertion order
    fn adjv(side: &[CMap], v: usize) -> Vec<(usize, usize)> {
        match side.get(v) {
            None => vec![],
            Some(m) => m.iter().map(|(e, o)| (e.0, o.0)).collect(),
        }
    }
    // same edge set? (edge, src, dst) triples described by adj and by rev: equal size and mutual inclusion
    let mut ta: Vec<(usize, usize, usize)> = vec![];
    for v in 0..al {
        for (e, d) in adjv(&g.adj, v) {
            ta.push((e, v, d));
        }
    }
    let mut tr: Vec<(usize, usize, usize)> = vec![];
    for v in 0..rl {
        for (e, s) in adjv(&g.rev, v) {
            tr.push((e, s, v));
        }
    }
    let same = ta.len() == tr.len() && ta.iter().all(|t| tr.contains(t)) && tr.iter().all(|t| ta.contains(t));
    // the same fields read through keys() + get(), and len()
    fn getv(side: &[CMap], v: usize) -> Vec<(usize, Option<usize>)> {
        match side.get(v) {
            None => vec![],
            Some(m) => m.keys().map(|k| (k.0, m.get(k).map(|x| x.0))).collect(),
        }
    }
    fn lenv(side: &[CMap], v: usize) -> usize {
        side.get(v).map(|m| m.len()).unwrap_or(0)
    }
    // the *_iter variants and the id ranges agree with the collecting accessors
    for &v in &avs {
        let o: Vec<EdgeId> = g.out_edges_iter(&VertexId(v)).cloned().collect();
        assert_eq!(o, g.out_edges(&VertexId(v)));
        let i: Vec<EdgeId> = g.incident_edges_iter(&VertexId(v), &Direction::Reverse).cloned().collect();
        assert_eq!(i, g.in_edges(&VertexId(v)));
    }
    assert_eq!(g.edge_ids().map(|e| e.0).collect::<Vec<_>>(), (0..ne).collect::<Vec<_>>());
    assert_eq!(g.vertex_ids().map(|v| v.0).collect::<Vec<_>>(), (0..nv).collect::<Vec<_>>());

    let dirs = [Direction::Forward, Direction::Reverse];
    let mut s = format!("ne={} nv={} al={} rl={}", ne, nv, al, rl);
    s += &format!(" E={}", show_list(&es, |i| sr(&g.get_edge(&EdgeId(*i)), |e| s_edge(e))));
    s += &format!(" V={}", show_list(&vs, |i| sr(&g.get_vertex(&VertexId(*i)), |v| s_vertex(v))));
    s += &format!(" out={}", show_list(&avs, |v| ids(&g.out_edges(&VertexId(*v)))));
    s += &format!(" in={}", show_list(&avs, |v| ids(&g.in_edges(&VertexId(*v)))));
    s += &format!(" adj={}", show_list(&avs, |v| show_list(&adjv(&g.adj, *v), |(e, d)| format!("{}>{}", e, d))));
    s += &format!(" rev={}", show_list(&avs, |v| show_list(&adjv(&g.rev, *v), |(e, d)| format!("{}<{}", e, d))));
    s += &format!(" ag={}", show_list(&avs, |v| show_list(&getv(&g.adj, *v), |(e, d)| format!("{}>{}", e, show_opt(d, |x| x.to_string())))));
    s += &format!(" rg={}", show_list(&avs, |v| show_list(&getv(&g.rev, *v), |(e, d)| format!("{}<{}", e, show_opt(d, |x| x.to_string())))));
    s += &format!(" deg={}", show_list(&avs, |v| format!("{}/{}", lenv(&g.adj, *v), lenv(&g.rev, *v))));
    s += &format!(
        " sd={}",
        show_list(&es, |i| format!(
            "{}>{}",
            sr(&g.src_vertex_id(&EdgeId(*i)), |v| v.0.to_string()),
            sr(&g.dst_vertex_id(&EdgeId(*i)), |v| v.0.to_string())
        ))
    );
    s += &format!(
        " iv={}",
        show_list(&es, |i| format!(
            "{}/{}",
            sr(&g.incident_vertex(&EdgeId(*i), &dirs[0]), |v| v.0.to_string()),
            sr(&g.incident_vertex(&EdgeId(*i), &dirs[1]), |v| v.0.to_string())
        ))
    );
    s += &format!(" tri={}", show_list(&es, |i| sr(&g.edge_triplet(&EdgeId(*i)), |t| s_vev(t))));
    s += &format!(" if={}", show_list(&avs, |v| ids(&g.incident_edges(&VertexId(*v), &dirs[0]))));
    s += &format!(" ir={}", show_list(&avs, |v| ids(&g.incident_edges(&VertexId(*v), &dirs[1]))));
    for (tag, d) in [("tf", &dirs[0]), ("tr", &dirs[1])] {
        s += &format!(
            " {}={}",
            tag,
            show_list(&avs, |v| sr(&g.incident_triplet_ids(&VertexId(*v), d), |l| show_list(l, |(a, e, b)| format!(
                "{}-{}-{}",
                a.0, e.0, b.0
            ))))
        );
    }
    for (tag, d) in [("af", &dirs[0]), ("ar", &dirs[1])] {
        s += &format!(
            " {}={}",
            tag,
            show_list(&avs, |v| sr(&g.incident_triplet_attributes(&VertexId(*v), d), |l| show_list(l, |t| s_vev(t))))
        );
    }
    s += &format!(" same={}", show_bool(same));
    s
}

// ------------------------------------------------------------------ one case of stream `files`
fn load(c: &Case, ep: &PathBuf, vp: &PathBuf) -> String {
    if c.via_builder {
        let mut params = json!({
            "edge_list_input_file": ep.to_str().unwrap(),
            "vertex_list_input_file": vp.to_str().unwrap(),
        });
        if let Some(n) = c.ne {
            params["n_edges"] = json!(n);
        }
        if let Some(n) = c.nv {
            params["n_vertices"] = json!(n);
        }
        match DefaultGraphBuilder::build(&params) {
            Ok(g) => show_graph(&g),
            Err(CompassConfigurationError::GraphError(e)) => format!("!{}", net_err(&e)),
            Err(e) => format!("!Config({})", e),
        }
    } else {
        match Graph::from_files(ep, vp, c.ne, c.nv, Some(false)) {
            Ok(g) => show_graph(&g),
            Err(e) => format!("!{}", net_err(&e)),
        }
    }
}

fn coq_onat(o: &Option<usize>) -> String {
    coq_opt(o, |n| coq_nat(*n))
}

/// writes the two files of a case; returns their paths, their line counts and the vertex rows as written
fn write_case_files(root: &Path, id: usize, c: &Case) -> (PathBuf, PathBuf, usize, usize, Vec<Vec<(String, String)>>, usize, usize) {
    let dir = match &c.seq {
        Some(tag) => root.join("data").join(format!("seq_{}", tag)),
        None => root.join("data").join(format!("case_{:05}", id)),
    };
    std::fs::create_dir_all(&dir).unwrap();
    let erows: Vec<Vec<(String, String)>> = c
        .erows
        .iter()
        .map(|(i, s, d, q)| {
            vec![
                ("edge_id".to_string(), i.to_string()),
                ("src_vertex_id".to_string(), s.to_string()),
                ("dst_vertex_id".to_string(), d.to_string()),
                ("distance".to_string(), quarters(*q, c.el.exp_form)),
            ]
        })
        .collect();
    let vrows: Vec<Vec<(String, String)>> = c
        .vrows
        .iter()
        .enumerate()
        .map(|(ri, (i, x, y))| {
            let (xt, yt) = match &c.vdec {
                Some(t) => t[ri].clone(),
                None => (quarters(*x, c.vl.exp_form), quarters(*y, c.vl.exp_form)),
            };
            vec![("vertex_id".to_string(), i.to_string()), ("x".to_string(), xt), ("y".to_string(), yt)]
        })
        .collect();
    let (etext, elines) = render(&c.el, &erows);
    let (vtext, vlines) = render(&c.vl, &vrows);
    let (ep, vp) = if c.seq.is_some() {
        // same path whatever the compression
        (write_file_at(dir.join("edges.dat"), c.el.fmt, &etext), write_file_at(dir.join("vertices.dat"), c.vl.fmt, &vtext))
    } else {
        (write_file(&dir, "edges", c.el.fmt, &etext), write_file(&dir, "vertices", c.vl.fmt, &vtext))
    };
    // multi-member gzip: rewrite the file as several members; for the (single-member) readers the file is its first member
    let multi = |l: &Layout, n: usize| l.fmt != Fmt::Plain && l.gz_members >= 2 && !l.empty_file && l.blank_lines == 0 && n >= 2;
    let (mut elines, mut vlines, mut ne_eff, mut nv_eff) = (elines, vlines, c.erows.len(), c.vrows.len());
    if multi(&c.el, c.erows.len()) {
        let (texts, first) = split_members(&etext, 1, c.el.gz_members);
        write_gz_members(ep.clone(), &texts);
        ne_eff = first;
        elines = 1 + first;
    }
    if multi(&c.vl, c.vrows.len()) {
        let (texts, first) = split_members(&vtext, 1, c.vl.gz_members);
        write_gz_members(vp.clone(), &texts);
        nv_eff = first;
        vlines = 1 + first;
    }
    (ep, vp, elines, vlines, vrows, ne_eff, nv_eff)
}
/// replay: re-create what the paths of a sequence held and were loaded as before the case itself
fn prime_history(root: &Path, desc: &serde_json::Value) {
    if let Some(h) = desc["history"].as_array() {
        for v in h {
            let c: Case = serde_json::from_value(v.clone()).unwrap();
            let (ep, vp, _, _, _, _, _) = write_case_files(root, 0, &c);
            let _ = catch(move || load(&c, &ep, &vp));
            if let Some(t) = serde_json::from_value::<Case>(v.clone()).unwrap().seq {
                SEQ.lock().unwrap().push((t, v.clone()));
            }
        }
    }
}

fn add_files_case(st: &mut Stream, root: &Path, c: Case, family: &str) {
    let id = st.next_id();
    let (ep, vp, elines, vlines, vrows, ne_eff, nv_eff) = write_case_files(root, id, &c);
    if ne_eff < c.erows.len() || nv_eff < c.vrows.len() {
        st.count("multi_member_gzip(rows_beyond_first_member_absent)");
    }

    // (for a multi-member gzip file the model / specification get the rows of its first member: see Layout::gz_members)
    let coq_e = coq_list(&c.erows[..ne_eff], |(i, s, d, q)| {
        format!("({},{},{},{})", coq_nat(*i), coq_nat(*s), coq_nat(*d), coq_z(*q as i128))
    });
    // the model / the specification get the coordinates as the exact decimals written in the file
    let coq_v = format!(
        "[{}]",
        c.vrows[..nv_eff]
            .iter()
            .zip(vrows.iter())
            .map(|((i, _, _), t)| format!("({},{},{})", coq_nat(*i), Dec::parse(&t[1].1).coq(), Dec::parse(&t[2].1).coq()))
            .collect::<Vec<_>>()
            .join("; ")
    );
    let args = format!(
        "{} {} {} {} {} {} {}",
        id,
        coq_e,
        coq_v,
        coq_nat(elines),
        coq_nat(vlines),
        coq_onat(&c.ne),
        coq_onat(&c.nv)
    );
    let terms = vec![format!("line_m {}", args), format!("line_s {}", args)];

    let (cc, e2, v2) = (c.clone(), ep.clone(), vp.clone());
    let out = catch(move || load(&cc, &e2, &v2)).unwrap_or_else(|e| format!("!Panic {}", e));

    // ---- histogram / non-triviality
    let nvr = c.vrows.len();
    let mut outd = vec![0usize; nvr.max(1)];
    let mut ind = vec![0usize; nvr.max(1)];
    let mut pairs = std::collections::BTreeSet::new();
    let (mut parallel, mut selfloop, mut oob) = (false, false, false);
    for (_, s, d, _) in &c.erows {
        if *s < nvr {
            outd[*s] += 1;
        } else {
            oob = true;
        }
        if *d < nvr {
            ind[*d] += 1;
        } else {
            oob = true;
        }
        if s == d {
            selfloop = true;
        }
        if !pairs.insert((*s, *d)) {
            parallel = true;
        }
    }
    let maxdeg = outd.iter().chain(ind.iter()).cloned().max().unwrap_or(0);
    let isolated = (0..nvr).any(|v| outd[v] == 0 && ind[v] == 0);
    let ids_ok = c.erows.iter().enumerate().all(|(i, r)| r.0 == i);
    let vids_ok = c.vrows.iter().enumerate().all(|(i, r)| r.0 == i);
    let inside = ids_ok
        && vids_ok
        && true
        && !c.el.empty_file
        && !c.vl.empty_file
        && c.el.blank_lines == 0
        && c.vl.blank_lines == 0
        && c.nv.map(|n| n == nvr).unwrap_or(true);
    st.count(&format!("family:{}", family));
    st.count(&format!("edge_fmt:{:?}", c.el.fmt));
    st.count(&format!("vertex_fmt:{:?}", c.vl.fmt));
    st.count(&format!("edge_trailing_newline:{}", c.el.trailing_newline));
    st.count(&format!("vertex_trailing_newline:{}", c.vl.trailing_newline));
    st.count(&format!("n_edges:{}", match c.ne { None => "scanned", Some(n) if n == c.erows.len() => "explicit_true", _ => "explicit_other" }));
    st.count(&format!("n_vertices:{}", match c.nv { None => "scanned", Some(n) if n == nvr => "explicit_true", _ => "explicit_other" }));
    st.count(&format!("max_degree:{}", if maxdeg > 12 { "13+".to_string() } else { maxdeg.to_string() }));
    st.count(&format!("edges:{}", (c.erows.len() + 9) / 10 * 10));
    let (format_ok, inside) = (inside, inside && !oob);
    st.count(&format!("inside_hypotheses:{}", inside));
    if format_ok && oob {
        st.count("documented_format_but_dangling_end_point(must_fail)");
    }
    st.count(&format!("via:{}", if c.via_builder { "DefaultGraphBuilder" } else { "Graph::from_files" }));
    if c.vl.columns.iter().any(|n| n.strip_prefix('+').map(|x| VALIAS.contains(&x)).unwrap_or(false)) {
        st.count("vertex_extra_column_named_like_alias");
    }
    if c.el.columns.iter().any(|n| n.strip_prefix('+').map(|x| EALIAS.contains(&x)).unwrap_or(false)) {
        st.count("edge_extra_column_named_like_alias");
    }
    if c.vdec.is_some() {
        st.count("coordinates_long_decimals_at_f32_midpoints");
    }
    if c.vl.columns.iter().chain(c.el.columns.iter()).any(|n| n.strip_prefix('+').map(|x| SPECIAL_COLS.contains(&x)).unwrap_or(false)) {
        st.count("extra_text_column_with_csv_special_content");
        if c.vl.columns[0].strip_prefix('+').map(|x| SPECIAL_COLS.contains(&x)).unwrap_or(false)
            || c.el.columns[0].strip_prefix('+').map(|x| SPECIAL_COLS.contains(&x)).unwrap_or(false)
        {
            st.count("special_text_column_is_first");
        }
    }
    if c.vl.columns != VCOLS.iter().map(|s| s.to_string()).collect::<Vec<_>>() {
        st.count("vertex_columns_shuffled_or_extra");
    }
    if c.el.columns != ECOLS.iter().map(|s| s.to_string()).collect::<Vec<_>>() {
        st.count("edge_columns_shuffled_or_extra");
    }
    for (k, b) in [("parallel_edges", parallel), ("self_loop", selfloop), ("isolated_vertex", isolated), ("end_point_out_of_range", oob),
        ("crlf", c.el.crlf || c.vl.crlf), ("padded_fields", c.el.pad || c.vl.pad), ("unsorted_ids", !(ids_ok && vids_ok))]
    {
        if b {
            st.count(k);
        }
    }
    if maxdeg >= 6 && inside {
        st.mark_nontrivial(&format!("{:?}", c));
    }
    let history = c.seq.as_ref().map(|t| seq_history(t)).unwrap_or_default();
    if let Some(t) = &c.seq {
        st.count(&format!("reload_at_same_paths:step{}", history.len() + 1));
        if let Some(prev) = history.last() {
            let p: Case = serde_json::from_value(prev.clone()).unwrap();
            if (p.el.fmt == Fmt::Plain) != (c.el.fmt == Fmt::Plain) || (p.vl.fmt == Fmt::Plain) != (c.vl.fmt == Fmt::Plain) {
                st.count("reload_with_other_compression");
            }
        }
        SEQ.lock().unwrap().push((t.clone(), serde_json::to_value(&c).unwrap()));
    }
    let desc = json!({"id": id, "family": family, "stream": "files", "history": history, "case": serde_json::to_value(&c).unwrap(),
        "files": [ep.to_str().unwrap(), vp.to_str().unwrap()]});
    st.case(terms, vec![format!("I {} {}", id, out)], desc);
}

// ------------------------------------------------------------------ generators (stream `files`)
fn shuffled_columns(r: &mut Rng, req: &[&str], extras: usize) -> Vec<String> {
    let mut cols: Vec<String> = req.iter().map(|s| s.to_string()).collect();
    r.shuffle(&mut cols);
    let plain = ["name", "z", "elev", "road", "note"];
    let alias: &[&str] = if req.len() == 3 { &VALIAS } else { &EALIAS };
    for k in 0..extras {
        let pos = r.below(cols.len() as u64 + 1) as usize;
        // two extra columns in three carry the name of an alias / near-miss of a real column
        let name = match r.below(6) {
            0..=2 => *r.pick(alias),
            3 | 4 => *r.pick(&SPECIAL_COLS),
            _ => plain[k % plain.len()],
        };
        let name = format!("+{}", name);
        if !cols.contains(&name) {
            cols.insert(pos, name);
        }
    }
    cols
}
/// the real columns in the given order with ALL the given extra names inserted at position `pos`
fn with_extras_at(real: &[&str], extras: &[&str], pos: usize) -> Vec<String> {
    let mut cols: Vec<String> = real.iter().map(|s| s.to_string()).collect();
    for (k, e) in extras.iter().enumerate() {
        cols.insert(pos + k, format!("+{}", e));
    }
    cols
}
fn random_layout(r: &mut Rng, req: &[&str]) -> Layout {
    let mut l = plain_layout(req);
    l.fmt = *r.pick(&FMTS);
    l.trailing_newline = r.chance(1, 2);
    l.crlf = r.chance(1, 6);
    if r.chance(1, 2) {
        let extras = r.below(5) as usize;
        l.columns = shuffled_columns(r, req, extras);
    }
    l.pad = r.chance(1, 5);
    l.exp_form = r.chance(1, 8);
    if l.fmt != Fmt::Plain && r.chance(1, 10) {
        l.gz_members = 2 + r.below(2) as usize;
    }
    l
}
fn vertices(r: &mut Rng, n: usize) -> Vec<(usize, i64, i64)> {
    (0..n).map(|i| (i, r.range(-480, 480), r.range(-360, 360))).collect()
}
/// a graph with hubs: vertex degrees from 0 to well above 5
fn random_graph(r: &mut Rng) -> (Vec<(usize, usize, usize, i64)>, Vec<(usize, i64, i64)>) {
    let n = match r.below(10) {
        0 => r.below(3) as usize,
        1..=5 => 3 + r.below(8) as usize,
        _ => 8 + r.below(10) as usize,
    };
    let vr = vertices(r, n);
    if n == 0 {
        return (vec![], vr);
    }
    let m = match r.below(8) {
        0 => r.below(4) as usize,
        1..=4 => 5 + r.below(25) as usize,
        _ => 20 + r.below(45) as usize,
    };
    // vertices 0..live take part; the rest stay isolated
    let live = if r.chance(1, 3) && n > 2 { n - 1 - r.below((n / 3).max(1) as u64) as usize } else { n };
    let hub_out = r.below(live as u64) as usize;
    let hub_in = r.below(live as u64) as usize;
    let mut es: Vec<(usize, usize)> = vec![];
    for _ in 0..m {
        let s = if r.chance(2, 5) { hub_out } else { r.below(live as u64) as usize };
        let d = if r.chance(2, 5) { hub_in } else { r.below(live as u64) as usize };
        es.push((s, d));
    }
    if r.chance(1, 4) && !es.is_empty() {
        let k = r.below(es.len() as u64) as usize;
        let e = es[k];
        es.push(e); // parallel edge
    }
    if r.chance(1, 4) {
        let v = r.below(live as u64) as usize;
        es.push((v, v)); // self loop
    }
    r.shuffle(&mut es);
    let er = es.into_iter().enumerate().map(|(i, (s, d))| (i, s, d, r.range(0, 4000))).collect();
    (er, vr)
}

fn base_case(er: Vec<(usize, usize, usize, i64)>, vr: Vec<(usize, i64, i64)>) -> Case {
    Case { erows: er, vrows: vr, el: plain_layout(&ECOLS), vl: plain_layout(&VCOLS), ne: None, nv: None, via_builder: false, vdec: None, seq: None }
}
/// hub 0 with out-degree d and in-degree d2 over n vertices (deterministic)
fn star(n: usize, d: usize, d2: usize) -> Case {
    let mut er = vec![];
    for k in 0..d {
        er.push((er.len(), 0, 1 + k % (n - 1), 4 * k as i64 + 1));
    }
    for k in 0..d2 {
        er.push((er.len(), 1 + (k * 2) % (n - 1), 0, 4 * k as i64 + 2));
    }
    let vr = (0..n).map(|i| (i, i as i64 * 5 - 7, 3 - i as i64 * 2)).collect();
    base_case(er, vr)
}

/// corpus/C15/<stream>_*.json (witnesses of fixed defects and of the mutations tried), replayed first
fn corpus_cases(a: &Args, stream: &str) -> Vec<(String, serde_json::Value)> {
    let mut out = vec![];
    let mut it = a.extra.iter();
    while let Some(x) = it.next() {
        if x == "--corpus" {
            if let Some(dir) = it.next() {
                let mut names: Vec<PathBuf> = std::fs::read_dir(dir).map(|d| d.filter_map(|e| e.ok().map(|e| e.path())).collect()).unwrap_or_default();
                names.sort();
                for p in names {
                    let n = p.file_name().unwrap().to_str().unwrap().to_string();
                    if n.starts_with(&format!("{}_", stream)) && n.ends_with(".json") {
                        let v: serde_json::Value = serde_json::from_str(&std::fs::read_to_string(&p).unwrap()).unwrap();
                        out.push((format!("corpus:{}", &n[..n.len() - 5]), v["case"].clone()));
                    }
                }
            }
        }
    }
    out
}

fn files_stream(a: &Args) {
    let header = "From Coq Require Import ZArith List String.\nFrom RC Require Import Base.Show Model.Loader Model.LoaderRun.\nImport ListNotations.";
    let mut st = Stream::new(&a.out, "files", header, a.shards);
    let root = a.out.clone();
    if let Some(p) = &a.replay {
        st.full = true;
        let v: serde_json::Value = serde_json::from_str(&std::fs::read_to_string(p).unwrap()).unwrap();
        let c: Case = serde_json::from_value(v["case"]["case"].clone()).unwrap();
        prime_history(&root, &v["case"]);
        add_files_case(&mut st, &root, c, "replay");
        st.finish();
        return;
    }
    for (name, v) in corpus_cases(a, "files") {
        let mut c: Case = serde_json::from_value(v["case"].clone()).unwrap();
        if let Some(t) = c.seq.as_mut() {
            *t = format!("{}_{}", name.replace(':', "_"), t); // a corpus sequence gets paths of its own
        }
        let mut d = v.clone();
        if let Some(h) = d["history"].as_array_mut() {
            for x in h.iter_mut() {
                x["seq"] = json!(c.seq.clone());
            }
        }
        prime_history(&root, &d);
        add_files_case(&mut st, &root, c, &name);
    }
    // ---- deterministic boundary families ----
    // degrees 0..9 out and in (the container changes representation at 5), every file format
    for d in 0..=9usize {
        for (k, f) in FMTS.iter().enumerate() {
            let mut c = star(6, d, (d + k) % 10);
            c.el.fmt = *f;
            c.vl.fmt = FMTS[(k + d) % 3];
            c.el.trailing_newline = d % 2 == 0;
            c.vl.trailing_newline = (d + k) % 2 == 0;
            add_files_case(&mut st, &root, c, "star_degree_x_format");
        }
    }
    // all format / trailing newline combinations of both files on one degree-7 network
    for ef in FMTS {
        for vf in FMTS {
            for bits in 0..4 {
                let mut c = star(5, 7, 6);
                c.el.fmt = ef;
                c.vl.fmt = vf;
                c.el.trailing_newline = bits & 1 == 1;
                c.vl.trailing_newline = bits & 2 == 2;
                add_files_case(&mut st, &root, c, "format_x_newline");
            }
        }
    }
    // k parallel edges, k self loops
    for k in 1..=8usize {
        let vr: Vec<(usize, i64, i64)> = (0..3).map(|i| (i, i as i64, -(i as i64))).collect();
        let par = (0..k).map(|i| (i, 0, 1, 10 + i as i64)).collect();
        add_files_case(&mut st, &root, base_case(par, vr.clone()), "parallel_edges");
        let lo = (0..k).map(|i| (i, 1, 1, 10 + i as i64)).collect();
        let mut c = base_case(lo, vr);
        c.el.fmt = FMTS[k % 3];
        add_files_case(&mut st, &root, c, "self_loops");
    }
    // no edges / no vertices / header only / zero-byte files, scanned and explicit
    for fmt in FMTS {
        let mut c = base_case(vec![], vec![]);
        c.el.fmt = fmt;
        c.vl.fmt = fmt;
        add_files_case(&mut st, &root, c.clone(), "header_only");
        c.el.trailing_newline = false;
        c.vl.trailing_newline = false;
        add_files_case(&mut st, &root, c.clone(), "header_only");
        let mut c2 = base_case(vec![], (0..4).map(|i| (i, i as i64, 1)).collect());
        c2.vl.fmt = fmt;
        add_files_case(&mut st, &root, c2, "isolated_vertices_only");
        let mut z = base_case(vec![], vec![]);
        z.el.empty_file = true;
        z.el.fmt = fmt;
        add_files_case(&mut st, &root, z.clone(), "zero_byte_file");
        z.ne = Some(0);
        add_files_case(&mut st, &root, z.clone(), "zero_byte_file");
        let mut z2 = base_case(vec![], vec![]);
        z2.vl.empty_file = true;
        z2.vl.fmt = fmt;
        add_files_case(&mut st, &root, z2.clone(), "zero_byte_file");
        z2.nv = Some(0);
        add_files_case(&mut st, &root, z2, "zero_byte_file");
    }
    // explicit counts: true, wrong edge count (ignored by the code), wrong vertex count
    for (ne, nv) in [(Some(13), Some(5)), (Some(0), None), (Some(3000), Some(5)), (None, Some(5)), (None, Some(3)), (None, Some(9)), (Some(13), Some(0))] {
        for via in [false, true] {
            let mut c = star(5, 7, 6);
            c.ne = ne;
            c.nv = nv;
            c.via_builder = via;
            c.el.fmt = Fmt::GzNoExt;
            add_files_case(&mut st, &root, c, "explicit_counts");
        }
    }
    // end points outside the vertex list (scanned counts)
    for (s, d) in [(0usize, 7usize), (7, 0), (7, 8), (4, 4), (5, 5)] {
        let mut c = star(5, 6, 2);
        let k = c.erows.len();
        c.erows.push((k, s, d, 9));
        c.erows.push((k + 1, 0, 1, 10));
        add_files_case(&mut st, &root, c, "end_point_out_of_range");
    }
    // rows not in id order / duplicate ids (outside the documented format: model-only comparison)
    {
        let mut c = star(5, 6, 3);
        c.vrows.swap(0, 3);
        add_files_case(&mut st, &root, c, "unsorted_vertex_rows");
        let mut c = star(5, 6, 3);
        c.vrows.reverse();
        c.vl.fmt = Fmt::GzExt;
        add_files_case(&mut st, &root, c, "unsorted_vertex_rows");
        let mut c = star(5, 6, 3);
        c.erows.swap(1, 7);
        add_files_case(&mut st, &root, c, "unsorted_edge_rows");
        let mut c = star(5, 7, 0);
        c.erows[6].0 = 2; // same id twice from the same source: the map entry is overwritten in place
        add_files_case(&mut st, &root, c, "duplicate_edge_ids");
        let mut c = star(5, 3, 0);
        c.erows[2].0 = 0;
        add_files_case(&mut st, &root, c, "duplicate_edge_ids");
        let mut c = star(5, 2, 2);
        for r in c.erows.iter_mut() {
            r.0 += 10; // ids that are not indices at all
        }
        add_files_case(&mut st, &root, c, "unsorted_edge_rows");
    }
    // blank lines after the last row: counted as lines, not rows
    for (eb, vb, nl) in [(1usize, 0usize, true), (0, 1, true), (2, 2, true), (1, 1, false)] {
        let mut c = star(4, 6, 1);
        c.el.blank_lines = eb;
        c.vl.blank_lines = vb;
        c.el.trailing_newline = nl;
        c.vl.trailing_newline = nl;
        add_files_case(&mut st, &root, c, "blank_trailing_lines");
    }
    // extra columns NAMED like aliases / near-misses of the real columns, holding other numbers, in every
    // position (before, between, after the real columns) and for several orders of the real columns
    {
        let vorders: [[&str; 3]; 3] = [["vertex_id", "x", "y"], ["y", "vertex_id", "x"], ["x", "y", "vertex_id"]];
        for (oi, real) in vorders.iter().enumerate() {
            for pos in 0..=3usize {
                let mut c = star(6, 6, 5);
                c.vl.columns = with_extras_at(real, &VALIAS, pos);
                c.vl.fmt = FMTS[(oi + pos) % 3];
                c.via_builder = (oi + pos) % 4 == 0;
                add_files_case(&mut st, &root, c, "alias_named_extra_columns_vertex");
            }
        }
        // one alias between every two real columns
        let mut c = star(6, 6, 5);
        c.vl.columns = ["+lat", "vertex_id", "+lon", "x", "+latitude", "y", "+longitude"].iter().map(|s| s.to_string()).collect();
        add_files_case(&mut st, &root, c, "alias_named_extra_columns_vertex");
        let mut c = star(6, 6, 5);
        c.vl.columns = ["+osm_id", "+lat", "+lon", "vertex_id", "x", "y", "+elevation"].iter().map(|s| s.to_string()).collect();
        add_files_case(&mut st, &root, c, "alias_named_extra_columns_vertex");
        let eorders: [[&str; 4]; 2] = [ECOLS, ["distance", "dst_vertex_id", "edge_id", "src_vertex_id"]];
        for (oi, real) in eorders.iter().enumerate() {
            for pos in 0..=4usize {
                let mut c = star(6, 6, 5);
                c.el.columns = with_extras_at(real, &EALIAS, pos);
                c.el.fmt = FMTS[(oi + pos) % 3];
                add_files_case(&mut st, &root, c, "alias_named_extra_columns_edge");
            }
        }
        let mut c = star(6, 6, 5);
        c.el.columns = ["+id", "edge_id", "+src", "src_vertex_id", "+dst", "dst_vertex_id", "+length", "distance", "+dist"].iter().map(|s| s.to_string()).collect();
        add_files_case(&mut st, &root, c, "alias_named_extra_columns_edge");
    }
    // extra TEXT columns holding CSV-special content (leading '#', ';', quoted fields with commas / quotes,
    // spaces, empty, NaN, very long) first / in the middle / last, in the vertex file and in the edge file
    for (k, cols) in [
        vec!["+marker_color", "vertex_id", "x", "y"],
        vec!["vertex_id", "x", "+label", "y"],
        vec!["vertex_id", "x", "y", "+comment"],
        vec!["+marker_color", "vertex_id", "y", "+label", "x", "+tag"],
    ]
    .iter()
    .enumerate()
    {
        for fmt in FMTS {
            let mut c = star(9, 8, 7);
            c.vl.columns = cols.iter().map(|s| s.to_string()).collect();
            c.vl.fmt = fmt;
            c.nv = if k % 2 == 0 { None } else { Some(9) };
            c.via_builder = k == 3;
            add_files_case(&mut st, &root, c, "csv_special_text_columns_vertex");
        }
    }
    for (k, cols) in [
        vec!["+marker_color", "edge_id", "src_vertex_id", "dst_vertex_id", "distance"],
        vec!["edge_id", "src_vertex_id", "+label", "dst_vertex_id", "distance"],
        vec!["edge_id", "src_vertex_id", "dst_vertex_id", "distance", "+comment"],
        vec!["+tag", "distance", "+marker_color", "edge_id", "dst_vertex_id", "src_vertex_id", "+label"],
    ]
    .iter()
    .enumerate()
    {
        let mut c = star(7, 9, 8);
        c.el.columns = cols.iter().map(|s| s.to_string()).collect();
        c.el.fmt = FMTS[k % 3];
        add_files_case(&mut st, &root, c, "csv_special_text_columns_edge");
    }
    // coordinates written as long decimals at / just above / just below the midpoint of two adjacent f32
    // values (a reader that goes through f64 first rounds twice), the published examples first
    {
        let mut c = star(4, 3, 2);
        c.vdec = Some(vec![
            ("-105.20422744750977".into(), "39.712213516235352".into()),
            ("1.0000000596046448".into(), "1.0000000596046447".into()),
            ("-105.204227447509765625".into(), "39.7122135162353515625".into()),
            ("0.1".into(), "-0.3".into()),
        ]);
        add_files_case(&mut st, &root, c, "coordinate_f32_midpoints");
        let mut r = Rng::new(0xC15_F32);
        for k in 0..10 {
            let mut c = star(8, 6, 3);
            c.vdec = Some((0..8).map(|_| (midpoint_decimal(&mut r).text(), midpoint_decimal(&mut r).text())).collect());
            c.vl.fmt = FMTS[k % 3];
            if k % 3 == 1 {
                c.vl.columns = vec!["+lat".into(), "y".into(), "vertex_id".into(), "+label".into(), "x".into()];
            }
            add_files_case(&mut st, &root, c, "coordinate_f32_midpoints");
        }
    }
    // column order / extra columns / padding / CRLF / exponent notation, one at a time
    {
        let mut r = Rng::new(a.seed ^ 0xC15);
        for k in 0..12 {
            let mut c = star(6, 6, 5);
            match k % 6 {
                0 => c.vl.columns = vec!["y".into(), "x".into(), "vertex_id".into()],
                1 => c.vl.columns = vec!["+name".into(), "x".into(), "+z".into(), "vertex_id".into(), "y".into(), "+note".into()],
                2 => c.el.columns = shuffled_columns(&mut r, &ECOLS, 2),
                3 => {
                    c.el.pad = true;
                    c.vl.pad = true
                }
                4 => {
                    c.el.crlf = true;
                    c.vl.crlf = true;
                    c.el.trailing_newline = k < 6;
                    c.vl.trailing_newline = k < 6;
                }
                _ => {
                    c.el.exp_form = true;
                    c.vl.exp_form = true
                }
            }
            c.el.fmt = FMTS[k % 3];
            c.vl.fmt = FMTS[(k / 3) % 3];
            c.via_builder = k % 4 == 3;
            add_files_case(&mut st, &root, c, "columns_and_field_syntax");
        }
    }
    // MULTI-MEMBER gzip files (`cat a.gz b.gz`): the readers decode the first member only, so the network is the one of
    // the first member - line count (adjacency size), row reader and the missing-vertex guard must all agree on that
    for members in [2usize, 3] {
        for (which, explicit) in [("vertices", false), ("edges", false), ("both", false), ("vertices", true)] {
            for dangling in [false, true] {
                // star(8, ..): 8 vertices; hub 0; with `dangling` the edges reach the vertices of the later members
                let mut c = if dangling { star(8, 7, 5) } else { star(8, 2, 1) };
                if !dangling {
                    for e in c.erows.iter_mut() {
                        e.1 %= 2;
                        e.2 %= 2;
                    }
                }
                c.el.fmt = Fmt::GzExt;
                c.vl.fmt = Fmt::GzNoExt;
                if which != "edges" {
                    c.vl.gz_members = members;
                }
                if which != "vertices" {
                    c.el.gz_members = members;
                }
                if explicit {
                    c.nv = Some(8);
                }
                c.el.trailing_newline = dangling;
                c.vl.trailing_newline = !dangling;
                add_files_case(&mut st, &root, c, "multi_member_gzip");
            }
        }
    }
    // SEQUENCES of loads at the same two paths within this process: the files are rewritten with the other
    // compression / other rows / other sizes and loaded again (explicit and scanned counts, both entry points)
    {
        let steps: [(&str, Vec<(Fmt, Fmt)>); 6] = [
            ("plain_gz", vec![(Fmt::Plain, Fmt::Plain), (Fmt::GzNoExt, Fmt::GzNoExt)]),
            ("gz_plain", vec![(Fmt::GzNoExt, Fmt::GzNoExt), (Fmt::Plain, Fmt::Plain)]),
            ("plain_gz_plain", vec![(Fmt::Plain, Fmt::Plain), (Fmt::GzExt, Fmt::GzExt), (Fmt::Plain, Fmt::Plain)]),
            ("mixed", vec![(Fmt::Plain, Fmt::GzNoExt), (Fmt::GzNoExt, Fmt::Plain), (Fmt::GzNoExt, Fmt::GzNoExt)]),
            ("same_compression_other_rows", vec![(Fmt::Plain, Fmt::Plain), (Fmt::Plain, Fmt::Plain), (Fmt::GzExt, Fmt::Plain)]),
            ("gz_gz_other_sizes", vec![(Fmt::GzNoExt, Fmt::GzExt), (Fmt::GzExt, Fmt::GzNoExt)]),
        ];
        for (variant, explicit) in [(0usize, false), (1, true)] {
            for (name, fmts) in steps.iter() {
                for (k, (ef, vf)) in fmts.iter().enumerate() {
                    let mut c = star(4 + 2 * k + variant, 6 + k, 2 + 3 * k); // other rows, other sizes at every step
                    c.el.fmt = *ef;
                    c.vl.fmt = *vf;
                    c.el.trailing_newline = k % 2 == 0;
                    if explicit {
                        c.ne = Some(c.erows.len());
                        c.nv = Some(c.vrows.len());
                    }
                    c.via_builder = variant == 1 && k == 1;
                    c.seq = Some(format!("{}_{}", name, if explicit { "explicit" } else { "scanned" }));
                    add_files_case(&mut st, &root, c, "reload_same_paths");
                }
            }
        }
    }
    // ---- random cases ----
    let mut rng = Rng::new(a.seed);
    let mut open_seq: Option<(String, usize)> = None; // a random sequence in progress: (tag, loads left)
    while st.next_id() < a.n {
        let mut r = rng.fork();
        let (er, vr) = random_graph(&mut r);
        let mut c = base_case(er, vr);
        c.el = random_layout(&mut r, &ECOLS);
        c.vl = random_layout(&mut r, &VCOLS);
        c.via_builder = r.chance(1, 4);
        let (m, n) = (c.erows.len(), c.vrows.len());
        c.ne = match r.below(6) {
            0 | 1 => Some(m),
            2 => Some(r.below(2 * m as u64 + 3) as usize),
            _ => None,
        };
        c.nv = match r.below(6) {
            0 | 1 => Some(n),
            _ => None,
        };
        if r.chance(1, 5) {
            c.vdec = Some((0..n).map(|_| (midpoint_decimal(&mut r).text(), midpoint_decimal(&mut r).text())).collect());
            c.vl.exp_form = false;
        }
        // one random case in ten opens a sequence of 2-3 loads at the same paths; the next cases continue it
        match open_seq.take() {
            Some((tag, left)) => {
                c.seq = Some(tag.clone());
                if left > 1 {
                    open_seq = Some((tag, left - 1));
                }
            }
            None => {
                if r.chance(1, 10) {
                    let tag = format!("rand{}", st.next_id());
                    c.seq = Some(tag.clone());
                    open_seq = Some((tag, 1 + r.below(2) as usize));
                }
            }
        }
        let mut family = "random_inside";
        // one case in six leaves the hypotheses
        if r.chance(1, 6) {
            family = "random_outside";
            match r.below(6) {
                0 => c.nv = Some(r.below(n as u64 + 4) as usize),
                1 if m > 0 => {
                    let k = r.below(m as u64) as usize;
                    if r.chance(1, 2) {
                        c.erows[k].1 = n + r.below(3) as usize
                    } else {
                        c.erows[k].2 = n + r.below(3) as usize
                    }
                }
                2 if n > 1 => {
                    let (i, j) = (r.below(n as u64) as usize, r.below(n as u64) as usize);
                    c.vrows.swap(i, j);
                    if let Some(t) = c.vdec.as_mut() {
                        t.swap(i, j)
                    }
                }
                3 if m > 1 => {
                    let (i, j) = (r.below(m as u64) as usize, r.below(m as u64) as usize);
                    if r.chance(1, 2) {
                        c.erows.swap(i, j)
                    } else {
                        c.erows[i].0 = c.erows[j].0
                    }
                }
                4 => c.el.blank_lines = 1 + r.below(2) as usize,
                _ => c.vl.blank_lines = 1 + r.below(2) as usize,
            }
        }
        add_files_case(&mut st, &root, c, family);
    }
    st.finish();
}

// ------------------------------------------------------------------ stream `tables`
#[derive(Clone, Copy, Debug, Serialize, Deserialize, PartialEq)]
enum Kind {
    Speed,
    Grade,
    Class,
    Heading,
}
#[derive(Clone, Debug, Serialize, Deserialize)]
struct TCase {
    kind: Kind,
    /// Some(v): a decodable line (v = 4 x value for speed / grade, the class, or arrival*512+departure);
    /// None: a line the decoder must reject
    lines: Vec<Option<i64>>,
    /// for headings: departure column left empty (defaults to the arrival heading)
    fmt: Fmt,
    trailing_newline: bool,
    bad_text: String,
    /// headings only (the one table read through the CSV reader): an extra TEXT column with CSV-special
    /// content placed first
    #[serde(default)]
    extra_first: bool,
    /// member of a sequence of loads at the same path data/seq_<tag>/table.dat (see Case::seq)
    #[serde(default)]
    seq: Option<String>,
    /// gzip only: multi-member gzip file; the readers decode the first member only (see Layout::gz_members)
    #[serde(default)]
    gz_members: usize,
}
/// the table file and the number of its lines (values, bad lines) the readers see
fn table_first_member_rows(c: &TCase) -> usize {
    if c.fmt != Fmt::Plain && c.gz_members >= 2 && c.lines.len() >= 2 {
        (c.lines.len() + c.gz_members - 1) / c.gz_members
    } else {
        c.lines.len()
    }
}
static TSEQ: std::sync::Mutex<Vec<(String, serde_json::Value)>> = std::sync::Mutex::new(Vec::new());
fn write_table_file(root: &Path, id: usize, c: &TCase) -> PathBuf {
    let p = write_table_file_single(root, id, c);
    if table_first_member_rows(c) < c.lines.len() {
        let head = if c.kind == Kind::Heading { 1 } else { 0 };
        let (texts, _) = split_members(&table_text(c), head, c.gz_members);
        write_gz_members(p.clone(), &texts);
    }
    p
}
fn write_table_file_single(root: &Path, id: usize, c: &TCase) -> PathBuf {
    match &c.seq {
        Some(tag) => {
            let dir = root.join("data").join(format!("seq_{}", tag));
            std::fs::create_dir_all(&dir).unwrap();
            write_file_at(dir.join("table.dat"), c.fmt, &table_text(c))
        }
        None => {
            let dir = root.join("data");
            std::fs::create_dir_all(&dir).unwrap();
            write_file(&dir, &format!("table_{:05}", id), c.fmt, &table_text(c))
        }
    }
}
fn prime_table_history(root: &Path, desc: &serde_json::Value) {
    if let Some(h) = desc["history"].as_array() {
        for v in h {
            let c: TCase = serde_json::from_value(v.clone()).unwrap();
            let p = write_table_file(root, 0, &c);
            if let Some(t) = c.seq.clone() {
                TSEQ.lock().unwrap().push((t, v.clone()));
            }
            let _ = catch(move || load_table(&c, &p));
        }
    }
}

fn table_text(c: &TCase) -> String {
    let mut ls: Vec<String> = vec![];
    if c.kind == Kind::Heading {
        ls.push(format!("{}arrival_heading,departure_heading", if c.extra_first { "marker_color," } else { "" }));
    }
    for (ri, l) in c.lines.iter().enumerate() {
        let pre = if c.extra_first && c.kind == Kind::Heading && l.is_some() { format!("{},", special_value(ri * 7 + 12)) } else { String::new() };
        ls.push(pre + &match (l, c.kind) {
            (None, _) => c.bad_text.clone(),
            (Some(v), Kind::Speed) | (Some(v), Kind::Grade) => quarters(*v, false),
            (Some(v), Kind::Class) => v.to_string(),
            (Some(v), Kind::Heading) => {
                let (a, d) = (v / 512, v % 512);
                if a == d && a % 2 == 0 {
                    format!("{},", a) // departure omitted
                } else {
                    format!("{},{}", a, d)
                }
            }
        });
    }
    let mut t = ls.join("\n");
    if c.trailing_newline && !ls.is_empty() {
        t.push('\n');
    }
    t
}

fn load_table(c: &TCase, p: &PathBuf) -> String {
    let show = |v: Vec<i64>| show_list(&v, |x| x.to_string());
    let to_q = |x: f64| -> i64 {
        let y = x * 4.0;
        assert!(y.fract() == 0.0, "table value {} is not a multiple of 1/4", x);
        y as i64
    };
    match c.kind {
        Kind::Speed => {
            let r: Result<Box<[Speed]>, std::io::Error> = read_utils::read_raw_file(p, read_decoders::default, None);
            // the model's own constructor must hold the same table (it rejects empty / all-zero tables)
            let eng = SpeedTraversalEngine::new(p, SpeedUnit::KilometersPerHour, None, None);
            match (&r, &eng) {
                (Ok(t), Ok(e)) => assert_eq!(t.as_ref(), e.speed_table.as_ref()),
                (Ok(t), Err(_)) => assert!(t.iter().all(|s| s.as_f64() == 0.0)),
                (Err(_), Ok(_)) => panic!("SpeedTraversalEngine accepted a table read_raw_file rejects"),
                _ => {}
            }
            match r {
                Ok(t) => show(t.iter().map(|s| to_q(s.as_f64())).collect()),
                Err(_) => "!InvalidData".into(),
            }
        }
        Kind::Grade => {
            let r: Result<Box<[Grade]>, std::io::Error> = read_utils::read_raw_file(p, read_decoders::default, None);
            match r {
                Ok(t) => show(t.iter().map(|s| to_q(s.as_f64())).collect()),
                Err(_) => "!InvalidData".into(),
            }
        }
        Kind::Class => match read_utils::read_raw_file(p, read_decoders::u8, None) {
            Ok(t) => show(t.iter().map(|s| *s as i64).collect()),
            Err(_) => "!InvalidData".into(),
        },
        Kind::Heading => match read_utils::from_csv::<EdgeHeading>(&p.as_path(), true, None) {
            Ok(t) => show(t.iter().map(|h| h.start_heading() as i64 * 512 + h.end_heading() as i64).collect()),
            Err(_) => "!InvalidData".into(),
        },
    }
}

fn add_table_case(st: &mut Stream, root: &Path, c: TCase, family: &str) {
    let id = st.next_id();
    let p = write_table_file(root, id, &c);
    let header = c.kind == Kind::Heading;
    // the model sees the file's lines: the header line of a headings file is a line too
    let mut coq_lines: Vec<Option<i64>> = vec![];
    if header {
        coq_lines.push(None);
    }
    coq_lines.extend(c.lines.iter().take(table_first_member_rows(&c)).cloned());
    if table_first_member_rows(&c) < c.lines.len() {
        st.count("multi_member_gzip(rows_beyond_first_member_absent)");
    }
    let l = coq_list(&coq_lines, |o| coq_opt(o, |v| coq_z(*v as i128)));
    let terms = vec![
        format!("line_tm {} {} {}", id, coq_bool(header), l),
        format!("line_ts {} {} {}", id, coq_bool(header), l),
    ];
    let (cc, pp) = (c.clone(), p.clone());
    let out = catch(move || load_table(&cc, &pp)).unwrap_or_else(|e| format!("!Panic {}", e));
    st.count(&format!("family:{}", family));
    st.count(&format!("kind:{:?}", c.kind));
    st.count(&format!("fmt:{:?}", c.fmt));
    st.count(&format!("trailing_newline:{}", c.trailing_newline));
    st.count(&format!("rows:{}", (c.lines.len() + 9) / 10 * 10));
    let bad = c.lines.iter().any(|l| l.is_none());
    if c.extra_first {
        st.count("extra_first_text_column_with_csv_special_content");
    }
    if bad {
        st.count("has_undecodable_line");
    }
    if c.lines.len() >= 2 && !bad {
        st.mark_nontrivial(&format!("{:?}", c));
    }
    let history: Vec<serde_json::Value> =
        c.seq.as_ref().map(|t| TSEQ.lock().unwrap().iter().filter(|(x, _)| x == t).map(|(_, v)| v.clone()).collect()).unwrap_or_default();
    if let Some(t) = &c.seq {
        st.count(&format!("reload_at_same_path:step{}", history.len() + 1));
        TSEQ.lock().unwrap().push((t.clone(), serde_json::to_value(&c).unwrap()));
    }
    let desc = json!({"id": id, "family": family, "stream": "tables", "history": history, "case": serde_json::to_value(&c).unwrap(), "files": [p.to_str().unwrap()]});
    st.case(terms, vec![format!("I {} {}", id, out)], desc);
}

fn random_value(r: &mut Rng, k: Kind) -> i64 {
    match k {
        Kind::Speed => r.range(0, 520),
        Kind::Grade => r.range(-120, 120),
        Kind::Class => r.range(0, 255),
        Kind::Heading => {
            let a = r.range(0, 359);
            a * 512 + if r.chance(1, 3) { a } else { r.range(0, 359) }
        }
    }
}
fn bad_text(k: Kind, which: u64) -> String {
    match (k, which % 3) {
        (Kind::Heading, 0) => "north,south".into(),
        (Kind::Heading, 1) => "40000,1".into(),
        (Kind::Heading, _) => "x".into(),
        (Kind::Class, 0) => "256".into(),
        (Kind::Class, 1) => "-1".into(),
        (Kind::Speed, 1) => "-0.25".into(),
        (_, 0) => "abc".into(),
        _ => "".into(), // a blank line inside a raw table
    }
}

fn tables_stream(a: &Args) {
    let header = "From Coq Require Import ZArith List String.\nFrom RC Require Import Base.Show Model.Loader Model.LoaderRun.\nImport ListNotations.";
    let mut st = Stream::new(&a.out, "tables", header, a.shards);
    let root = a.out.clone();
    if let Some(p) = &a.replay {
        st.full = true;
        let v: serde_json::Value = serde_json::from_str(&std::fs::read_to_string(p).unwrap()).unwrap();
        let c: TCase = serde_json::from_value(v["case"]["case"].clone()).unwrap();
        prime_table_history(&root, &v["case"]);
        add_table_case(&mut st, &root, c, "replay");
        st.finish();
        return;
    }
    for (name, v) in corpus_cases(a, "tables") {
        let c: TCase = serde_json::from_value(v["case"].clone()).unwrap();
        add_table_case(&mut st, &root, c, &name);
    }
    let kinds = [Kind::Speed, Kind::Grade, Kind::Class, Kind::Heading];
    // boundary: 0..3 rows, every kind, every format, with and without trailing newline
    for k in kinds {
        for n in 0..=3usize {
            for f in FMTS {
                for nl in [true, false] {
                    let lines = (0..n as i64).map(|i| Some(match k { Kind::Heading => (10 * i + 4) * 512 + if i % 2 == 0 { 10 * i + 4 } else { 77 }, _ => 4 * i + 1 })).collect();
                    add_table_case(&mut st, &root, TCase { kind: k, lines, fmt: f, trailing_newline: nl, bad_text: String::new(), extra_first: false, seq: None, gz_members: 0 }, "small_tables");
                }
            }
        }
        // one undecodable line at the start / middle / end
        for pos in 0..3usize {
            for w in 0..3u64 {
                let mut lines: Vec<Option<i64>> = (0..3).map(|i| Some(if k == Kind::Heading { (i + 1) * 512 + 3 } else { i + 1 })).collect();
                lines[pos] = None;
                let mut bt = bad_text(k, w);
                if bt.is_empty() && pos == 2 {
                    bt = " ".into(); // an empty LAST line is not a line; a line holding a space is
                }
                add_table_case(&mut st, &root, TCase { kind: k, lines, fmt: FMTS[pos], trailing_newline: w != 1, bad_text: bt, extra_first: false, seq: None, gz_members: 0 }, "undecodable_line");
            }
        }
    }
    // the table read through the CSV reader, with an extra first TEXT column of CSV-special content
    for f in FMTS {
        let lines = (0..24i64).map(|i| Some((15 * i) * 512 + if i % 3 == 0 { 15 * i } else { 359 - i })).collect();
        add_table_case(&mut st, &root, TCase { kind: Kind::Heading, lines, fmt: f, trailing_newline: true, bad_text: String::new(), extra_first: true, seq: None, gz_members: 0 }, "heading_special_first_column");
    }
    // multi-member gzip tables: the readers decode the first member only
    for k in kinds {
        for members in [2usize, 3] {
            let lines = (0..11i64).map(|i| Some(if k == Kind::Heading { (9 * i + 2) * 512 + 5 * i } else { 3 * i + 1 })).collect();
            add_table_case(&mut st, &root, TCase { kind: k, lines, fmt: if members == 2 { Fmt::GzExt } else { Fmt::GzNoExt }, trailing_newline: members == 2, bad_text: String::new(), extra_first: false, seq: None, gz_members: members }, "multi_member_gzip");
        }
    }
    // sequences of loads at the same path, the table rewritten with the other compression / other rows
    for (name, seqs) in [
        ("t_plain_gz_plain", vec![(Kind::Speed, Fmt::Plain, 5usize), (Kind::Speed, Fmt::GzNoExt, 9), (Kind::Class, Fmt::Plain, 3)]),
        ("t_gz_plain", vec![(Kind::Grade, Fmt::GzExt, 4), (Kind::Grade, Fmt::Plain, 7)]),
        ("t_heading", vec![(Kind::Heading, Fmt::Plain, 6), (Kind::Heading, Fmt::GzNoExt, 2), (Kind::Heading, Fmt::Plain, 8)]),
    ] {
        for (k, f, n) in seqs {
            let lines = (0..n as i64).map(|i| Some(if k == Kind::Heading { (7 * i + n as i64) * 512 + 3 * i } else { 4 * i + n as i64 })).collect();
            add_table_case(&mut st, &root, TCase { kind: k, lines, fmt: f, trailing_newline: n % 2 == 0, bad_text: String::new(), extra_first: false, seq: Some(name.to_string()), gz_members: 0 }, "reload_same_path");
        }
    }
    let mut rng = Rng::new(a.seed);
    while st.next_id() < a.n {
        let mut r = rng.fork();
        let k = *r.pick(&kinds);
        let n = if r.chance(1, 4) { r.below(5) } else { 5 + r.below(70) } as usize;
        let mut lines: Vec<Option<i64>> = (0..n).map(|_| Some(random_value(&mut r, k))).collect();
        let mut family = "random";
        let w = r.below(3);
        let mut bt = bad_text(k, w);
        if r.chance(1, 8) && n > 0 {
            let p = r.below(n as u64) as usize;
            lines[p] = None;
            family = "random_undecodable";
            if bt.is_empty() && p == n - 1 {
                bt = " ".into();
            }
        }
        let extra_first = k == Kind::Heading && r.chance(1, 2);
        add_table_case(&mut st, &root, TCase { kind: k, lines, fmt: *r.pick(&FMTS), trailing_newline: r.chance(1, 2), bad_text: bt, extra_first, seq: None, gz_members: 0 }, family);
    }
    st.finish();
}

// ------------------------------------------------------------------ stream `big`
// LARGE files (around and above 1 MiB on disk, tens of thousands of rows). Evaluating such a case in Coq
// is too slow, so this stream is decided by a HARNESS-SIDE specification: the rows are a pure function of the
// case parameters; the line tagged H is the digest of what the rows say ("row i is edge i / vertex i",
// out / in edges of every vertex = the rows leaving / entering it, in row order), the line tagged I the same
// digest computed from the accessors of the loaded graph.
#[derive(Clone, Debug, Serialize, Deserialize)]
struct BigCase {
    seed: u64,
    n_edges: usize,
    n_vertices: usize,
    efmt: Fmt,
    vfmt: Fmt,
    /// an extra column of random text (keeps the COMPRESSED file above 1 MiB too)
    random_text_column: bool,
    trailing_newline: bool,
    explicit_counts: bool,
}
fn big_rows(c: &BigCase) -> (Vec<(usize, usize, i64)>, Vec<(i64, i64)>) {
    let mut r = Rng::new(c.seed ^ 0xB16);
    let nv = c.n_vertices as u64;
    let hubs = [r.below(nv) as usize, r.below(nv) as usize];
    let es = (0..c.n_edges)
        .map(|i| {
            let s = if i % 40 == 7 { hubs[0] } else { r.below(nv) as usize };
            let d = if i % 50 == 9 { hubs[1] } else { r.below(nv) as usize };
            (s, d, r.range(0, 400_000))
        })
        .collect();
    let vs = (0..c.n_vertices).map(|_| (r.range(-72_000, 72_000), r.range(-36_000, 36_000))).collect();
    (es, vs)
}
fn h_mix(h: &mut u64, x: u64) {
    *h = (*h ^ x).wrapping_mul(0x100000001b3).rotate_left(5);
}
fn big_text(c: &BigCase) -> (String, String) {
    let (es, vs) = big_rows(c);
    let mut r = Rng::new(c.seed ^ 0x7E87);
    let mut junk = |r: &mut Rng| -> String { (0..5).map(|_| format!("{:016x}", r.next_u64())).collect() };
    let mut e = String::with_capacity(es.len() * 40);
    e.push_str(if c.random_text_column { "edge_id,src_vertex_id,note,dst_vertex_id,distance" } else { "edge_id,src_vertex_id,dst_vertex_id,distance" });
    for (i, (s, d, q)) in es.iter().enumerate() {
        e.push('\n');
        if c.random_text_column {
            e.push_str(&format!("{},{},{},{},{}", i, s, junk(&mut r), d, quarters(*q, false)));
        } else {
            e.push_str(&format!("{},{},{},{}", i, s, d, quarters(*q, false)));
        }
    }
    let mut v = String::with_capacity(vs.len() * 40);
    v.push_str(if c.random_text_column { "note,vertex_id,x,y" } else { "vertex_id,x,y" });
    for (i, (x, y)) in vs.iter().enumerate() {
        v.push('\n');
        if c.random_text_column {
            v.push_str(&format!("{},{},{},{}", junk(&mut r), i, quarters(*x, false), quarters(*y, false)));
        } else {
            v.push_str(&format!("{},{},{}", i, quarters(*x, false), quarters(*y, false)));
        }
    }
    if c.trailing_newline {
        e.push('\n');
        v.push('\n');
    }
    (e, v)
}
/// digest of a network given as (per edge i: id, src, dst, distance bits), (per vertex i: id, x bits, y bits),
/// out / in edge lists per vertex; plus the first row index whose id is not its index
fn big_digest(
    edges: &[(usize, usize, usize, u64)],
    verts: &[(usize, u32, u32)],
    out: &[Vec<usize>],
    inn: &[Vec<usize>],
    sizes: (usize, usize),
) -> String {
    let (mut he, mut hv, mut ho, mut hi) = (1u64, 2u64, 3u64, 4u64);
    let mut bad_e = None;
    for (i, (id, s, d, b)) in edges.iter().enumerate() {
        for x in [i as u64, *id as u64, *s as u64, *d as u64, *b] {
            h_mix(&mut he, x);
        }
        if *id != i && bad_e.is_none() {
            bad_e = Some(i);
        }
    }
    let mut bad_v = None;
    for (i, (id, x, y)) in verts.iter().enumerate() {
        for z in [i as u64, *id as u64, *x as u64, *y as u64] {
            h_mix(&mut hv, z);
        }
        if *id != i && bad_v.is_none() {
            bad_v = Some(i);
        }
    }
    let mut maxdeg = 0;
    for (v, l) in out.iter().enumerate() {
        h_mix(&mut ho, v as u64 ^ 0xAAAA);
        maxdeg = maxdeg.max(l.len());
        for e in l {
            h_mix(&mut ho, *e as u64);
        }
    }
    for (v, l) in inn.iter().enumerate() {
        h_mix(&mut hi, v as u64 ^ 0x5555);
        maxdeg = maxdeg.max(l.len());
        for e in l {
            h_mix(&mut hi, *e as u64);
        }
    }
    format!(
        "ne={} nv={} al={} rl={} edges_by_id=#{:016x} first_edge_row_with_other_id={} vertices_by_id=#{:016x} first_vertex_row_with_other_id={} out_edges=#{:016x} in_edges=#{:016x} max_degree={}",
        edges.len(), verts.len(), sizes.0, sizes.1, he, show_opt(&bad_e, |x| x.to_string()), hv, show_opt(&bad_v, |x| x.to_string()), ho, hi, maxdeg
    )
}
fn add_big_case(st: &mut Stream, root: &Path, c: BigCase, family: &str) {
    let id = st.next_id();
    let dir = root.join("data").join(format!("big_{:03}", id));
    std::fs::create_dir_all(&dir).unwrap();
    let (etext, vtext) = big_text(&c);
    let ep = write_file(&dir, "edges", c.efmt, &etext);
    let vp = write_file(&dir, "vertices", c.vfmt, &vtext);
    let (esz, vsz) = (std::fs::metadata(&ep).unwrap().len(), std::fs::metadata(&vp).unwrap().len());
    // H: what the rows say
    let (es, vs) = big_rows(&c);
    let n = c.n_vertices;
    let (mut out, mut inn) = (vec![vec![]; n], vec![vec![]; n]);
    for (i, (s, d, _)) in es.iter().enumerate() {
        out[*s].push(i);
        inn[*d].push(i);
    }
    let h = big_digest(
        &es.iter().enumerate().map(|(i, (s, d, q))| (i, *s, *d, (*q as f64 / 4.0).to_bits())).collect::<Vec<_>>(),
        &vs.iter().enumerate().map(|(i, (x, y))| (i, (*x as f32 / 4.0).to_bits(), (*y as f32 / 4.0).to_bits())).collect::<Vec<_>>(),
        &out, &inn, (n, n),
    );
    // I: what the loaded graph says
    let (cc, e2, v2) = (c.clone(), ep.clone(), vp.clone());
    let i_line = catch(move || {
        let (ne, nv) = if cc.explicit_counts { (Some(cc.n_edges), Some(cc.n_vertices)) } else { (None, None) };
        match Graph::from_files(&e2, &v2, ne, nv, Some(false)) {
            Err(e) => format!("!{}", net_err(&e)),
            Ok(g) => {
                let edges: Vec<(usize, usize, usize, u64)> = (0..g.n_edges())
                    .map(|i| {
                        let e = g.get_edge(&EdgeId(i)).unwrap();
                        (e.edge_id.0, e.src_vertex_id.0, e.dst_vertex_id.0, e.distance.as_f64().to_bits())
                    })
                    .collect();
                let verts: Vec<(usize, u32, u32)> = (0..g.n_vertices())
                    .map(|i| {
                        let v = g.get_vertex(&VertexId(i)).unwrap();
                        (v.vertex_id.0, v.x().to_bits(), v.y().to_bits())
                    })
                    .collect();
                let nn = g.adj.len().max(g.n_vertices());
                let out: Vec<Vec<usize>> = (0..nn).map(|v| g.out_edges(&VertexId(v)).iter().map(|e| e.0).collect()).collect();
                let inn: Vec<Vec<usize>> = (0..nn).map(|v| g.in_edges(&VertexId(v)).iter().map(|e| e.0).collect()).collect();
                big_digest(&edges, &verts, &out, &inn, (g.adj.len(), g.rev.len()))
            }
        }
    })
    .unwrap_or_else(|e| format!("!Panic {}", e));
    st.count(&format!("family:{}", family));
    st.count(&format!("edge_file_on_disk:{}", if esz >= 1 << 20 { ">=1MiB" } else { "<1MiB" }));
    st.count(&format!("vertex_file_on_disk:{}", if vsz >= 1 << 20 { ">=1MiB" } else { "<1MiB" }));
    st.count(&format!("edge_fmt:{:?}", c.efmt));
    st.count(&format!("vertex_fmt:{:?}", c.vfmt));
    st.mark_nontrivial(&format!("{:?}", c));
    let desc = json!({"id": id, "family": family, "stream": "big", "case": serde_json::to_value(&c).unwrap(),
        "files": [ep.to_str().unwrap(), vp.to_str().unwrap()], "bytes_on_disk": [esz, vsz]});
    st.case(vec![], vec![format!("I {} {}", id, i_line), format!("H {} {}", id, h)], desc);
}
/// a LARGE per-edge table (thousands of rows, decompressed size well above the 8 KiB of a BufReader fill), rows of
/// varying width; the values are a pure function of the parameters
#[derive(Clone, Debug, Serialize, Deserialize)]
struct BigTable {
    seed: u64,
    kind: Kind,
    rows: usize,
    fmt: Fmt,
    trailing_newline: bool,
}
/// (value, text): speeds / grades are multiples of 1/8 written with 0-3 decimals ("7", "62.50", "120.125"),
/// classes 0..255, headings a pair of angles
fn big_table_rows(c: &BigTable) -> Vec<(i64, String)> {
    let mut r = Rng::new(c.seed ^ 0x7AB1E);
    (0..c.rows)
        .map(|_| match c.kind {
            Kind::Class => {
                let v = r.range(0, 255);
                (v, v.to_string())
            }
            Kind::Heading => {
                let (a, d) = (r.range(0, 359), r.range(0, 359));
                (a * 512 + d, format!("{},{}", a, d))
            }
            Kind::Speed | Kind::Grade => {
                let e = match r.below(4) { 0 => r.range(0, 15) * 8, 1 => r.range(0, 2000) * 4, 2 => r.range(0, 1200), _ => r.range(0, 100_000) };
                let e = if c.kind == Kind::Grade && r.chance(1, 2) { -e } else { e };
                let x = e as f64 / 8.0;
                let min_dec = if e % 8 == 0 { 0 } else if e % 4 == 0 { 1 } else if e % 2 == 0 { 2 } else { 3 };
                let dec = min_dec + r.below((4 - min_dec) as u64) as usize; // "62.5" or "62.50" or "62.500"
                (e, format!("{:.*}", dec, x))
            }
        })
        .collect()
}
fn table_digest(vals: &[i64]) -> String {
    let mut h = 5u64;
    for (i, v) in vals.iter().enumerate() {
        h_mix(&mut h, i as u64);
        h_mix(&mut h, *v as u64);
    }
    format!("rows={} values_by_row=#{:016x}", vals.len(), h)
}
fn add_big_table(st: &mut Stream, root: &Path, c: BigTable, family: &str) {
    let id = st.next_id();
    let dir = root.join("data");
    std::fs::create_dir_all(&dir).unwrap();
    let rows = big_table_rows(&c);
    let mut text = String::new();
    if c.kind == Kind::Heading {
        text.push_str("arrival_heading,departure_heading\n");
    }
    text.push_str(&rows.iter().map(|(_, t)| t.as_str()).collect::<Vec<_>>().join("\n"));
    if c.trailing_newline {
        text.push('\n');
    }
    let p = write_file(&dir, &format!("bigtable_{:03}", id), c.fmt, &text);
    let want: Vec<i64> = rows.iter().map(|(v, _)| *v).collect();
    let h = format!("{} first_row_with_other_value=None", table_digest(&want));
    let (cc, pp, ww) = (c.clone(), p.clone(), want.clone());
    let i_line = catch(move || {
        let got: Result<Vec<i64>, String> = match cc.kind {
            Kind::Speed => {
                let t: Result<Box<[Speed]>, std::io::Error> = read_utils::read_raw_file(&pp, read_decoders::default, None);
                if let (Ok(t), Ok(e)) = (&t, SpeedTraversalEngine::new(&pp, SpeedUnit::KilometersPerHour, None, None)) {
                    assert_eq!(t.as_ref(), e.speed_table.as_ref());
                }
                t.map(|t| t.iter().map(|s| (s.as_f64() * 8.0) as i64).collect()).map_err(|e| e.to_string())
            }
            Kind::Grade => {
                let t: Result<Box<[Grade]>, std::io::Error> = read_utils::read_raw_file(&pp, read_decoders::default, None);
                t.map(|t| t.iter().map(|s| (s.as_f64() * 8.0) as i64).collect()).map_err(|e| e.to_string())
            }
            Kind::Class => read_utils::read_raw_file(&pp, read_decoders::u8, None).map(|t| t.iter().map(|s| *s as i64).collect()).map_err(|e| e.to_string()),
            Kind::Heading => read_utils::from_csv::<EdgeHeading>(&pp.as_path(), true, None)
                .map(|t| t.iter().map(|h| h.start_heading() as i64 * 512 + h.end_heading() as i64).collect())
                .map_err(|e| e.to_string()),
        };
        match got {
            Err(e) => format!("!Err({})", e.replace('\n', " ")),
            Ok(g) => {
                let bad = (0..g.len().max(ww.len())).find(|i| g.get(*i) != ww.get(*i));
                format!("{} first_row_with_other_value={}", table_digest(&g), show_opt(&bad, |x| x.to_string()))
            }
        }
    })
    .unwrap_or_else(|e| format!("!Panic {}", e));
    st.count(&format!("family:{}", family));
    st.count(&format!("table_kind:{:?}", c.kind));
    st.count(&format!("table_fmt:{:?}", c.fmt));
    st.count(&format!("table_text_bytes:{}", match text.len() { 0..=8191 => "<8KiB", 8192..=65535 => "8-64KiB", _ => ">=64KiB" }));
    st.mark_nontrivial(&format!("{:?}", c));
    let desc = json!({"id": id, "family": family, "stream": "big", "big_table": serde_json::to_value(&c).unwrap(),
        "files": [p.to_str().unwrap()], "text_bytes": text.len()});
    st.case(vec![], vec![format!("I {} {}", id, i_line), format!("H {} {}", id, h)], desc);
}

fn big_stream(a: &Args) {
    let mut st = Stream::new(&a.out, "big", "", 1);
    st.full = true; // digests are short, never hashed again
    let root = a.out.clone();
    if let Some(p) = &a.replay {
        let v: serde_json::Value = serde_json::from_str(&std::fs::read_to_string(p).unwrap()).unwrap();
        if v["case"]["big_table"].is_object() {
            let c: BigTable = serde_json::from_value(v["case"]["big_table"].clone()).unwrap();
            add_big_table(&mut st, &root, c, "replay");
            st.finish();
            return;
        }
        let c: BigCase = serde_json::from_value(v["case"]["case"].clone()).unwrap();
        add_big_case(&mut st, &root, c, "replay");
        st.finish();
        return;
    }
    let mut r = Rng::new(a.seed ^ 0xB16B16);
    let j = |r: &mut Rng, n: usize| n + r.below(n as u64 / 20) as usize;
    // both files just above 1 MiB, plain
    let mut cases = vec![
        ("plain_just_above_1MiB", BigCase { seed: r.next_u64(), n_edges: j(&mut r, 52_000), n_vertices: j(&mut r, 62_000), efmt: Fmt::Plain, vfmt: Fmt::Plain, random_text_column: false, trailing_newline: true, explicit_counts: false }),
        // compressed size above 1 MiB as well (random text column)
        ("gzip_above_1MiB_on_disk", BigCase { seed: r.next_u64(), n_edges: j(&mut r, 30_000), n_vertices: j(&mut r, 30_000), efmt: Fmt::GzExt, vfmt: Fmt::GzNoExt, random_text_column: true, trailing_newline: false, explicit_counts: true }),
        // about 3 MiB of edges, small vertex file
        ("plain_edges_3MiB", BigCase { seed: r.next_u64(), n_edges: j(&mut r, 135_000), n_vertices: j(&mut r, 9_000), efmt: Fmt::Plain, vfmt: Fmt::GzExt, random_text_column: false, trailing_newline: false, explicit_counts: false }),
        // gzip whose compressed size stays below 1 MiB while the text is above
        ("gzip_text_above_1MiB", BigCase { seed: r.next_u64(), n_edges: j(&mut r, 52_000), n_vertices: j(&mut r, 62_000), efmt: Fmt::GzNoExt, vfmt: Fmt::GzExt, random_text_column: false, trailing_newline: true, explicit_counts: false }),
    ];
    while cases.len() < a.n {
        let big = r.chance(1, 3);
        cases.push(("random", BigCase {
            seed: r.next_u64(),
            n_edges: if big { j(&mut r, 120_000) } else { j(&mut r, 50_000) },
            n_vertices: if r.chance(1, 2) { j(&mut r, 60_000) } else { j(&mut r, 5_000) },
            efmt: *r.pick(&FMTS), vfmt: *r.pick(&FMTS),
            random_text_column: r.chance(1, 2), trailing_newline: r.chance(1, 2), explicit_counts: r.chance(1, 3),
        }));
    }
    cases.truncate(a.n.max(1));
    for (name, v) in corpus_cases(a, "big") {
        if v["big_table"].is_object() {
            let c: BigTable = serde_json::from_value(v["big_table"].clone()).unwrap();
            add_big_table(&mut st, &root, c, &name);
        } else {
            let c: BigCase = serde_json::from_value(v["case"].clone()).unwrap();
            add_big_case(&mut st, &root, c, &name);
        }
    }
    for (name, c) in cases {
        add_big_case(&mut st, &root, c, name);
    }
    // large per-edge tables: 3000 / 6000 / 20000 / 70000 rows of varying width, gzip and plain (quick: the first six)
    let sizes = [(3000usize, Kind::Speed, Fmt::GzExt), (6000, Kind::Grade, Fmt::GzNoExt), (20000, Kind::Class, Fmt::GzExt), (70000, Kind::Speed, Fmt::GzNoExt),
        (3000, Kind::Speed, Fmt::Plain), (20000, Kind::Heading, Fmt::GzExt), (6000, Kind::Class, Fmt::Plain), (70000, Kind::Grade, Fmt::GzExt),
        (20000, Kind::Speed, Fmt::GzExt), (6000, Kind::Heading, Fmt::Plain), (3000, Kind::Class, Fmt::GzNoExt), (70000, Kind::Class, Fmt::Plain)];
    let nt = if a.n <= 4 { 6 } else { sizes.len() };
    for (k, (rows, kind, fmt)) in sizes.iter().take(nt).enumerate() {
        let rows = rows + r.below(*rows as u64 / 10) as usize;
        add_big_table(&mut st, &root, BigTable { seed: r.next_u64(), kind: *kind, rows, fmt: *fmt, trailing_newline: k % 2 == 0 }, "big_tables");
    }
    st.finish();
}

// ------------------------------------------------------------------ stream `graphops`
// the read-back API of the application: SearchAppGraphOps on the SearchApp of a CompassApp built (through its
// TOML configuration) from generated edge / vertex files
fn app_err(e: &routee_compass::app::compass::compass_app_error::CompassAppError) -> String {
    use routee_compass::app::compass::compass_app_error::CompassAppError as E;
    match e {
        E::NetworkFailure { source } => format!("!{}", net_err(source)),
        other => format!("!App({})", other),
    }
}
const DUNITS: [Option<routee_compass_core::model::unit::DistanceUnit>; 6] = {
    use routee_compass_core::model::unit::DistanceUnit as D;
    [None, Some(D::Meters), Some(D::Kilometers), Some(D::Miles), Some(D::Inches), Some(D::Feet)]
};
/// (topology line, distance line, distances as Gallina term)
fn graph_ops(c: &Case, ep: &PathBuf, vp: &PathBuf, dir: &Path) -> (String, String, String) {
    use routee_compass::app::compass::compass_app::CompassApp;
    use routee_compass::app::compass::config::compass_app_builder::CompassAppBuilder;
    use routee_compass::app::search::search_app_graph_ops::SearchAppGraphOps;
    let mut toml = format!(
        "parallelism = 1\n[graph]\nedge_list_input_file = \"{}\"\nvertex_list_input_file = \"{}\"\nverbose = false\n",
        ep.to_str().unwrap(),
        vp.to_str().unwrap()
    );
    if let Some(n) = c.ne {
        toml += &format!("n_edges = {}\n", n);
    }
    if let Some(n) = c.nv {
        toml += &format!("n_vertices = {}\n", n);
    }
    let conf = dir.join("compass.toml");
    std::fs::write(&conf, &toml).unwrap();
    let app = match CompassApp::try_from_config_toml_string(toml, conf.to_str().unwrap().to_string(), &CompassAppBuilder::default()) {
        Ok(a) => a,
        Err(e) => {
            let m = format!("!build({})", e).replace('\n', " ");
            return (m.clone(), m, "[]".into());
        }
    };
    let sa = &app.search_app;
    let (ne, nv) = (c.erows.len(), c.vrows.len());
    let es: Vec<usize> = (0..ne + 2).collect();
    let vs: Vec<usize> = (0..nv + 2).collect();
    let topo = format!(
        "og={} ds={} if={} ir={}",
        show_list(&es, |i| match sa.get_edge_origin(&EdgeId(*i)) { Ok(v) => v.0.to_string(), Err(e) => app_err(&e) }),
        show_list(&es, |i| match sa.get_edge_destination(&EdgeId(*i)) { Ok(v) => v.0.to_string(), Err(e) => app_err(&e) }),
        show_list(&vs, |v| ids(&sa.get_incident_edge_ids(&VertexId(*v), &Direction::Forward))),
        show_list(&vs, |v| ids(&sa.get_incident_edge_ids(&VertexId(*v), &Direction::Reverse))),
    );
    let d: Vec<Vec<Result<f64, String>>> = es
        .iter()
        .map(|i| DUNITS.iter().map(|u| sa.get_edge_distance(&EdgeId(*i), *u).map(|x| x.as_f64()).map_err(|e| app_err(&e))).collect())
        .collect();
    let dist = show_list(&d, |row| show_list(row, |r| match r { Ok(x) => show_f64(*x), Err(e) => e.clone() }));
    let coq = coq_list(&d, |row| coq_list(row, |r| match r { Ok(x) => format!("(Some {})", coq_f64(*x)), Err(_) => "None".into() }));
    (topo, dist, coq)
}
fn add_ops_case(st: &mut Stream, root: &Path, c: Case, family: &str) {
    let id = st.next_id();
    let (ep, vp, _, _, _, _, _) = write_case_files(root, id, &c);
    let dir = ep.parent().unwrap().to_path_buf();
    let (cc, e2, v2) = (c.clone(), ep.clone(), vp.clone());
    let (topo, dist, coq_d) = catch(move || graph_ops(&cc, &e2, &v2, &dir)).unwrap_or_else(|e| {
        let m = format!("!Panic {}", e);
        (m.clone(), m, "[]".into())
    });
    // distances enter the model as the binary64 value of the k/4 written in the file
    let coq_e = coq_list(&c.erows, |(i, s, d, q)| format!("({},{},{},{})", coq_nat(*i), coq_nat(*s), coq_nat(*d), coq_f64(*q as f64 / 4.0)));
    let args = format!("{} {} {} {} {}", id, coq_e, coq_nat(c.vrows.len()), coq_onat(&c.ne), coq_onat(&c.nv));
    let terms = vec![
        format!("line_gm {}", args),
        format!("line_gs {}", args),
        format!("line_gdm {}", args),
        format!("line_gdv {} {} {}", id, coq_e, coq_d),
    ];
    st.count(&format!("family:{}", family));
    st.count(&format!("edges:{}", (c.erows.len() + 9) / 10 * 10));
    st.count(&format!("edge_fmt:{:?}", c.el.fmt));
    st.count(&format!("counts:{}", if c.ne.is_some() || c.nv.is_some() { "explicit" } else { "scanned" }));
    if c.erows.iter().any(|r| r.3 == 0) {
        st.count("zero_length_edge");
    }
    if c.erows.len() >= 2 {
        st.mark_nontrivial(&format!("{:?}", c));
    }
    let desc = json!({"id": id, "family": family, "stream": "graphops", "case": serde_json::to_value(&c).unwrap(),
        "files": [ep.to_str().unwrap(), vp.to_str().unwrap()]});
    st.case(terms, vec![format!("I {} {}", id, topo), format!("ID {} {}", id, dist)], desc);
}
fn graphops_stream(a: &Args) {
    let header = "From Coq Require Import ZArith List String Floats.\nFrom RC Require Import Base.Show Model.Loader Model.LoaderOpsRun.\nImport ListNotations.";
    let mut st = Stream::new(&a.out, "graphops", header, a.shards);
    let root = a.out.clone();
    if let Some(p) = &a.replay {
        st.full = true;
        let v: serde_json::Value = serde_json::from_str(&std::fs::read_to_string(p).unwrap()).unwrap();
        let c: Case = serde_json::from_value(v["case"]["case"].clone()).unwrap();
        add_ops_case(&mut st, &root, c, "replay");
        st.finish();
        return;
    }
    for (name, v) in corpus_cases(a, "graphops") {
        let c: Case = serde_json::from_value(v["case"].clone()).unwrap();
        add_ops_case(&mut st, &root, c, &name);
    }
    // lengths the published demo used (1000 m, 250 m, 1609.34 is not k/4: 1609.25), 0 m, a 1/4 m edge, a long edge
    {
        let vr: Vec<(usize, i64, i64)> = (0..4).map(|i| (i, i as i64 * 4, 8 - i as i64)).collect();
        let er = vec![(0, 0, 1, 4000), (1, 1, 2, 1000), (2, 2, 3, 6437), (3, 3, 0, 20000), (4, 0, 0, 0), (5, 0, 2, 1), (6, 1, 3, 4_000_000_000)];
        for (k, fmt) in FMTS.iter().enumerate() {
            let mut c = base_case(er.clone(), vr.clone());
            c.el.fmt = *fmt;
            c.vl.fmt = FMTS[(k + 1) % 3];
            if k == 1 {
                c.ne = Some(7);
                c.nv = Some(4);
            }
            add_ops_case(&mut st, &root, c, "fixed_lengths");
        }
    }
    for d in [0usize, 1, 4, 5, 6, 9] {
        add_ops_case(&mut st, &root, star(6, d, (d + 3) % 8), "star_degrees");
    }
    add_ops_case(&mut st, &root, base_case(vec![], vec![(0, 0, 0)]), "no_edges");
    let mut rng = Rng::new(a.seed ^ 0x6095);
    while st.next_id() < a.n {
        let mut r = rng.fork();
        let (mut er, vr) = random_graph(&mut r);
        if vr.is_empty() {
            continue;
        }
        er.truncate(30);
        for e in er.iter_mut() {
            // lengths from 0 to 10^6 m, some tiny, some huge
            e.3 = match r.below(8) { 0 => r.range(0, 8), 1 => r.range(1_000_000, 4_000_000_000), _ => e.3 * 4 + r.range(0, 3) };
        }
        let mut c = base_case(er, vr);
        c.el = random_layout(&mut r, &ECOLS);
        c.vl = random_layout(&mut r, &VCOLS);
        c.el.gz_members = 0; // multi-member gzip files belong to the files / tables streams
        c.vl.gz_members = 0;
        if r.chance(1, 3) {
            c.ne = Some(c.erows.len());
            c.nv = Some(c.vrows.len());
        }
        add_ops_case(&mut st, &root, c, "random");
    }
    st.finish();
}

fn main() {
    if std::env::var("C15_DEBUG").is_err() { silence_panics(); }
    let a = parse_args();
    match a.stream.as_str() {
        "files" => files_stream(&a),
        "tables" => tables_stream(&a),
        "big" => big_stream(&a),
        "graphops" => graphops_stream(&a),
        s => panic!("unknown stream {}", s),
    }
}
