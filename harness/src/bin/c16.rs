//! C16 harness: map matching (streams `vertex` and `edge`).
//!
//! Builds the REAL plugins through their config builders (VertexRTreeBuilder / EdgeRtreeInputPluginBuilder)
//! from files written under the stream's --out directory, calls `InputPlugin::process` on generated
//! queries and prints, per case:
//!   I  the implementation's outcome (`Ok <query after>` / `Err <class> <query after>`), canonical,
//!   M  the Gallina term that makes the model print the same line,
//!   S  the Gallina term that makes the specification (exhaustive scan in Q) print the same line.
//! All coordinates are multiples of 1/16 degree and every (coordinate, candidate) pair satisfies
//! (16 dx)^2 + (16 dy)^2 < 2^24, so the f32 arithmetic of `distance_2` is exact (asserted here).
//! Great-circle distances (f32 haversine) and the per-edge vehicle-restriction verdicts are taken from the
//! real functions and handed to the model as tables.
use geo::{Centroid, Coord, LineString};
use routee_compass::app::compass::config::builders::InputPluginBuilder;
use routee_compass::app::compass::config::frontier_model::vehicle_restrictions::{
    vehicle_parameters::VehicleParameters,
};
use routee_compass::plugin::input::default::edge_rtree::edge_rtree_input_plugin_builder::EdgeRtreeInputPluginBuilder;
use routee_compass::plugin::input::default::vertex_rtree::builder::VertexRTreeBuilder;
use routee_compass::plugin::input::input_plugin::InputPlugin;
use routee_compass::plugin::input::InputPluginError;
use routee_compass_core::model::network::edge_id::EdgeId;
use routee_compass_core::model::unit::as_f64::AsF64;
use routee_compass_core::model::unit::{Distance, DistanceUnit};
use routee_compass_core::util::geo::haversine;
use serde::{Deserialize, Serialize};
use serde_json::{json, Map, Value};
use std::path::{Path, PathBuf};
use std::sync::Arc;
use verif_harness::*;

const UNITS: [&str; 5] = ["meters", "kilometers", "miles", "inches", "feet"];
const BAND: f64 = 5e-4; // = MM.unit_band

fn unit_of(s: &str) -> DistanceUnit {
    serde_json::from_value(json!(s)).unwrap()
}
fn coq_unit(s: &str) -> &'static str {
    match s {
        "meters" => "Meters",
        "kilometers" => "Kilometers",
        "miles" => "Miles",
        "inches" => "Inches",
        "feet" => "Feet",
        _ => panic!("unit"),
    }
}
/// exact SI metres per unit (= MM.si_m)
fn si_m(s: &str) -> f64 {
    match s {
        "meters" => 1.0,
        "kilometers" => 1000.0,
        "miles" => 1609.344,
        "inches" => 0.0254,
        "feet" => 0.3048,
        _ => panic!("unit"),
    }
}

// ---------------------------------------------------------------- case descriptions (replayable)
type P = (i64, i64); // coordinates in 1/16 degree

#[derive(Serialize, Deserialize, Clone, Debug)]
struct VCase {
    family: String,
    vertices: Vec<(u64, i64, i64)>, // id, x16, y16 (file order)
    tol_bits: Option<u64>,
    unit: Option<String>,
    query: Value,
    /// further queries processed, in order, by the SAME plugin instance after `query`
    #[serde(default)]
    seq: Vec<Value>,
}
#[derive(Serialize, Deserialize, Clone, Debug)]
struct ECase {
    family: String,
    edges: Vec<Vec<P>>,                              // linestring points, 1/16 degree; edge id = index
    classes: Option<Vec<u8>>,                        // road class file
    restrictions: Option<Vec<(usize, String, f64, String)>>, // vehicle restriction rows
    mapping: Vec<(String, u8)>,                      // road class parser mapping
    tol_bits: Option<u64>,
    unit: Option<String>,
    query: Value,
    /// further queries processed, in order, by the SAME plugin instance after `query`
    #[serde(default)]
    seq: Vec<Value>,
    /// further STAGES: each rewrites the files of this case in place (same paths) and builds a NEW plugin from them
    #[serde(default)]
    then: Vec<ECase>,
}

fn dec(v16: i64) -> String {
    format!("{}", v16 as f64 / 16.0)
}
fn coq_q16(v16: i64) -> String {
    format!("(Qmake {} 16)", if v16 < 0 { format!("({})", v16) } else { v16.to_string() })
}
fn coq_pt(p: P) -> String {
    format!("({}, {})", coq_q16(p.0), coq_q16(p.1))
}
fn d2_16(a: P, b: P) -> i64 {
    let (dx, dy) = (a.0 - b.0, a.1 - b.1);
    let s = dx * dx + dy * dy;
    assert!(s < (1 << 24), "squared distance not exact in f32: {:?} {:?}", a, b);
    s
}
fn gcd(a: i64, b: i64) -> i64 {
    if b == 0 {
        a.abs()
    } else {
        gcd(b, a % b)
    }
}
/// Show.show_Q of d2 (units of 1/256)
fn show_d2(s: i64) -> String {
    let g = gcd(s, 256).max(1);
    format!("{}/{}", s / g, 256 / g)
}
fn on_grid(x: f64) -> Option<i64> {
    let v = x * 16.0;
    if v.is_finite() && v == v.round() && v.abs() < 1e7 {
        Some(v as i64)
    } else {
        None
    }
}
/// the coordinate accessors of input_json_extensions.rs, on the harness side (for the oracle table
/// and the by-distance mask only)
fn coord_of(q: &Value, kx: &str, ky: &str) -> Option<P> {
    let x = q.get(kx)?.as_f64()?;
    let y = q.get(ky)?.as_f64()?;
    Some((on_grid(x)?, on_grid(y)?))
}
fn origin_of(q: &Value) -> Option<P> {
    coord_of(q, "origin_x", "origin_y")
}
fn dest_of(q: &Value) -> Option<P> {
    // only when the origin parses too and both destination fields are numbers
    origin_of(q)?;
    coord_of(q, "destination_x", "destination_y")
}
fn hav(a: P, b: P) -> Option<f64> {
    let ca = Coord { x: (a.0 as f64 / 16.0) as f32, y: (a.1 as f64 / 16.0) as f32 };
    let cb = Coord { x: (b.0 as f64 / 16.0) as f32, y: (b.1 as f64 / 16.0) as f32 };
    haversine::coord_distance_meters(&ca, &cb).ok().map(|d| d.as_f64())
}
fn in_range(p: P) -> bool {
    p.0.abs() <= 180 * 16 && p.1.abs() <= 90 * 16
}

fn class_of(e: &InputPluginError) -> String {
    match e {
        InputPluginError::BuildFailed(_) => "BuildFailed".into(),
        InputPluginError::MissingExpectedQueryField(f) => format!("MissingExpectedQueryField:{}", f),
        InputPluginError::MissingQueryFieldPair(a, b) => format!("MissingQueryFieldPair:{},{}", a, b),
        InputPluginError::QueryFieldHasInvalidType(f, _) => format!("QueryFieldHasInvalidType:{}", f),
        InputPluginError::UnexpectedQueryStructure(_) => "UnexpectedQueryStructure".into(),
        InputPluginError::JsonError { .. } => "JsonError".into(),
        InputPluginError::InputPluginFailed(_) => "InputPluginFailed".into(),
        InputPluginError::InternalError(_) => "InternalError".into(),
    }
}

/// the by-distance mask (= MMRun.mask): matched ids are replaced by the squared distance of that candidate
fn mask(bydist: bool, cands: &[(u64, P)], query: &Value, ko: &str, kd: &str, st: &Value) -> Value {
    if !bydist {
        return st.clone();
    }
    let mut out = st.clone();
    for (key, pt) in [(ko, origin_of(query)), (kd, dest_of_for_mask(query))] {
        if let (Some(p), Value::Object(m)) = (pt, &mut out) {
            if let Some(v) = m.get(key) {
                if let Some(i) = v.as_u64() {
                    if let Some((_, c)) = cands.iter().find(|(id, _)| *id == i) {
                        m.insert(key.to_string(), Value::String(show_d2(d2_16(*c, p))));
                    }
                }
            }
        }
    }
    out
}
/// MMRun.dcoord_of (get_destination_coordinate ...): does not require the origin to parse
fn dest_of_for_mask(q: &Value) -> Option<P> {
    coord_of(q, "destination_x", "destination_y")
}

fn run_plugin(p: Arc<dyn InputPlugin>, query: &Value) -> (Value, String) {
    let q0 = query.clone();
    let r = catch(std::panic::AssertUnwindSafe(move || {
        let mut qq = q0;
        let r = p.process(&mut qq);
        (qq, r.map_err(|e| class_of(&e)))
    }));
    match r {
        Ok((qq, Ok(()))) => (qq, "Ok".into()),
        Ok((qq, Err(c))) => (qq, format!("Err {}", c)),
        Err(_) => (query.clone(), "Panic".into()),
    }
}
fn payload(head: &str, st: &Value) -> String {
    if head == "Panic" {
        "Panic".into()
    } else {
        format!("{} {}", head, show_json(st, false))
    }
}

// ---------------------------------------------------------------- tolerance helpers
#[derive(PartialEq, Clone, Copy, Debug)]
enum Verdict {
    Within,
    Beyond,
    Band,
    OutOfRange,
}
fn verdict(tol: f64, unit: &str, d: Option<f64>) -> Verdict {
    match d {
        None => Verdict::OutOfRange,
        Some(d) => {
            let tm = tol * si_m(unit);
            if d > tm * (1.0 + 2.0 * BAND) {
                Verdict::Beyond
            } else if d < tm * (1.0 - 2.0 * BAND) {
                Verdict::Within
            } else {
                Verdict::Band
            }
        }
    }
}
fn tolerance_of(tol_bits: &Option<u64>, unit: &Option<String>) -> Option<(f64, String)> {
    tol_bits.map(|b| (f64::from_bits(b), unit.clone().unwrap_or_else(|| "meters".to_string())))
}
fn coq_tol(tol_bits: &Option<u64>, unit: &Option<String>) -> String {
    format!(
        "{} {}",
        coq_opt(&tol_bits.map(f64::from_bits), |t| coq_f64(*t)),
        coq_opt(unit, |u| coq_unit(u).to_string())
    )
}
/// gc table entries for (coordinate, candidate) pairs
fn coq_gct(entries: &[(P, P, f64)]) -> String {
    coq_list(entries, |(a, b, d)| format!("(({}, {}), {})", coq_pt(*a), coq_pt(*b), coq_f64(*d)))
}

/// candidates at minimal squared distance
fn minimisers(p: P, cands: &[(u64, P)]) -> Vec<(u64, P)> {
    let m = cands.iter().map(|(_, c)| d2_16(*c, p)).min();
    match m {
        None => vec![],
        Some(m) => cands.iter().filter(|(_, c)| d2_16(*c, p) == m).cloned().collect(),
    }
}

struct Analysis {
    bydist: bool,
    gct: Vec<(P, P, f64)>,
    verdicts: Vec<String>,
    consistent: bool, // all minimisers of a coordinate share one verdict
}
/// what the case looks like from the specification's side: ties, tolerance verdicts, oracle table
fn analyse(query: &Value, cands: &[(u64, P)], tol: &Option<(f64, String)>) -> Analysis {
    let mut a = Analysis { bydist: false, gct: vec![], verdicts: vec![], consistent: true };
    let coords: Vec<P> = [origin_of(query), dest_of_for_mask(query)].into_iter().flatten().collect();
    for p in coords {
        for (_, c) in cands {
            d2_16(*c, p); // exactness assertion over all pairs
        }
        let ms = minimisers(p, cands);
        if ms.len() > 1 {
            a.bydist = true;
        }
        if let Some((t, u)) = tol {
            let mut vs = vec![];
            for (_, c) in &ms {
                let d = if in_range(p) && in_range(*c) { hav(p, *c) } else { None };
                if let Some(d) = d {
                    if !a.gct.iter().any(|(x, y, _)| *x == p && *y == *c) {
                        a.gct.push((p, *c, d));
                    }
                }
                vs.push(verdict(*t, u, d));
            }
            if vs.iter().any(|v| *v != vs[0]) {
                a.consistent = false;
            }
            if let Some(v) = vs.first() {
                a.verdicts.push(format!("{:?}", v).to_lowercase());
            } else {
                a.verdicts.push("nocand".into());
            }
        }
    }
    a
}

// ---------------------------------------------------------------- vertex stream
fn run_vertex_case(st: &mut Stream, dir: &Path, c: &VCase) {
    let id = st.next_id();
    let path = dir.join(format!("v_{}.csv", id));
    let mut s = String::from("vertex_id,x,y\n");
    for (vid, x, y) in &c.vertices {
        s.push_str(&format!("{},{},{}\n", vid, dec(*x), dec(*y)));
    }
    std::fs::write(&path, s).unwrap();
    let mut params = Map::new();
    params.insert("vertices_input_file".into(), json!(path.to_str().unwrap()));
    if let Some(b) = c.tol_bits {
        params.insert("distance_tolerance".into(), json!(f64::from_bits(b)));
    }
    if let Some(u) = &c.unit {
        params.insert("distance_unit".into(), json!(u));
    }
    let plugin = VertexRTreeBuilder {}.build(&Value::Object(params)).unwrap_or_else(|e| panic!("vertex plugin build: {}", e));
    let _ = std::fs::remove_file(&path);

    let cands: Vec<(u64, P)> = c.vertices.iter().map(|(i, x, y)| (*i, (*x, *y))).collect();
    let tol = tolerance_of(&c.tol_bits, &c.unit);
    let queries: Vec<&Value> = std::iter::once(&c.query).chain(c.seq.iter()).collect();
    let mut parts = vec![];
    let mut steps = vec![];
    let mut heads = vec![];
    for q in &queries {
        let an = analyse(q, &cands, &tol);
        let (state, head) = run_plugin(plugin.clone(), q);
        let masked = mask(an.bydist, &cands, q, "origin_vertex", "destination_vertex", &state);
        parts.push(payload(&head, &masked));
        steps.push(format!("(({}, {}), {})", coq_gct(&an.gct), coq_bool(an.bydist), coq_json(q)));
        st.count(&format!("outcome:{}", head.split(':').next().unwrap()));
        for v in &an.verdicts {
            st.count(&format!("verdict:{}", v));
        }
        if an.bydist {
            st.count("compared_by_distance(tie)");
        }
        if dest_of_for_mask(q).is_some() {
            st.count("with_destination");
        }
        heads.push(head);
    }
    let line = format!("I {} {}", id, parts.join(" | "));
    let args = format!(
        "{} {} [{}]",
        coq_list(&c.vertices, |(i, x, y)| format!("C {} {} {}", i, coq_q16(*x), coq_q16(*y))),
        coq_tol(&c.tol_bits, &c.unit),
        steps.join("; ")
    );
    let terms = vec![format!("line_vm_seq {} {}", id, args), format!("line_vs_seq {} {}", id, args)];

    st.count(&format!("family:{}", c.family));
    st.count(&format!("candidates:{}", bucket(c.vertices.len())));
    st.count(&format!("queries_on_one_instance:{}", queries.len()));
    st.count(&format!("tolerance:{}", tol_label(&c.tol_bits, &c.unit)));
    let nontrivial = heads.iter().any(|head| (head == "Ok" && c.vertices.len() >= 2) || (head.starts_with("Err InputPluginFailed") && !c.vertices.is_empty()));
    let mut desc = serde_json::to_value(c).unwrap();
    desc["id"] = json!(id);
    if nontrivial {
        st.mark_nontrivial(&desc.to_string());
    }
    st.case(terms, vec![line], desc);
}
fn tol_label(tol_bits: &Option<u64>, unit: &Option<String>) -> String {
    match (tol_bits, unit) {
        (None, _) => "none".into(),
        (Some(_), None) => "default-unit".into(),
        (Some(_), Some(u)) => u.clone(),
    }
}
fn bucket(n: usize) -> &'static str {
    match n {
        0 => "0",
        1 => "1",
        2..=4 => "2-4",
        5..=16 => "5-16",
        17..=64 => "17-64",
        65..=150 => "65-150",
        _ => "151+",
    }
}

fn query_of(origin: Option<P>, dest: Option<P>, extras: &[(&str, Value)]) -> Value {
    let mut m = Map::new();
    let mut ex = extras.iter();
    if let Some((k, v)) = ex.next() {
        m.insert(k.to_string(), v.clone());
    }
    if let Some(o) = origin {
        m.insert("origin_x".into(), num16(o.0));
        m.insert("origin_y".into(), num16(o.1));
    }
    if let Some((k, v)) = ex.next() {
        m.insert(k.to_string(), v.clone());
    }
    if let Some(d) = dest {
        m.insert("destination_x".into(), num16(d.0));
        m.insert("destination_y".into(), num16(d.1));
    }
    for (k, v) in ex {
        m.insert(k.to_string(), v.clone());
    }
    Value::Object(m)
}
/// a grid value as a JSON number: an integer when it is one (as_f64 accepts both)
fn num16(v: i64) -> Value {
    if v % 16 == 0 {
        json!(v / 16)
    } else {
        json!(v as f64 / 16.0)
    }
}
fn tol_for(d_m: f64, unit: &str, factor: f64) -> u64 {
    (d_m / si_m(unit) * factor).to_bits()
}
fn vcase(family: &str, vertices: Vec<(u64, i64, i64)>, tol: Option<(u64, Option<&str>)>, query: Value) -> VCase {
    VCase {
        family: family.into(),
        vertices,
        tol_bits: tol.map(|t| t.0),
        unit: tol.and_then(|t| t.1.map(String::from)),
        query,
        seq: vec![],
    }
}

fn grid8(x: i64, y: i64) -> P {
    (x * 2, y * 2) // 1/8 degree steps in 1/16 units
}

fn vertex_boundary_cases() -> Vec<VCase> {
    let mut out = vec![];
    let tri = vec![(0u64, 0, 0), (1, 16, 16), (2, 32, 32)];
    // the repository's own unit test, on the grid
    out.push(vcase("unit_test", tri.clone(), None, query_of(Some((2, 2)), Some((30, 34)), &[])));
    // no candidates
    out.push(vcase("no_candidates", vec![], None, query_of(Some((2, 2)), None, &[])));
    out.push(vcase("no_candidates", vec![], Some((100f64.to_bits(), Some("meters"))), query_of(Some((2, 2)), Some((3, 3)), &[("a", json!(1))])));
    // missing / ill-typed coordinates, queries that are not objects
    let bad: Vec<Value> = vec![
        json!({"origin_y": 1}),
        json!({"origin_x": 1}),
        json!({"origin_x": "1", "origin_y": 1}),
        json!({"origin_x": 1, "origin_y": null}),
        json!({"origin_x": 1, "origin_y": [1]}),
        json!({"origin_x": true, "origin_y": 1}),
        json!({"origin_x": 1, "origin_y": 1, "destination_x": 1}),
        json!({"origin_x": 1, "origin_y": 1, "destination_y": 1}),
        json!({"origin_x": 1, "origin_y": 1, "destination_x": "a", "destination_y": 1}),
        json!({"origin_x": 1, "origin_y": 1, "destination_x": 1, "destination_y": {"v": 1}}),
        json!({"destination_x": 1, "destination_y": 1}),
        json!([1, 2]),
        json!(5),
        json!("origin_x"),
        json!(null),
        json!({}),
    ];
    for q in bad {
        out.push(vcase("bad_coordinates", tri.clone(), None, q.clone()));
        out.push(vcase("bad_coordinates", tri.clone(), Some((1e9f64.to_bits(), Some("feet"))), q));
    }
    // exactly on a candidate
    out.push(vcase("on_candidate", tri.clone(), None, query_of(Some((16, 16)), Some((32, 32)), &[])));
    out.push(vcase("on_candidate", tri.clone(), Some((1f64.to_bits(), Some("inches"))), query_of(Some((16, 16)), None, &[])));
    out.push(vcase("on_candidate_tolerance_zero", tri.clone(), Some((0f64.to_bits(), Some("meters"))), query_of(Some((16, 16)), None, &[])));
    out.push(vcase("tolerance_zero", tri.clone(), Some((0f64.to_bits(), Some("miles"))), query_of(Some((17, 16)), None, &[])));
    out.push(vcase("tolerance_negative", tri.clone(), Some(((-5f64).to_bits(), Some("kilometers"))), query_of(Some((17, 16)), None, &[])));
    // equidistant candidates
    let sq = vec![(10u64, 0, 0), (11, 32, 0), (12, 0, 32), (13, 32, 32)];
    out.push(vcase("tie_two", sq.clone(), None, query_of(Some((16, 2)), Some((2, 16)), &[])));
    out.push(vcase("tie_four", sq.clone(), None, query_of(Some((16, 16)), None, &[("z", json!([1, 2]))])));
    out.push(vcase("tie_duplicates", vec![(4, 8, 8), (9, 8, 8), (2, 40, 8)], None, query_of(Some((10, 8)), Some((38, 8)), &[])));
    let d_tie = hav((16, 2), (0, 0)).unwrap();
    for (u, f) in [("kilometers", 2.0), ("feet", 0.5)] {
        out.push(vcase("tie_two_tolerance", sq.clone(), Some((tol_for(d_tie, u, f), Some(u))), query_of(Some((16, 2)), None, &[])));
    }
    // tolerance = actual distance x factor, every unit; origin and destination on different sides
    let net = vec![(3u64, -1680, 632), (8, -1678, 636), (1, -1684, 640), (6, -1672, 630), (7, -1690, 628)];
    let o = (-1681, 633);
    let dd = (-1673, 632);
    let d_o = hav(o, (-1680, 632)).unwrap();
    let d_d = hav(dd, (-1672, 630)).unwrap();
    for u in UNITS {
        for f in [0.5, 0.999, 1.001, 2.0] {
            out.push(vcase("tolerance_factor_origin", net.clone(), Some((tol_for(d_o, u, f), Some(u))), query_of(Some(o), None, &[("name", json!("t"))])));
            // destination farther than the origin: origin within, destination decides
            out.push(vcase("tolerance_factor_destination", net.clone(), Some((tol_for(d_d, u, f), Some(u))), query_of(Some(o), Some(dd), &[("name", json!("t"))])));
        }
        // tolerance a little below / above the true distance (exact SI factor into the unit): 1 % and 2 % off
        // are outside the band of the unit constants, so a wrong conversion factor of that size is decided by S
        for f in [0.99, 0.999, 1.001, 1.01, 1.02] {
            out.push(vcase("tolerance_factor_fine_origin", net.clone(), Some((tol_for(d_o, u, f), Some(u))), query_of(Some(o), None, &[])));
            out.push(vcase("tolerance_factor_fine_destination", net.clone(), Some((tol_for(d_d, u, f), Some(u))), query_of(Some(o), Some(dd), &[])));
        }
        // the boundary itself: tolerance = the distance as the code converts it (matched: d <= tol)
        let exact = DistanceUnit::Meters.convert(&Distance::new(d_o), &unit_of(u)).as_f64();
        out.push(vcase("tolerance_boundary_exact", net.clone(), Some((exact.to_bits(), Some(u))), query_of(Some(o), None, &[])));
        let next = f64::from_bits(exact.to_bits() + 1);
        out.push(vcase("tolerance_boundary_next_up", net.clone(), Some((next.to_bits(), Some(u))), query_of(Some(o), None, &[])));
    }
    // tolerance without unit (BASE_DISTANCE_UNIT), unit without tolerance (ignored)
    out.push(vcase("tolerance_default_unit", net.clone(), Some((tol_for(d_o, "meters", 2.0), None)), query_of(Some(o), None, &[])));
    out.push(vcase("tolerance_default_unit", net.clone(), Some((tol_for(d_o, "meters", 0.5), None)), query_of(Some(o), None, &[])));
    let mut only_unit = vcase("unit_without_tolerance", net.clone(), None, query_of(Some(o), Some((1600, 0)), &[]));
    only_unit.unit = Some("inches".into());
    out.push(only_unit);
    // high latitude: nearest by squared degrees is not nearest by great circle
    let polar = vec![(20u64, 32, 1280), (21, 0, 1304)]; // A = (2, 80), B = (0, 81.5)
    let pq = (0, 1280);
    let d_a = hav(pq, (32, 1280)).unwrap();
    let d_b = hav(pq, (0, 1304)).unwrap();
    assert!(d_a < d_b);
    out.push(vcase("high_latitude", polar.clone(), None, query_of(Some(pq), None, &[])));
    out.push(vcase("high_latitude", polar.clone(), Some((tol_for((d_a + d_b) / 2.0, "kilometers", 1.0), Some("kilometers"))), query_of(Some(pq), None, &[])));
    out.push(vcase("high_latitude", polar.clone(), Some((tol_for(d_b, "miles", 1.01), Some("miles"))), query_of(Some(pq), None, &[])));
    // far outside, on the hull
    out.push(vcase("far_outside", net.clone(), None, query_of(Some((-200, -400)), Some((-1684, 640)), &[])));
    out.push(vcase("far_outside", net.clone(), Some((tol_for(1000.0, "kilometers", 1.0), Some("kilometers"))), query_of(Some((-200, -400)), None, &[])));
    out.push(vcase("on_hull", net.clone(), None, query_of(Some((-1690, 634)), Some((-1672, 640)), &[])));
    // coordinates outside the haversine range: matched without a tolerance, an error with one
    out.push(vcase("out_of_range", tri.clone(), None, query_of(Some((16, 1520)), None, &[])));
    out.push(vcase("out_of_range", tri.clone(), Some((1e12f64.to_bits(), Some("meters"))), query_of(Some((16, 1520)), None, &[])));
    out.push(vcase("out_of_range", vec![(0, 2900, 0), (1, 2800, 0)], Some((1e12f64.to_bits(), Some("meters"))), query_of(Some((2890, 0)), None, &[])));
    // destination beyond while the origin matched (the origin stays written), and the reverse
    out.push(vcase("partial_state", net.clone(), Some((tol_for(d_o, "meters", 2.0), Some("meters"))), query_of(Some(o), Some((-1600, 600)), &[("k", json!({"a": [1, 2]}))])));
    out.push(vcase("partial_state", net.clone(), Some((tol_for(d_o, "meters", 2.0), Some("meters"))), query_of(Some((-1600, 600)), Some(o), &[("k", json!({"a": [1, 2]}))])));
    // stale match keys and foreign keys already in the query
    out.push(vcase(
        "stale_keys",
        net.clone(),
        None,
        json!({"origin_vertex": 99, "a": 1, "origin_x": -105.0625, "destination_vertex": "x", "origin_y": 39.5625,
               "destination_y": 39.5, "origin_edge": 4, "destination_x": -104.5625, "destination_edge": null, "z": {"origin_vertex": 1}}),
    ));
    // the tolerance EXACTLY equal to the distance the real haversine returns for the nearest vertex, and its
    // neighbouring doubles, in Meters (no conversion): a vertex exactly AT the tolerance is matched (d <= tol)
    for unit in [Some("meters"), None] {
        for (name, f) in [("equal", 0i64), ("next_up", 1), ("next_down", -1)] {
            let t_o = ((d_o.to_bits() as i64) + f) as u64;
            let t_d = ((d_d.to_bits() as i64) + f) as u64;
            out.push(vcase(&format!("tolerance_exact_meters_{}", name), net.clone(), Some((t_o, unit)), query_of(Some(o), None, &[("name", json!("x"))])));
            // destination farther than the origin: the origin is within, the destination sits on the boundary
            out.push(vcase(&format!("tolerance_exact_meters_{}", name), net.clone(), Some((t_d, unit)), query_of(Some(o), Some(dd), &[])));
        }
    }
    // the haversine guards: latitude exactly +-90, longitude exactly +-180 and between 170 and 180 degrees are
    // valid WGS84 coordinates (query and network vertices); one f32 ulp outside is not
    for sgn in [1i64, -1] {
        let pole: Vec<(u64, i64, i64)> = vec![(1, -2880 * sgn, 1440 * sgn), (2, -2872 * sgn, 1432 * sgn), (3, -2800 * sgn, 1400 * sgn), (4, -2760 * sgn, 1380 * sgn), (5, -2790 * sgn, 1440 * sgn)];
        let cands: Vec<(u64, P)> = pole.iter().map(|(i, x, y)| (*i, (*x, *y))).collect();
        let qs: Vec<P> = vec![(-2880, 1440), (-2878, 1440), (-2880, 1436), (-2800, 1401), (-2791, 1398), (-2762, 1381), (-2874, 1432), (-2789, 1439)];
        for (i, q0) in qs.iter().enumerate() {
            let q = (q0.0 * sgn, q0.1 * sgn);
            let dq = qs[(i + 3) % qs.len()];
            let dest = if i % 2 == 1 { Some((dq.0 * sgn, dq.1 * sgn)) } else { None };
            out.push(vcase("guard_boundary", pole.clone(), None, query_of(Some(q), dest, &[])));
            let far = [Some(q), dest].into_iter().flatten().map(|p| minimisers(p, &cands).iter().filter_map(|(_, c)| hav(p, *c)).fold(0.0, f64::max)).fold(0.0, f64::max);
            let unit = UNITS[i % 5];
            let t = if far == 0.0 { 1.0 } else { far / si_m(unit) * 2.0 };
            out.push(vcase("guard_boundary_tolerance", pole.clone(), Some((t.to_bits(), Some(unit))), query_of(Some(q), dest, &[])));
        }
        // one f32 ulp beyond the guards (not on the grid: the candidates are far apart compared with the rounding)
        let lat_out = f32::from_bits(90f32.to_bits() + 1) as f64 * sgn as f64;
        let lon_out = -(f32::from_bits(180f32.to_bits() + 1) as f64) * sgn as f64;
        let lat_in = f32::from_bits(90f32.to_bits() - 1) as f64 * sgn as f64;
        let lon_in = -(f32::from_bits(180f32.to_bits() - 1) as f64) * sgn as f64;
        for (x, y) in [(-179.875 * sgn as f64, lat_out), (lon_out, 89.875 * sgn as f64), (-179.875 * sgn as f64, lat_in), (lon_in, 89.875 * sgn as f64)] {
            let q = json!({"origin_x": x, "origin_y": y});
            out.push(vcase("guard_one_ulp", pole.clone(), None, q.clone()));
            if x.abs() > 180.0 || y.abs() > 90.0 {
                // (the oracle table is only filled for grid coordinates; outside the range it is never consulted)
                out.push(vcase("guard_one_ulp", pole.clone(), Some((1e9f64.to_bits(), Some("meters"))), q.clone()));
                out.push(vcase("guard_one_ulp", pole.clone(), Some((1e9f64.to_bits(), Some("meters"))), json!({"origin_x": -179.875 * sgn as f64, "origin_y": 89.875 * sgn as f64, "destination_x": x, "destination_y": y})));
            }
        }
    }
    // SEQUENCES on one plugin instance: every query is answered on its own
    {
        let mut c = vcase("sequence_destinations", net.clone(), None, query_of(Some(o), Some(dd), &[]));
        c.seq = vec![query_of(Some(o), None, &[]), query_of(Some(dd), Some(o), &[]), query_of(Some(o), Some(dd), &[("n", json!(1))]), query_of(Some((-1684, 639)), None, &[])];
        out.push(c);
        let mut c = vcase("sequence_errors", net.clone(), Some((tol_for(d_o, "meters", 2.0), Some("meters"))), query_of(Some((-1600, 600)), None, &[]));
        c.seq = vec![query_of(Some(o), None, &[]), json!({"origin_x": "a", "origin_y": 1}), query_of(Some(o), Some((-1600, 600)), &[]), query_of(Some(o), None, &[]), query_of(Some((-1600, 600)), Some(o), &[])];
        out.push(c);
    }
    // many candidates, the nearest first / in the middle / last in file order
    for n in [40usize, 130] {
        for pos in [0usize, n / 2, n - 1] {
            let mut vs: Vec<(u64, i64, i64)> = (0..n).map(|i| (i as u64 + 100, ((i % 13) as i64) * 6 + 60, ((i / 13) as i64) * 6 + 60)).collect();
            vs[pos] = (7, 2, 2);
            out.push(vcase("many_candidates", vs, None, query_of(Some((3, 1)), Some((60 + 6 * 5 + 1, 60 + 6 * 2)), &[])));
        }
    }
    out
}

fn random_extras(r: &mut Rng) -> Vec<(&'static str, Value)> {
    let pool: Vec<(&'static str, Value)> = vec![
        ("name", json!("q")),
        ("weights", json!({"time": 1, "distance": 0.5})),
        ("origin_vertex", json!(77)),
        ("destination_vertex", json!(78)),
        ("origin_edge", json!(5)),
        ("destination_edge", json!(6)),
        ("model_name", json!("2016_TOYOTA_Camry")),
        ("k", json!([1, null, "s"])),
        ("flag", json!(true)),
    ];
    let n = r.below(5) as usize;
    let mut idx: Vec<usize> = (0..pool.len()).collect();
    r.shuffle(&mut idx);
    idx.truncate(n);
    idx.into_iter().map(|i| pool[i].clone()).collect()
}

/// a random point set on the 1/8 degree grid around a random centre
fn random_points(r: &mut Rng, n: usize, polar: bool) -> (Vec<P>, P, i64) {
    let cx = r.range(-60 * 8, 60 * 8);
    let cy = if polar { r.range(70 * 8, 80 * 8) } else { r.range(-50 * 8, 50 * 8) };
    let spread = *r.pick(&[2i64, 4, 8, 16, 40]);
    let cells = ((2 * spread + 1) * (2 * spread + 1)) as usize;
    let n = n.min(cells);
    let mut pts = vec![];
    while pts.len() < n {
        let p = grid8(cx + r.range(-spread, spread), cy + r.range(-spread, spread));
        if r.chance(1, 12) || !pts.contains(&p) {
            pts.push(p);
        }
    }
    (pts, grid8(cx, cy), spread * 2)
}
fn random_coord(r: &mut Rng, pts: &[P], centre: P, spread16: i64) -> P {
    match r.below(10) {
        0 if !pts.is_empty() => *r.pick(pts),                                             // exactly on a candidate
        1 => (centre.0 + spread16, centre.1 + r.range(-spread16, spread16)),              // on the hull box
        2 => (centre.0 + r.range(-400, 400), centre.1 + r.range(-120, 120)),              // far outside (tens of degrees)
        3 if pts.len() >= 2 => {
            // midpoint of two candidates (a tie when both are nearest)
            let a = *r.pick(pts);
            let b = *r.pick(pts);
            ((a.0 + b.0) / 2, (a.1 + b.1) / 2)
        }
        _ => (centre.0 + r.range(-spread16, spread16), centre.1 + r.range(-spread16, spread16)),
    }
}
/// pick a tolerance around the actual distance of the nearest admissible candidate(s) of `p`
fn random_tolerance(r: &mut Rng, p: P, cands: &[(u64, P)]) -> Option<(u64, Option<String>)> {
    let unit = *r.pick(&UNITS);
    let ms = minimisers(p, cands);
    let ds: Vec<f64> = ms.iter().filter_map(|(_, c)| hav(p, *c)).collect();
    let f = *r.pick(&[0.5, 0.999, 1.001, 2.0, 0.1, 10.0, 0.9, 1.1]);
    let t = if ds.is_empty() {
        1000.0 / si_m(unit)
    } else if f < 1.0 {
        ds.iter().cloned().fold(f64::INFINITY, f64::min) / si_m(unit) * f
    } else {
        ds.iter().cloned().fold(0.0, f64::max) / si_m(unit) * f
    };
    let t = if t == 0.0 { 5.0 } else { t };
    let u = if unit == "meters" && r.chance(1, 3) { None } else { Some(unit.to_string()) };
    Some((t.to_bits(), u))
}

fn random_vertex_case(r: &mut Rng) -> VCase {
    let n = *r.pick(&[1usize, 2, 3, 3, 5, 8, 8, 13, 21, 40, 90]);
    let polar = r.chance(1, 6);
    let (pts, centre, spread16) = random_points(r, n, polar);
    let mut ids: Vec<u64> = (0..pts.len() as u64).map(|i| i * 3 + 1).collect();
    r.shuffle(&mut ids);
    let vertices: Vec<(u64, i64, i64)> = pts.iter().zip(ids).map(|(p, i)| (i, p.0, p.1)).collect();
    let cands: Vec<(u64, P)> = vertices.iter().map(|(i, x, y)| (*i, (*x, *y))).collect();
    let o = random_coord(r, &pts, centre, spread16);
    let d = if r.chance(3, 5) { Some(random_coord(r, &pts, centre, spread16)) } else { None };
    let extras = random_extras(r);
    let query = query_of(Some(o), d, &extras);
    let mut c = VCase { family: if polar { "random_high_latitude".into() } else { "random".into() }, vertices, tol_bits: None, unit: None, query, seq: vec![] };
    if r.chance(1, 3) {
        // 1..5 more queries on the same plugin instance: the same coordinate again (with / without destination,
        // other foreign fields), interleaved with other coordinates
        for _ in 0..r.range(1, 5) {
            let o2 = if r.chance(2, 3) { o } else { random_coord(r, &pts, centre, spread16) };
            let d2 = match r.below(3) {
                0 => None,
                1 => d.or(Some(o)),
                _ => Some(random_coord(r, &pts, centre, spread16)),
            };
            c.seq.push(query_of(Some(o2), d2, &random_extras(r)));
        }
        c.family = format!("{}_sequence", c.family);
    }
    if r.chance(3, 5) {
        let target = if d.is_some() && r.chance(1, 2) { d.unwrap() } else { o };
        if let Some((b, u)) = random_tolerance(r, target, &cands) {
            c.tol_bits = Some(b);
            c.unit = u;
        }
        // keep only cases whose verdict does not depend on the R-tree's tie-break or the open boundary
        let tol = tolerance_of(&c.tol_bits, &c.unit);
        let bad = std::iter::once(&c.query).chain(c.seq.iter()).any(|q| {
            let an = analyse(q, &cands, &tol);
            !an.consistent || an.verdicts.iter().any(|v| v == "band")
        });
        if bad {
            c.tol_bits = None;
            c.unit = None;
        }
    }
    c
}

fn vertex_stream(a: &Args) {
    let header = "From Coq Require Import ZArith QArith List String Floats.\nFrom RC Require Import Base.Show Base.Json Model.Units Model.MapMatch Model.MapMatchRun.\nImport ListNotations Units MM MMRun.\nOpen Scope Z_scope.";
    let mut st = Stream::new(&a.out, "vertex", header, a.shards);
    let dir = a.out.join("files");
    std::fs::create_dir_all(&dir).unwrap();
    if let Some(p) = &a.replay {
        st.full = true;
        let v: Value = serde_json::from_str(&std::fs::read_to_string(p).unwrap()).unwrap();
        let c: VCase = serde_json::from_value(v["case"].clone()).unwrap();
        run_vertex_case(&mut st, &dir, &c);
        st.finish();
        return;
    }
    for c in vertex_boundary_cases() {
        run_vertex_case(&mut st, &dir, &c);
    }
    let mut rng = Rng::new(a.seed);
    while st.next_id() < a.n {
        let mut r = rng.fork();
        let c = random_vertex_case(&mut r);
        run_vertex_case(&mut st, &dir, &c);
    }
    st.finish();
}

// ---------------------------------------------------------------- edge stream
fn wkt_of(ls: &[P]) -> String {
    if ls.is_empty() {
        return "LINESTRING EMPTY".into();
    }
    format!("LINESTRING ({})", ls.iter().map(|p| format!("{} {}", dec(p.0), dec(p.1))).collect::<Vec<_>>().join(", "))
}
/// geo's centroid of the f32 linestring, if it is on the 1/16 grid
fn try_centroid16(ls: &[P]) -> Option<P> {
    let g: LineString<f32> = LineString::from(ls.iter().map(|p| ((p.0 as f64 / 16.0) as f32, (p.1 as f64 / 16.0) as f32)).collect::<Vec<_>>());
    let c = g.centroid()?;
    Some((on_grid(c.x() as f64)?, on_grid(c.y() as f64)?))
}
/// the reference point the plugin uses: geo's centroid of the f32 linestring (must be on the grid)
fn centroid16(ls: &[P]) -> P {
    try_centroid16(ls).unwrap_or_else(|| panic!("centroid off grid or empty: {:?}", ls))
}
/// rotate / mirror a shape given as offsets from its centroid: 8 orientations
fn orient(offs: &[P], o: u64) -> Vec<P> {
    offs.iter()
        .map(|&(x, y)| {
            let (x, y) = if o & 1 == 1 { (-x, y) } else { (x, y) };
            let (x, y) = if o & 2 == 2 { (x, -y) } else { (x, y) };
            if o & 4 == 4 { (y, x) } else { (x, y) }
        })
        .collect()
}
/// curved geometries as offsets from the centroid (units of 1/16 degree). Segment lengths are chosen so
/// that geo's length-weighted f32 centroid is exact (total length a power of two): the centroid of the
/// hairpins, rings and loops lies OUTSIDE the box of their two end points.
fn curved_shape(kind: u64, k: i64) -> Vec<P> {
    match kind {
        // hairpin: up h = 4k, across w = 8k, down h; centroid 3k above the end points
        0 => vec![(-4 * k, -3 * k), (-4 * k, k), (4 * k, k), (4 * k, -3 * k)],
        // closed square ring, side 4k, first = last point
        1 => vec![(-2 * k, -2 * k), (2 * k, -2 * k), (2 * k, 2 * k), (-2 * k, 2 * k), (-2 * k, -2 * k)],
        // tall hairpin h = 24, w = 16 (total 64), centroid 15 above the end points
        2 => vec![(-8, -15), (-8, 9), (8, 9), (8, -15)],
        // ramp loop: closed ring with a tail-less start in the middle of a side (6 points, first = last)
        3 => vec![(0, -2 * k), (2 * k, -2 * k), (2 * k, 2 * k), (-2 * k, 2 * k), (-2 * k, -2 * k), (0, -2 * k)],
        // L-shape, legs 4k: centroid inside the end-point box
        4 => vec![(-3 * k, -k), (k, -k), (k, 3 * k)],
        // out-and-back (cul-de-sac): end points coincide, 3 points
        _ => vec![(-2 * k, 0), (2 * k, 0), (-2 * k, 0)],
    }
}
fn curved_around(r: &mut Rng, c: P) -> Option<Vec<P>> {
    let kind = r.below(6);
    let k = *r.pick(&[1i64, 2, 4]);
    let offs = orient(&curved_shape(kind, k), r.below(8));
    let ls: Vec<P> = offs.iter().map(|o| (c.0 + o.0, c.1 + o.1)).collect();
    if ls.iter().all(|p| p.0.abs() < 180 * 16 && p.1.abs() < 90 * 16) && try_centroid16(&ls) == Some(c) {
        Some(ls)
    } else {
        None
    }
}
/// a linestring whose geo centroid is exactly `c` (segment lengths are powers of two)
fn shape_around(r: &mut Rng, c: P) -> Vec<P> {
    if r.chance(2, 5) {
        if let Some(ls) = curved_around(r, c) {
            return ls;
        }
    }
    let h = *r.pick(&[1i64, 2, 4, 8]);
    let ls = match r.below(5) {
        0 => vec![c, c],
        1 => vec![(c.0 - h, c.1), (c.0 + h, c.1)],
        2 => vec![(c.0, c.1 - h), (c.0, c.1 + h)],
        3 => vec![(c.0 - 2 * h, c.1), (c.0, c.1), (c.0 + 2 * h, c.1)],
        _ => vec![(c.0, c.1 + h), (c.0, c.1 - h)],
    };
    if try_centroid16(&ls) == Some(c) {
        ls
    } else {
        vec![c, c]
    }
}

/// one case = one or more STAGES: every stage writes its files to the SAME paths (contents of the previous stage
/// overwritten in place), builds a fresh plugin from them and runs its queries; every stage is judged against the
/// file contents at ITS build time
fn run_edge_case(st: &mut Stream, dir: &Path, c: &ECase) {
    let id = st.next_id();
    let stages: Vec<&ECase> = std::iter::once(c).chain(c.then.iter()).collect();
    let mut payloads = vec![];
    let mut args = vec![];
    let mut nontrivial = false;
    for sc in &stages {
        let (p, a, n) = edge_stage(st, dir, id, sc);
        payloads.push(p);
        args.push(a);
        nontrivial |= n;
    }
    st.count(&format!("plugin_builds_on_same_files:{}", stages.len()));
    let terms = if stages.len() == 1 {
        vec![format!("line_em_seq {} {}", id, args[0]), format!("line_es_seq {} {}", id, args[0])]
    } else {
        vec![
            format!("stages_line \"M\"%string {} [{}]", id, args.iter().map(|a| format!("line_em_seq {} {}", id, a)).collect::<Vec<_>>().join("; ")),
            format!("stages_line \"S\"%string {} [{}]", id, args.iter().map(|a| format!("line_es_seq {} {}", id, a)).collect::<Vec<_>>().join("; ")),
        ]
    };
    let line = format!("I {} {}", id, payloads.join(" || "));
    let mut desc = serde_json::to_value(c).unwrap();
    desc["id"] = json!(id);
    if nontrivial {
        st.mark_nontrivial(&desc.to_string());
    }
    st.case(terms, vec![line], desc);
}
fn edge_stage(st: &mut Stream, dir: &Path, id: usize, c: &ECase) -> (String, String, bool) {
    let gp = dir.join(format!("e_{}_geom.txt", id));
    let cp = dir.join(format!("e_{}_class.txt", id));
    let rp = dir.join(format!("e_{}_restr.csv", id));
    std::fs::write(&gp, c.edges.iter().map(|l| wkt_of(l) + "\n").collect::<String>()).unwrap();
    let mut params = Map::new();
    params.insert("geometry_input_file".into(), json!(gp.to_str().unwrap()));
    if let Some(cl) = &c.classes {
        std::fs::write(&cp, cl.iter().map(|k| format!("{}\n", k)).collect::<String>()).unwrap();
        params.insert("road_class_input_file".into(), json!(cp.to_str().unwrap()));
    }
    if let Some(rs) = &c.restrictions {
        let mut s = String::from("edge_id,restriction_name,restriction_value,restriction_unit\n");
        for (e, n, v, u) in rs {
            s.push_str(&format!("{},{},{},{}\n", e, n, v, u));
        }
        std::fs::write(&rp, s).unwrap();
        params.insert("vehicle_restriction_input_file".into(), json!(rp.to_str().unwrap()));
    }
    if let Some(b) = c.tol_bits {
        params.insert("distance_tolerance".into(), json!(f64::from_bits(b)));
    }
    if let Some(u) = &c.unit {
        params.insert("distance_unit".into(), json!(u));
    }
    if !c.mapping.is_empty() {
        let m: Map<String, Value> = c.mapping.iter().map(|(k, v)| (k.clone(), json!(v))).collect();
        params.insert("road_class_parser".into(), json!({ "mapping": m }));
    }
    let plugin = EdgeRtreeInputPluginBuilder {}.build(&Value::Object(params)).unwrap_or_else(|e| panic!("edge plugin build: {}", e));
    for p in [&gp, &cp, &rp] {
        let _ = std::fs::remove_file(p);
    }
    let all: Vec<(u64, P)> = c.edges.iter().enumerate().map(|(i, l)| (i as u64, centroid16(l))).collect();
    let tol = tolerance_of(&c.tol_bits, &c.unit);
    let queries: Vec<&Value> = std::iter::once(&c.query).chain(c.seq.iter()).collect();
    let mut parts = vec![];
    let mut steps = vec![];
    let mut heads = vec![];
    for q in &queries {
        let vparams = spec_vehicle_parameters(q);
        let truck = truck_table(c, q);
        // road-class verdict on the harness side (only to know the admissible set for ties / oracle table;
        // the model computes its own from the query)
        let rcq: Option<Option<Vec<u8>>> = harness_read_query(&c.mapping, q);
        let adm: Vec<(u64, P)> = all
            .iter()
            .filter(|(i, _)| {
                let i = *i as usize;
                let vc = match (&rcq, &c.classes) {
                    (Some(Some(s)), Some(cl)) => s.contains(&cl[i]),
                    _ => true,
                };
                vc && truck[i]
            })
            .cloned()
            .collect();
        let an = analyse(q, &adm, &tol);
        let (state, head) = run_plugin(plugin.clone(), q);
        let masked = mask(an.bydist, &all, q, "origin_edge", "destination_edge", &state);
        parts.push(payload(&head, &masked));
        let falses: Vec<usize> = truck.iter().enumerate().filter(|(_, b)| !**b).map(|(i, _)| i).collect();
        steps.push(format!(
            "((({}, {}), {}), {})",
            coq_gct(&an.gct),
            coq_list(&falses, |i| format!("({}, false)", coq_z(*i as i128))),
            coq_bool(an.bydist),
            coq_json(q)
        ));
        // how many nearer inadmissible edges the origin search has to skip
        let skipped = origin_of(q)
            .map(|p| {
                let best = adm.iter().map(|(_, c)| d2_16(*c, p)).min();
                all.iter().filter(|(i, c)| !adm.iter().any(|(j, _)| j == i) && best.map(|b| d2_16(*c, p) <= b).unwrap_or(true)).count()
            })
            .unwrap_or(0);
        st.count(&format!("outcome:{}", head.split(':').next().unwrap()));
        st.count(&format!("skipped_inadmissible_nearer:{}", match skipped { 0..=3 => skipped.to_string(), 4..=15 => "4-15".into(), 16..=63 => "16-63".into(), _ => "64+".into() }));
        st.count(&format!("filters:{}{}", if c.classes.is_some() && q.get("road_classes").is_some() { "class" } else { "" }, if c.restrictions.is_some() && vparams.is_some() { "+vehicle" } else { "" }));
        for v in &an.verdicts {
            st.count(&format!("verdict:{}", v));
        }
        if an.bydist {
            st.count("compared_by_distance(tie)");
        }
        if dest_of_for_mask(q).is_some() {
            st.count("with_destination");
        }
        heads.push(head);
    }
    let args = format!(
        "{} {} {} {} [{}]",
        coq_list(&all, |(i, p)| format!("C {} {} {}", i, coq_q16(p.0), coq_q16(p.1))),
        coq_tol(&c.tol_bits, &c.unit),
        coq_list(&c.mapping, |(k, v)| format!("({}, {})", coq_string(k), coq_z(*v as i128))),
        coq_opt(&c.classes, |cl| coq_list(cl, |k| coq_z(*k as i128))),
        steps.join("; ")
    );

    st.count(&format!("family:{}", c.family));
    st.count(&format!("candidates:{}", bucket(c.edges.len())));
    st.count(&format!("queries_on_one_instance:{}", queries.len()));
    st.count(&format!("tolerance:{}", tol_label(&c.tol_bits, &c.unit)));
    if let Some(rows) = &c.restrictions {
        let mx = (0..c.edges.len()).map(|i| rows.iter().filter(|r| r.0 == i).count()).max().unwrap_or(0);
        st.count(&format!("max_restriction_rows_per_edge:{}", mx.min(4)));
    }
    // edges whose reference point lies outside the box of their two end points (hairpins, rings, loops)
    let outside = c.edges.iter().filter(|l| {
        let (a, b, m) = (l[0], l[l.len() - 1], centroid16(l));
        m.0 < a.0.min(b.0) || m.0 > a.0.max(b.0) || m.1 < a.1.min(b.1) || m.1 > a.1.max(b.1)
    }).count();
    st.count(&format!("edges_with_centroid_outside_endpoint_box:{}", match outside { 0 => "0", 1 => "1", 2..=5 => "2-5", _ => "6+" }));
    let nontrivial = heads.iter().any(|head| (head == "Ok" && c.edges.len() >= 2) || (head.starts_with("Err InputPluginFailed") && !c.edges.is_empty()));
    (parts.join(" | "), args, nontrivial)
}

/// the vehicle-restriction verdict per edge under the query's vehicle parameters: an edge is admissible iff the
/// vehicle passes EVERY restriction row written for it (rows in any order, anywhere in the file). Each row is turned
/// judged by [row_admits] (own SI factors, value <= limit); neither the restriction-file LOADER of the plugin nor
/// VehicleRestriction::valid is used for the expected value.
/// The query's vehicle parameters as the UNCHANGED VehicleParameters::from_query reads them (the plugin takes
/// `from_query(query).ok()`): all six fields must be present and well typed; `number_of_axles` is any JSON
/// number for which as_u64() answers (a non-negative integer, however large - the unchanged code narrows it with
/// `as u8`); a negative, fractional or non-numeric axle count, like any other unreadable field, means the query has
/// NO vehicle parameters. Written out here so that the expected value does not follow a change of from_query.
fn spec_vehicle_parameters(q: &Value) -> Option<VehicleParameters> {
    use routee_compass_core::model::unit::{Weight, WeightUnit};
    let vp = q.get("vehicle_parameters")?;
    let dist = |k: &str| -> Option<(Distance, DistanceUnit)> { serde_json::from_value(vp.get(k)?.clone()).ok() };
    let total_weight: (Weight, WeightUnit) = serde_json::from_value(vp.get("total_weight")?.clone()).ok()?;
    Some(VehicleParameters {
        height: dist("height")?,
        width: dist("width")?,
        total_length: dist("total_length")?,
        trailer_length: dist("trailer_length")?,
        total_weight,
        number_of_axles: vp.get("number_of_axles")?.as_u64()? as u8,
    })
}
fn truck_table(c: &ECase, q: &Value) -> Vec<bool> {
    let vparams = spec_vehicle_parameters(q);
    let vjson = q.get("vehicle_parameters");
    (0..c.edges.len())
        .map(|i| match (&c.restrictions, &vparams, vjson) {
            (Some(rows), Some(vp), Some(vj)) => rows.iter().filter(|(e, _, _, _)| *e == i).all(|(_, name, value, unit)| row_admits(name, *value, unit, vj, vp.number_of_axles)),
            _ => true,
        })
        .collect()
}
/// exact SI value of one unit (metres / kilograms; "tons" are short tons of 2000 lb)
fn si_of(unit: &str) -> f64 {
    match unit {
        "meters" => 1.0,
        "kilometers" => 1000.0,
        "miles" => 1609.344,
        "inches" => 0.0254,
        "feet" => 0.3048,
        "kg" => 1.0,
        "pounds" => 0.45359237,
        "tons" => 907.18474,
        _ => panic!("unit {}", unit),
    }
}
/// Does the vehicle pass ONE restriction row?  Decided here, independently of VehicleRestriction::valid: the
/// vehicle's value and the limit are both brought to SI with exact factors and the vehicle is admitted iff
/// value <= limit (same unit: the raw numbers are compared).  The generators keep a margin of more than 0.5 %
/// between value and limit whenever the units differ, so the decimal unit constants of the code cannot flip it.
fn row_admits(name: &str, limit: f64, limit_unit: &str, vj: &Value, axles: u8) -> bool {
    let field = match name {
        "maximum_total_weight" | "maximum_weight_per_axle" => "total_weight",
        "maximum_length" => "total_length",
        "maximum_width" => "width",
        "maximum_height" => "height",
        "maximum_trailer_length" => "trailer_length",
        _ => panic!("restriction {}", name),
    };
    let v = vj[field][0].as_f64().unwrap();
    let vu = vj[field][1].as_str().unwrap();
    let per = if name == "maximum_weight_per_axle" { axles as f64 } else { 1.0 };
    if vu == limit_unit {
        return v / per <= limit;
    }
    let (a, b) = (v * si_of(vu) / per, limit * si_of(limit_unit));
    assert!((a - b).abs() > 0.005 * b.abs(), "vehicle value too close to the limit for a mixed-unit row: {} {} vs {} {}", v, vu, limit, limit_unit);
    a <= b
}

/// RoadClassParser::read_query, harness-side copy used only to compute the admissible set for the
/// oracle table and tie detection (None = the parser fails)
fn harness_read_query(mapping: &[(String, u8)], q: &Value) -> Option<Option<Vec<u8>>> {
    let parser: routee_compass::app::compass::config::frontier_model::road_class::road_class_parser::RoadClassParser =
        serde_json::from_value(json!({ "mapping": mapping.iter().map(|(k, v)| (k.clone(), json!(v))).collect::<Map<String, Value>>() })).unwrap();
    match parser.read_query(q) {
        Ok(None) => Some(None),
        Ok(Some(s)) => Some(Some(s.into_iter().collect())),
        Err(_) => None,
    }
}

fn vehicle(height_m: f64, weight_kg: f64) -> Value {
    json!({"height": [height_m, "meters"], "width": [2.5, "meters"], "total_length": [60.0, "feet"],
           "trailer_length": [48.0, "feet"], "total_weight": [weight_kg, "kg"], "number_of_axles": 5})
}
/// the same kind of vehicle, its parameters given in imperial units
fn vehicle_imperial(height_ft: f64, weight_lb: f64) -> Value {
    json!({"height": [height_ft, "feet"], "width": [98.0, "inches"], "total_length": [18.0, "meters"],
           "trailer_length": [14.0, "meters"], "total_weight": [weight_lb, "pounds"], "number_of_axles": 5})
}
fn with(mut q: Value, k: &str, v: Value) -> Value {
    q.as_object_mut().unwrap().insert(k.to_string(), v);
    q
}
fn ecase(family: &str, edges: Vec<Vec<P>>, classes: Option<Vec<u8>>, restrictions: Option<Vec<(usize, &str, f64, &str)>>, tol: Option<(u64, Option<&str>)>, query: Value) -> ECase {
    ECase {
        family: family.into(),
        edges,
        classes,
        restrictions: restrictions.map(|rs| rs.into_iter().map(|(e, n, v, u)| (e, n.to_string(), v, u.to_string())).collect()),
        mapping: vec![],
        tol_bits: tol.map(|t| t.0),
        unit: tol.and_then(|t| t.1.map(String::from)),
        query,
        seq: vec![],
        then: vec![],
    }
}

/// a network in which the `k` edges nearest to the query (by squared coordinate distance) are inadmissible - mode 0: by road class, 1: by a vehicle height restriction, 2: alternating / both -
/// then exactly one admissible edge, then more inadmissible ones. `shuffled`: file (= id) order is not distance order.
fn many_inadmissible(k: usize, mode: usize, with_tol: bool, shuffled: bool) -> ECase {
    let n = (k + 1 + 12).max(70);
    let centre = (-1680i64, 632i64);
    let q = (centre.0 + 1, centre.1 + 1);
    let mut pts: Vec<P> = vec![];
    for x in -14i64..=14 {
        for y in -14i64..=14 {
            pts.push((centre.0 + 2 * x, centre.1 + 2 * y));
        }
    }
    pts.sort_by_key(|p| (d2_16(*p, q), p.0, p.1));
    // the k nearest (ties among them allowed), then a point strictly farther than all of them and alone at its
    // distance (the expected match is unique), then strictly farther ones
    let dist = |p: &P| d2_16(*p, q);
    let dk = if k > 0 { dist(&pts[k - 1]) } else { -1 };
    let j = (k..pts.len()).find(|&j| dist(&pts[j]) > dk).expect("no farther point");
    let dj = dist(&pts[j]);
    let mut chosen: Vec<P> = pts[..k].to_vec();
    chosen.push(pts[j]);
    chosen.extend(pts[j + 1..].iter().filter(|p| dist(p) > dj).take(n - k - 1)); // its tie partners are left out
    assert_eq!(chosen.len(), n, "not enough points");
    let pts = chosen;
    // position j in distance order -> admissible only for j == k
    let mut order: Vec<usize> = (0..n).collect(); // order[file index] = distance rank
    if shuffled {
        let mut r = Rng::new(0xC16 + k as u64 * 7 + mode as u64);
        r.shuffle(&mut order);
    }
    let mut edges = vec![];
    let mut classes = vec![];
    let mut restrictions: Vec<(usize, &str, f64, &str)> = vec![];
    for (i, rank) in order.iter().enumerate() {
        let p = pts[*rank];
        edges.push(if rank % 3 == 0 { vec![p, p] } else { vec![(p.0 - 1, p.1), (p.0 + 1, p.1)] });
        let adm = *rank == k;
        let (by_class, by_vehicle) = match (adm, mode) {
            (true, _) => (false, false),
            (false, 0) => (true, false),
            (false, 1) => (false, true),
            (false, _) => (rank % 2 == 0 || rank % 5 == 0, rank % 2 == 1),
        };
        classes.push(if by_class { 9u8 } else { 1 + (*rank % 4) as u8 });
        if by_vehicle {
            restrictions.push((i, "maximum_height", 3.0, "meters"));
        }
        if rank % 7 == 0 {
            restrictions.push((i, "maximum_width", 10.0, "feet")); // never binding
        }
    }
    let mut query = query_of(Some(q), None, &[("name", json!("many"))]);
    if mode != 1 {
        query = with(query, "road_classes", json!([1, 2, 3, 4]));
    }
    if mode != 0 {
        query = with(query, "vehicle_parameters", vehicle(4.0, 15000.0));
    }
    let d = hav(q, pts[k]).unwrap();
    let unit = UNITS[k % 5];
    let tol = if with_tol { Some((tol_for(d, unit, 2.0), Some(unit))) } else { None };
    ecase("many_inadmissible_nearer", edges, if mode != 1 { Some(classes) } else { None }, if mode != 0 { Some(restrictions) } else { None }, tol, query)
}

fn d_near_early(o: P) -> f64 {
    hav(o, (-1680, 632)).unwrap()
}
fn edge_boundary_cases() -> Vec<ECase> {
    let mut out = vec![];
    // five edges east of the origin coordinate, increasingly far: centroids (x, 39.5) for x = -105 + k/4
    let line: Vec<Vec<P>> = (0..5).map(|k| vec![(-1680 + 4 * k - 1, 632), (-1680 + 4 * k + 1, 632)]).collect();
    let o = (-1681, 633);
    let q0 = query_of(Some(o), None, &[("name", json!("e"))]);
    out.push(ecase("basic", line.clone(), None, None, None, query_of(Some(o), Some((-1665, 630)), &[])));
    out.push(ecase("no_candidates", vec![], None, None, None, q0.clone()));
    out.push(ecase("no_candidates", vec![], Some(vec![]), None, Some((10f64.to_bits(), Some("miles"))), q0.clone()));
    // road classes exclude the nearest 0..5 edges
    let classes = vec![1u8, 2, 3, 4, 5];
    for k in 0..=5usize {
        let allowed: Vec<u8> = classes.iter().cloned().filter(|c| (*c as usize) > k).collect();
        out.push(ecase("class_filter", line.clone(), Some(classes.clone()), None, None, with(q0.clone(), "road_classes", json!(allowed))));
    }
    out.push(ecase("class_filter_no_file", line.clone(), None, None, None, with(q0.clone(), "road_classes", json!([9]))));
    out.push(ecase("class_filter_no_query", line.clone(), Some(classes.clone()), None, None, q0.clone()));
    // vehicle restrictions exclude the nearest 1..3 edges
    let restr = vec![(0usize, "maximum_height", 3.0, "meters"), (1, "maximum_height", 3.5, "meters"), (2, "maximum_total_weight", 10.0, "tons"), (2, "maximum_height", 4.5, "meters"), (4, "maximum_length", 10.0, "feet")];
    for (h, w) in [(2.0, 5000.0), (3.2, 5000.0), (4.0, 5000.0), (4.0, 20000.0), (5.0, 20000.0)] {
        out.push(ecase("vehicle_filter", line.clone(), None, Some(restr.clone()), None, with(q0.clone(), "vehicle_parameters", vehicle(h, w))));
    }
    out.push(ecase("vehicle_filter_bad_parameters", line.clone(), None, Some(restr.clone()), None, with(q0.clone(), "vehicle_parameters", json!({"height": [4.0, "meters"]}))));
    out.push(ecase("vehicle_filter_no_parameters", line.clone(), None, Some(restr.clone()), None, q0.clone()));
    out.push(ecase("vehicle_filter_no_file", line.clone(), None, None, None, with(q0.clone(), "vehicle_parameters", vehicle(9.0, 90000.0))));
    // several restriction rows per edge: an edge is admissible iff the vehicle passes EVERY row, wherever the
    // excluding row stands (first / middle / last for its edge, rows of one edge not contiguous in the file)
    {
        let truck = with(q0.clone(), "vehicle_parameters", vehicle(4.1, 20000.0));
        let h0 = (0usize, "maximum_height", 3.5, "meters");
        let w0 = (0usize, "maximum_total_weight", 40.0, "tons");
        let l0 = (0usize, "maximum_length", 100.0, "feet");
        let h1 = (1usize, "maximum_height", 4.0, "meters");
        let w1 = (1usize, "maximum_width", 10.0, "feet");
        let x3 = (3usize, "maximum_trailer_length", 20.0, "meters");
        for rows in [
            vec![h0, w0],                 // excluding row first (the seeded loader keeps only the last row)
            vec![w0, h0],                 // ... last
            vec![w0, h0, l0],             // ... in the middle
            vec![h0, x3, w0],             // rows of edge 0 not contiguous
            vec![h0, h1, w1, w0, l0],     // edges 0 and 1 excluded by their first rows
            vec![w1, h1, x3, l0, h0, w0], // edge 1 excluded by its second row, edge 0 by a middle row
            vec![l0, w0, w1, x3],         // nothing binding: edge 0
        ] {
            out.push(ecase("multi_row_restrictions", line.clone(), None, Some(rows.clone()), None, truck.clone()));
            out.push(ecase("multi_row_restrictions", line.clone(), Some(classes.clone()), Some(rows.clone()), Some((tol_for(hav(o, (-1672, 632)).unwrap(), "kilometers", 3.0), Some("kilometers"))), with(truck.clone(), "road_classes", json!([1, 2, 3, 4, 5]))));
        }
    }
    // REBUILDS: the geometry (and class) files are rewritten IN PLACE and a new plugin is built from the same paths
    // in the same process: same number of rows with other coordinates / another edge order, then a different
    // number of rows (control). Every build must answer from the file contents at ITS build time.
    {
        let rev: Vec<Vec<P>> = line.iter().rev().cloned().collect();
        let shifted: Vec<Vec<P>> = line.iter().map(|l| l.iter().map(|p| (p.0 + 9, p.1 + 4)).collect()).collect();
        let four: Vec<Vec<P>> = line.iter().skip(1).cloned().collect();
        let qd = query_of(Some(o), Some((-1665, 630)), &[]);
        let mut c = ecase("rebuild_same_path", line.clone(), None, None, None, qd.clone());
        c.then = vec![ecase("rebuild_same_path", rev.clone(), None, None, None, qd.clone()), ecase("rebuild_same_path", shifted.clone(), None, None, None, qd.clone())];
        out.push(c);
        let mut c = ecase("rebuild_same_path", rev.clone(), Some(vec![5, 4, 3, 2, 1]), None, Some((tol_for(d_near_early(o), "meters", 2.0), Some("meters"))), with(q0.clone(), "road_classes", json!([1, 2, 3, 4, 5])));
        c.then = vec![ecase("rebuild_same_path", line.clone(), Some(vec![1, 2, 3, 4, 5]), None, Some((tol_for(d_near_early(o), "meters", 2.0), Some("meters"))), with(q0.clone(), "road_classes", json!([1, 2, 3, 4, 5])))];
        out.push(c);
        let mut c = ecase("rebuild_other_row_count", line.clone(), None, None, None, qd.clone());
        c.then = vec![ecase("rebuild_other_row_count", four.clone(), None, None, None, qd.clone()), ecase("rebuild_other_row_count", line.clone(), None, None, None, qd.clone())];
        out.push(c);
        let mut c = ecase("rebuild_same_path", shifted.clone(), None, None, None, q0.clone());
        c.seq = vec![qd.clone()];
        let mut second = ecase("rebuild_same_path", line.clone(), None, None, None, q0.clone());
        second.seq = vec![qd.clone(), q0.clone()];
        c.then = vec![second];
        out.push(c);
    }
    // the vehicle's unit differs from the restriction row's unit (meters vs feet / inches, kg vs pounds / tons): the
    // limit applies to the physical quantity
    {
        // edge 0: 13 ft height limit; edge 1: 150 in height limit (3.81 m); edge 2: 10 short tons; edge 3: 30000 lb per 5 axles = 6000 lb/axle
        let rows = vec![(0usize, "maximum_height", 13.0, "feet"), (1, "maximum_height", 150.0, "inches"), (2, "maximum_total_weight", 10.0, "tons"),
                        (3, "maximum_weight_per_axle", 6000.0, "pounds"), (0, "maximum_width", 3.0, "meters"), (1, "maximum_length", 70.0, "feet")];
        for (h, w) in [(3.5, 8000.0), (3.9, 8000.0), (4.0, 8000.0), (4.3, 8000.0), (4.0, 9500.0), (4.3, 12000.0), (4.3, 14500.0), (3.5, 20000.0)] {
            out.push(ecase("mixed_unit_restrictions", line.clone(), None, Some(rows.clone()), None, with(q0.clone(), "vehicle_parameters", vehicle(h, w))));
        }
        // restrictions in metric units, the vehicle in imperial ones
        let rows_m = vec![(0usize, "maximum_height", 4.0, "meters"), (1, "maximum_total_weight", 9000.0, "kg"), (2, "maximum_height", 4.4, "meters"), (2, "maximum_width", 2.6, "meters")];
        for (hf, wl) in [(12.0, 15000.0), (13.5, 15000.0), (13.5, 25000.0), (14.8, 25000.0), (12.0, 25000.0)] {
            out.push(ecase("mixed_unit_restrictions", line.clone(), None, Some(rows_m.clone()), None, with(q0.clone(), "vehicle_parameters", vehicle_imperial(hf, wl))));
        }
    }
    // boundary axle counts: whenever the unchanged from_query yields parameters (any non-negative integer, narrowed
    // with `as u8`), the height / weight restrictions of the nearest edges must still be enforced; a negative,
    // fractional or non-numeric count means no vehicle parameters at all (no restriction applies). No per-axle row
    // is used here, so the verdict does not depend on the narrowed value.
    {
        let rows = vec![(0usize, "maximum_height", 4.0, "meters"), (1, "maximum_total_weight", 10.0, "tons"), (1, "maximum_length", 100.0, "feet"), (3, "maximum_width", 10.0, "feet")];
        for axles in [json!(0), json!(1), json!(255), json!(256), json!(65536), json!(u64::MAX), json!(-1), json!(2.5), json!("5"), json!(null)] {
            for (h, w) in [(4.5, 5000.0), (4.5, 20000.0), (3.0, 20000.0)] {
                let mut v = vehicle(h, w);
                v["number_of_axles"] = axles.clone();
                out.push(ecase("axle_boundary", line.clone(), None, Some(rows.clone()), None, with(q0.clone(), "vehicle_parameters", v)));
            }
        }
        let mut v = vehicle(4.5, 20000.0);
        v.as_object_mut().unwrap().remove("number_of_axles");
        out.push(ecase("axle_boundary", line.clone(), None, Some(rows.clone()), None, with(q0.clone(), "vehicle_parameters", v)));
    }
    // both filters
    out.push(ecase("both_filters", line.clone(), Some(vec![1, 1, 2, 2, 1]), Some(restr.clone()), None, with(with(q0.clone(), "road_classes", json!([1])), "vehicle_parameters", vehicle(4.0, 5000.0))));
    // road classes as strings
    let mut named = ecase("class_names", line.clone(), Some(classes.clone()), None, None, with(q0.clone(), "road_classes", json!(["primary", "tertiary"])));
    named.mapping = vec![("motorway".into(), 1), ("primary".into(), 2), ("secondary".into(), 3), ("tertiary".into(), 4)];
    out.push(named.clone());
    let mut unknown = named.clone();
    unknown.query = with(q0.clone(), "road_classes", json!(["primary", "cycleway"]));
    out.push(unknown);
    let mut mixed = named.clone();
    mixed.query = with(q0.clone(), "road_classes", json!([3, 5]));
    out.push(mixed);
    for bad in [json!(["primary"]), json!("primary"), json!([1.5]), json!([300]), json!([-1]), json!({"a": 1}), json!(null)] {
        out.push(ecase("class_unparseable", line.clone(), Some(classes.clone()), None, None, with(q0.clone(), "road_classes", bad.clone())));
        let mut m = named.clone();
        m.query = with(q0.clone(), "road_classes", bad);
        m.family = "class_unparseable_with_mapping".into();
        out.push(m);
    }
    out.push(ecase("class_empty_set", line.clone(), Some(classes.clone()), None, None, with(q0.clone(), "road_classes", json!([]))));
    // tolerance = distance to the nearest ADMISSIBLE edge x factor, the nearest two edges excluded
    let q_rc = with(q0.clone(), "road_classes", json!([3, 4, 5]));
    let d_adm = hav(o, (-1672, 632)).unwrap();
    let d_near = hav(o, (-1680, 632)).unwrap();
    for u in UNITS {
        for f in [0.5, 0.999, 1.001, 2.0] {
            out.push(ecase("tolerance_factor_admissible", line.clone(), Some(classes.clone()), None, Some((tol_for(d_adm, u, f), Some(u))), q_rc.clone()));
            out.push(ecase("tolerance_factor_nearest", line.clone(), None, None, Some((tol_for(d_near, u, f), Some(u))), query_of(Some(o), Some((-1677, 633)), &[])));
        }
        for f in [0.99, 0.999, 1.001, 1.01, 1.02] {
            out.push(ecase("tolerance_factor_fine_origin", line.clone(), Some(classes.clone()), None, Some((tol_for(d_adm, u, f), Some(u))), q_rc.clone()));
            // origin exactly on edge 1, the destination decides
            out.push(ecase("tolerance_factor_fine_destination", line.clone(), None, None, Some((tol_for(d_near, u, f), Some(u))), query_of(Some((-1676, 632)), Some(o), &[])));
        }
        // boundary: the edge matcher accepts at the tolerance
        let exact = DistanceUnit::Meters.convert(&Distance::new(d_near), &unit_of(u)).as_f64();
        out.push(ecase("tolerance_boundary", line.clone(), None, None, Some((exact.to_bits(), Some(u))), q0.clone()));
    }
    out.push(ecase("tolerance_boundary_exact_meters", line.clone(), None, None, Some((d_near.to_bits(), Some("meters"))), q0.clone()));
    out.push(ecase("tolerance_boundary_exact_meters", line.clone(), None, None, Some((f64::from_bits(d_near.to_bits() - 1).to_bits(), None)), q0.clone()));
    // within tolerance of the (excluded) nearest but not of the nearest admissible
    out.push(ecase("tolerance_only_excluded_within", line.clone(), Some(classes.clone()), None, Some((tol_for(d_near, "feet", 2.0), Some("feet"))), q_rc.clone()));
    out.push(ecase("tolerance_zero_on_candidate", line.clone(), None, None, Some((0f64.to_bits(), Some("meters"))), query_of(Some((-1680, 632)), None, &[])));
    out.push(ecase("tolerance_zero", line.clone(), None, None, Some((0f64.to_bits(), Some("kilometers"))), q0.clone()));
    out.push(ecase("tolerance_default_unit", line.clone(), None, None, Some((tol_for(d_near, "meters", 2.0), None)), q0.clone()));
    // destination fails after the origin matched: nothing is written
    out.push(ecase("partial_state", line.clone(), None, None, Some((tol_for(d_near, "meters", 2.0), Some("meters"))), query_of(Some(o), Some((-1500, 600)), &[("k", json!([1]))])));
    out.push(ecase("partial_state", line.clone(), None, None, Some((tol_for(d_near, "meters", 2.0), Some("meters"))), query_of(Some((-1500, 600)), Some(o), &[("k", json!([1]))])));
    // high latitude: B = (0, 81.5) nearest by degrees, A = (2, 80) nearest by great circle
    let polar = vec![vec![(31, 1280), (33, 1280)], vec![(0, 1303), (0, 1305)]];
    let pq = (0, 1280);
    let d_a = hav(pq, (32, 1280)).unwrap();
    let d_b = hav(pq, (0, 1304)).unwrap();
    let qp = query_of(Some(pq), None, &[]);
    out.push(ecase("high_latitude", polar.clone(), None, None, Some((tol_for((d_a + d_b) / 2.0, "kilometers", 1.0), Some("kilometers"))), qp.clone()));
    // ... B excluded by class: A is matched although the nearer-by-degrees B is beyond the tolerance
    out.push(ecase("high_latitude_excluded_far", polar.clone(), Some(vec![1, 2]), None, Some((tol_for((d_a + d_b) / 2.0, "kilometers", 1.0), Some("kilometers"))), with(qp.clone(), "road_classes", json!([1]))));
    out.push(ecase("high_latitude_excluded_far", polar.clone(), None, Some(vec![(1, "maximum_height", 2.0, "meters")]), Some((tol_for((d_a + d_b) / 2.0, "miles", 1.0), Some("miles"))), with(qp.clone(), "vehicle_parameters", vehicle(3.0, 1000.0))));
    // ties between centroids
    let cross = vec![vec![(0, 0), (0, 0)], vec![(31, 0), (33, 0)], vec![(0, 31), (0, 33)], vec![(32, 28), (32, 36)]];
    out.push(ecase("tie", cross.clone(), None, None, None, query_of(Some((16, 2)), Some((16, 16)), &[])));
    out.push(ecase("tie_after_filter", cross.clone(), Some(vec![9, 1, 1, 1]), None, None, with(query_of(Some((16, 16)), None, &[]), "road_classes", json!([1]))));
    // bad coordinates
    for q in [json!({"origin_y": 1}), json!({"origin_x": [], "origin_y": 1}), json!({"origin_x": 1, "origin_y": 1, "destination_y": 2}), json!([]), json!({"origin_x": 1, "origin_y": 1, "destination_x": 1, "destination_y": "n"}), json!({"road_classes": "x", "origin_y": 1})] {
        out.push(ecase("bad_coordinates", line.clone(), Some(classes.clone()), None, None, q));
    }
    // stale keys, shapes of every kind
    out.push(ecase(
        "stale_keys",
        vec![vec![(-1680, 632), (-1680, 632)], vec![(-1676, 630), (-1676, 634)], vec![(-1672, 632), (-1668, 632), (-1664, 632)], vec![(-1690, 640), (-1674, 640)]],
        None,
        None,
        None,
        json!({"destination_edge": 3, "origin_x": -105.0625, "origin_vertex": 1, "origin_y": 39.5625, "destination_x": -104.25, "destination_y": 39.5, "origin_edge": "stale", "w": {"a": 1}}),
    ));
    // many edges
    for pos in [0usize, 50, 99] {
        let mut es: Vec<Vec<P>> = (0..100).map(|i| { let c = (((i % 10) as i64) * 8 + 80, ((i / 10) as i64) * 8 + 80); vec![(c.0 - 1, c.1), (c.0 + 1, c.1)] }).collect();
        es[pos] = vec![(2, 2), (2, 2)];
        out.push(ecase("many_candidates", es, None, None, None, query_of(Some((3, 1)), Some((80 + 8 * 4 + 1, 80 + 8 * 7)), &[])));
    }
    // regression for the defect fixed by "edge map matching compares the tolerance with a great-circle distance":
    // 10 m tolerance, a coordinate hundreds of km away must not match (it did: squared degrees vs metres)
    for q in [(32, 32), (64, 64), (1, 1)] {
        out.push(ecase("d_edgetol_regression", vec![vec![(0, 0), (2, 0)]], None, None, Some((10f64.to_bits(), Some("meters"))), query_of(Some(q), None, &[])));
    }
    // more high-latitude layouts where the nearer-by-degrees edge is excluded and beyond the tolerance
    for (lat, k) in [(70i64, 1usize), (75, 2), (84, 3)] {
        let y = lat * 16;
        let mut es = vec![vec![(47, y), (49, y)]]; // A = (3, lat): far by degrees, near by great circle
        for j in 0..k as i64 {
            es.push(vec![(j, y + 39), (j, y + 41)]); // B_j = (j/16, lat + 2.5)
        }
        let pq = (0, y);
        let d_a = hav(pq, (48, y)).unwrap();
        let d_b = hav(pq, (0, y + 40)).unwrap();
        assert!(d_a < d_b);
        let mut cl = vec![1u8];
        cl.extend(std::iter::repeat(2u8).take(k));
        out.push(ecase("high_latitude_excluded_far", es, Some(cl), None, Some((tol_for((d_a + d_b) / 2.0, "feet", 1.0), Some("feet"))), with(query_of(Some(pq), None, &[]), "road_classes", json!([1]))));
    }
    // curved edges (hairpin, closed ring, ramp loop, cul-de-sac) whose centroid lies outside the box of their end
    // points, in a network large enough for the r-tree to have internal nodes; queries on / near the centroid
    // and near the end points, with and without a tolerance
    for kind in [0u64, 1, 2, 3, 5] {
        for o in [0u64, 3, 5] {
            let k = 4;
            let c0 = (16, 12);
            let curved: Vec<P> = orient(&curved_shape(kind, k), o).iter().map(|d| (c0.0 + d.0, c0.1 + d.1)).collect();
            assert_eq!(centroid16(&curved), c0, "curved shape centroid");
            let mut es = vec![curved.clone()];
            for p in [(24, 16), (8, 18), (26, 6), (4, 8), (16, 22), (30, 20), (0, 24), (40, 12), (-8, 12), (16, 30), (28, 28), (6, -2), (27, -3)] {
                es.push(vec![(p.0 - 1, p.1), (p.0 + 1, p.1)]);
            }
            let mut qs = vec![c0, (c0.0 + 1, c0.1 + 1), (c0.0 - 1, c0.1 - 2), (c0.0 + 3, c0.1)];
            qs.push((curved[0].0 + 1, curved[0].1 + 1));
            qs.push((curved[curved.len() - 1].0 - 1, curved[curved.len() - 1].1 + 1));
            for (i, q) in qs.iter().enumerate() {
                let dest = if i % 2 == 0 { Some((qs[(i + 1) % qs.len()].0, qs[(i + 1) % qs.len()].1)) } else { None };
                out.push(ecase("curved_edges", es.clone(), None, None, None, query_of(Some(*q), dest, &[])));
            }
            let d1 = hav((c0.0 + 1, c0.1 + 1), c0).unwrap();
            out.push(ecase("curved_edges_tolerance", es.clone(), None, None, Some((tol_for(d1, "meters", 2.0), Some("meters"))), query_of(Some((c0.0 + 1, c0.1 + 1)), None, &[])));
            out.push(ecase("curved_edges_tolerance", es.clone(), None, None, Some((tol_for(d1, "feet", 0.5), Some("feet"))), query_of(Some((c0.0 + 1, c0.1 + 1)), None, &[])));
        }
    }
    // the tolerance EXACTLY equal to the distance the real haversine returns for the nearest (admissible) edge, and
    // its neighbouring doubles, in Meters (no conversion): the edge matcher accepts AT the tolerance (d <= tol)
    for unit in [Some("meters"), None] {
        for (name, f) in [("equal", 0i64), ("next_up", 1), ("next_down", -1)] {
            let t_near = ((d_near.to_bits() as i64) + f) as u64;
            let t_adm = ((d_adm.to_bits() as i64) + f) as u64;
            out.push(ecase(&format!("tolerance_exact_meters_{}", name), line.clone(), None, None, Some((t_near, unit)), q0.clone()));
            out.push(ecase(&format!("tolerance_exact_meters_{}", name), line.clone(), Some(classes.clone()), None, Some((t_adm, unit)), q_rc.clone()));
            // as destination, the origin exactly on an edge
            out.push(ecase(&format!("tolerance_exact_meters_{}", name), line.clone(), None, None, Some((t_near, unit)), query_of(Some((-1676, 632)), Some(o), &[])));
        }
    }
    // the haversine guards: latitude exactly +-90, longitude exactly +-180 and between 170 and 180 degrees are
    // valid (query and edge reference points); one f32 ulp outside is not
    for sgn in [1i64, -1] {
        let cents: Vec<P> = vec![(-2880 * sgn, 1440 * sgn), (-2872 * sgn, 1432 * sgn), (-2800 * sgn, 1400 * sgn), (-2760 * sgn, 1380 * sgn), (-2790 * sgn, 1440 * sgn)];
        let es: Vec<Vec<P>> = cents.iter().enumerate().map(|(i, c)| if i % 2 == 0 { vec![*c, *c] } else { vec![(c.0 - 1, c.1), (c.0 + 1, c.1)] }).collect();
        let cands: Vec<(u64, P)> = cents.iter().enumerate().map(|(i, c)| (i as u64, *c)).collect();
        let qs: Vec<P> = vec![(-2880, 1440), (-2878, 1440), (-2880, 1436), (-2800, 1401), (-2791, 1398), (-2762, 1381), (-2874, 1432), (-2789, 1439)];
        for (i, q0) in qs.iter().enumerate() {
            let q = (q0.0 * sgn, q0.1 * sgn);
            let dq = qs[(i + 3) % qs.len()];
            let dest = if i % 2 == 1 { Some((dq.0 * sgn, dq.1 * sgn)) } else { None };
            out.push(ecase("guard_boundary", es.clone(), None, None, None, query_of(Some(q), dest, &[])));
            let far = [Some(q), dest].into_iter().flatten().map(|p| minimisers(p, &cands).iter().filter_map(|(_, c)| hav(p, *c)).fold(0.0, f64::max)).fold(0.0, f64::max);
            let unit = UNITS[(i + 2) % 5];
            let t = if far == 0.0 { 1.0 } else { far / si_m(unit) * 2.0 };
            out.push(ecase("guard_boundary_tolerance", es.clone(), None, None, Some((t.to_bits(), Some(unit))), query_of(Some(q), dest, &[])));
        }
        let lat_out = f32::from_bits(90f32.to_bits() + 1) as f64 * sgn as f64;
        let lon_out = -(f32::from_bits(180f32.to_bits() + 1) as f64) * sgn as f64;
        let lat_in = f32::from_bits(90f32.to_bits() - 1) as f64 * sgn as f64;
        let lon_in = -(f32::from_bits(180f32.to_bits() - 1) as f64) * sgn as f64;
        for (x, y) in [(-179.875 * sgn as f64, lat_out), (lon_out, 89.875 * sgn as f64), (-179.875 * sgn as f64, lat_in), (lon_in, 89.875 * sgn as f64)] {
            let q = json!({"origin_x": x, "origin_y": y});
            out.push(ecase("guard_one_ulp", es.clone(), None, None, None, q.clone()));
            if x.abs() > 180.0 || y.abs() > 90.0 {
                out.push(ecase("guard_one_ulp", es.clone(), None, None, Some((1e9f64.to_bits(), Some("meters"))), q.clone()));
            }
        }
    }
    // many inadmissible edges nearer than the only admissible one: the nearest-first scan has to skip them all
    for (ki, k) in [0usize, 8, 40, 63, 64, 65, 100, 300].into_iter().enumerate() {
        for (vi, with_tol) in [false, true].into_iter().enumerate() {
            out.push(many_inadmissible(k, (ki + 2 * vi) % 3, with_tol, k <= 100 && (ki + vi) % 2 == 0));
        }
    }
    for k in [63usize, 64, 65] {
        for mode in 0..3 {
            out.push(many_inadmissible(k, mode, false, mode == 1));
        }
    }
    // SEQUENCES on one plugin instance: the plugin must answer every query on its own
    {
        let veh = |h: f64, w: f64| with(q0.clone(), "vehicle_parameters", vehicle(h, w));
        // the bit-identical coordinate, same (absent) road classes, different vehicles
        let mut c = ecase("sequence_vehicles", line.clone(), None, Some(restr.clone()), None, veh(2.0, 5000.0));
        c.seq = vec![veh(4.2, 5000.0), veh(2.0, 5000.0), veh(3.2, 5000.0), q0.clone(), veh(5.0, 20000.0)];
        out.push(c);
        let mut c = ecase("sequence_vehicles", line.clone(), Some(classes.clone()), Some(restr.clone()), None, with(veh(2.0, 5000.0), "road_classes", json!([1, 2, 3, 4, 5])));
        c.seq = vec![with(veh(4.2, 5000.0), "road_classes", json!([5, 4, 3, 2, 1])), with(veh(4.2, 20000.0), "road_classes", json!([1, 2, 3, 4, 5]))];
        out.push(c);
        let mut c = ecase("sequence_vehicles_tolerance", line.clone(), None, Some(restr.clone()), Some((tol_for(d_adm, "meters", 1.5), Some("meters"))), veh(2.0, 5000.0));
        c.seq = vec![veh(4.2, 5000.0), veh(5.0, 5000.0), veh(2.0, 5000.0)];
        out.push(c);
        // same coordinate, different road classes
        let rc = |v: Value| with(q0.clone(), "road_classes", v);
        let mut c = ecase("sequence_classes", line.clone(), Some(classes.clone()), None, None, rc(json!([1, 2, 3, 4, 5])));
        c.seq = vec![rc(json!([3, 4, 5])), rc(json!([1, 2, 3, 4, 5])), q0.clone(), rc(json!([5])), rc(json!([]))];
        out.push(c);
        // with and without destination, coordinates swapped, interleaved with another coordinate
        let far = (-1665, 630);
        let mut c = ecase("sequence_destinations", line.clone(), None, None, None, query_of(Some(o), Some(far), &[]));
        c.seq = vec![query_of(Some(o), None, &[]), query_of(Some(far), Some(o), &[]), query_of(Some((-1673, 633)), None, &[]), query_of(Some(o), Some(far), &[("n", json!(1))])];
        out.push(c);
        // failures do not poison later queries (and the reverse)
        let mut c = ecase("sequence_errors", line.clone(), None, None, Some((tol_for(d_near, "meters", 2.0), Some("meters"))), query_of(Some((-1500, 600)), None, &[]));
        c.seq = vec![q0.clone(), json!({"origin_y": 1}), q0.clone(), query_of(Some(o), Some((-1500, 600)), &[]), query_of(Some(o), Some((-1677, 633)), &[])];
        out.push(c);
    }
    // coordinate outside the haversine range
    out.push(ecase("out_of_range", line.clone(), None, None, None, query_of(Some((-1680, 1500)), None, &[])));
    out.push(ecase("out_of_range", line.clone(), None, None, Some((1e12f64.to_bits(), Some("meters"))), query_of(Some((-1680, 1500)), None, &[])));
    out
}

/// a large random network (70..130 edges, file order random) in which ~90 % of the edges are inadmissible
fn random_crowded_case(r: &mut Rng) -> ECase {
    let n = r.range(70, 130) as usize;
    let (pts, centre, spread16) = random_points(r, n, false);
    let edges: Vec<Vec<P>> = pts.iter().map(|p| shape_around(r, *p)).collect();
    let n = edges.len();
    let o = random_coord(r, &pts, centre, spread16);
    let d = if r.chance(1, 3) { Some(random_coord(r, &pts, centre, spread16)) } else { None };
    let share = *r.pick(&[80u64, 90, 95, 99]);
    let mut classes = vec![];
    let mut restrictions: Vec<(usize, String, f64, String)> = vec![];
    for i in 0..n {
        let bad = r.below(100) < share;
        let by_class = bad && r.chance(1, 2);
        classes.push(if by_class { 9u8 } else { r.range(1, 4) as u8 });
        if bad && !by_class {
            restrictions.push((i, "maximum_height".into(), 3.0, "meters".into()));
        }
    }
    let mut query = query_of(Some(o), d, &random_extras(r));
    query = with(query, "road_classes", json!([1, 2, 3, 4]));
    query = with(query, "vehicle_parameters", vehicle(4.0, 15000.0));
    let mut c = ECase { family: "random_crowded".into(), edges, classes: Some(classes), restrictions: Some(restrictions), mapping: vec![], tol_bits: None, unit: None, query, seq: vec![], then: vec![] };
    if r.chance(1, 2) {
        let adm = admissible_set(&c, &c.query);
        if let Some((b, u)) = random_tolerance(r, o, &adm) {
            c.tol_bits = Some(b);
            c.unit = u;
        }
        let an = analyse(&c.query, &adm, &tolerance_of(&c.tol_bits, &c.unit));
        if !an.consistent || an.verdicts.iter().any(|v| v == "band") {
            c.tol_bits = None;
            c.unit = None;
        }
    }
    c
}

/// a restriction row that the vehicles of this harness (width 2.5 m, total length 60 ft, trailer 48 ft, <= 30 t,
/// 5 axles) always pass
fn nonbinding_row(r: &mut Rng, e: usize) -> (usize, String, f64, String) {
    match r.below(4) {
        0 => (e, "maximum_width".into(), 10.0, "feet".into()),
        1 => (e, "maximum_length".into(), 100.0, "feet".into()),
        2 => (e, "maximum_trailer_length".into(), 20.0, "meters".into()),
        _ => (e, "maximum_total_weight".into(), 80.0, "tons".into()),
    }
}

fn random_edge_case(r: &mut Rng) -> ECase {
    if r.chance(1, 20) {
        return random_crowded_case(r);
    }
    let n = *r.pick(&[1usize, 2, 3, 4, 6, 8, 10, 12, 16, 24, 30, 45, 70]);
    let polar = r.chance(1, 5);
    let (pts, centre, spread16) = random_points(r, n, polar);
    let edges: Vec<Vec<P>> = pts.iter().map(|p| shape_around(r, *p)).collect();
    let n = edges.len();
    let o = random_coord(r, &pts, centre, spread16);
    let d = if r.chance(1, 2) { Some(random_coord(r, &pts, centre, spread16)) } else { None };
    let mut query = query_of(Some(o), d, &random_extras(r));
    // order candidates by distance from the origin: the filters are aimed at the nearest ones
    let mut order: Vec<usize> = (0..n).collect();
    order.sort_by_key(|i| d2_16(pts[*i], o));
    let mut classes = None;
    let mut mapping = vec![];
    if r.chance(3, 5) {
        let mut cl: Vec<u8> = (0..n).map(|_| r.range(1, 4) as u8).collect();
        let k = r.below(4) as usize; // the k nearest get the excluded class 9
        for i in order.iter().take(k) {
            cl[*i] = 9;
        }
        classes = Some(cl);
        if r.chance(5, 6) {
            if r.chance(1, 4) {
                mapping = vec![("a".into(), 1), ("b".into(), 2), ("c".into(), 3), ("d".into(), 4)];
                query = with(query, "road_classes", json!(["a", "b", "c", "d"]));
            } else {
                query = with(query, "road_classes", json!([1, 2, 3, 4]));
            }
        }
    }
    let mut restrictions = None;
    if r.chance(1, 2) {
        let mut rs: Vec<(usize, String, f64, String)> = vec![];
        let k = r.below(4) as usize;
        let start = r.below(3) as usize;
        for i in order.iter().skip(start).take(k) {
            match r.below(6) {
                0 => rs.push((*i, "maximum_height".into(), 3.0, "meters".into())),
                1 => rs.push((*i, "maximum_total_weight".into(), 8.0, "tons".into())),
                2 => rs.push((*i, "maximum_weight_per_axle".into(), 2000.0, "pounds".into())),
                3 => rs.push((*i, "maximum_height".into(), 11.0, "feet".into())),
                4 => rs.push((*i, "maximum_height".into(), 140.0, "inches".into())),
                _ => rs.push((*i, "maximum_total_weight".into(), 20000.0, "pounds".into())),
            }
        }
        // 0-2 further rows per restricted edge and a few on other edges, none of them binding for the vehicle;
        // the file order is random: the excluding row of an edge comes first / in the middle / last, and the rows
        // of one edge are not contiguous
        let restricted: Vec<usize> = rs.iter().map(|x| x.0).collect();
        for e in restricted {
            for _ in 0..r.below(3) {
                rs.push(nonbinding_row(r, e));
            }
        }
        for _ in 0..r.below(4) {
            let e = r.below(n as u64) as usize;
            rs.push(nonbinding_row(r, e));
        }
        r.shuffle(&mut rs);
        restrictions = Some(rs);
        if r.chance(5, 6) {
            // 4.0 m / 15 t, in metric or in imperial units (13.1 ft / 33070 lb)
            query = with(query, "vehicle_parameters", if r.chance(1, 3) { vehicle_imperial(13.1, 33070.0) } else { vehicle(4.0, 15000.0) });
        }
    }
    let mut c = ECase { family: if polar { "random_high_latitude".into() } else { "random".into() }, edges, classes, restrictions, mapping, tol_bits: None, unit: None, query, seq: vec![], then: vec![] };
    if r.chance(2, 5) {
        // 1..5 more queries on the same plugin instance: the bit-identical coordinate again with other vehicle
        // parameters / road classes / with and without destination, interleaved with other coordinates
        let names = !c.mapping.is_empty();
        for _ in 0..r.range(1, 5) {
            let o2 = if r.chance(3, 4) { o } else { random_coord(r, &pts, centre, spread16) };
            let d2 = match r.below(3) {
                0 => None,
                1 => d.or(Some(o)),
                _ => Some(random_coord(r, &pts, centre, spread16)),
            };
            let mut q = query_of(Some(o2), d2, &random_extras(r));
            match r.below(5) {
                0 => {}
                1 => q = with(q, "vehicle_parameters", vehicle(2.0, 3000.0)),
                2 => q = with(q, "vehicle_parameters", vehicle(4.0, 15000.0)),
                3 => q = with(q, "vehicle_parameters", vehicle(5.0, 30000.0)),
                _ => q = with(q, "vehicle_parameters", json!({"height": [4.0, "meters"]})),
            }
            match r.below(5) {
                0 => {}
                1 => q = with(q, "road_classes", if names { json!(["a", "b", "c", "d"]) } else { json!([1, 2, 3, 4]) }),
                2 => q = with(q, "road_classes", if names { json!(["a", "b", "c", "d"]) } else { json!([4, 3, 2, 1, 9]) }),
                3 => q = with(q, "road_classes", if names { json!(["b", "d"]) } else { json!([2, 4]) }),
                _ => q = with(q, "road_classes", json!([9])),
            }
            c.seq.push(q);
        }
        c.family = format!("{}_sequence", c.family);
    }
    if c.edges.len() >= 2 && r.chance(1, 10) {
        let mut second = c.clone();
        second.edges.reverse();
        if let Some(cl) = &mut second.classes {
            cl.reverse();
        }
        let n = second.edges.len();
        if let Some(rs) = &mut second.restrictions {
            for row in rs.iter_mut() {
                row.0 = n - 1 - row.0;
            }
        }
        second.family = "random_rebuild".into();
        c.then = vec![second];
        c.family = "random_rebuild".into();
    }
    if r.chance(3, 5) {
        // tolerance around the distance of the nearest admissible edge: needs the admissible set, which needs
        // the real functions -> compute it the way run_edge_case does, on a throw-away basis
        let adm = admissible_set(&c, &c.query);
        let target = if d.is_some() && r.chance(1, 2) { d.unwrap() } else { o };
        if let Some((b, u)) = random_tolerance(r, target, &adm) {
            c.tol_bits = Some(b);
            c.unit = u;
        }
        let tol = tolerance_of(&c.tol_bits, &c.unit);
        let bad = std::iter::once(&c.query).chain(c.seq.iter()).any(|q| {
            let an = analyse(q, &admissible_set(&c, q), &tol);
            !an.consistent || an.verdicts.iter().any(|v| v == "band")
        });
        if bad {
            c.tol_bits = None;
            c.unit = None;
        }
    }
    c
}
/// admissible candidates of a case (real vehicle functions, real road class parser)
fn admissible_set(c: &ECase, q: &Value) -> Vec<(u64, P)> {
    let truck = truck_table(c, q);
    let rcq = harness_read_query(&c.mapping, q);
    c.edges
        .iter()
        .enumerate()
        .filter(|(i, _)| {
            let vc = match (&rcq, &c.classes) {
                (Some(Some(s)), Some(cl)) => s.contains(&cl[*i]),
                _ => true,
            };
            truck[*i] && vc
        })
        .map(|(i, l)| (i as u64, centroid16(l)))
        .collect()
}

fn edge_stream(a: &Args) {
    let header = "From Coq Require Import ZArith QArith List String Floats.\nFrom RC Require Import Base.Show Base.Json Model.Units Model.MapMatch Model.MapMatchRun.\nImport ListNotations Units MM MMRun.\nOpen Scope Z_scope.";
    let mut st = Stream::new(&a.out, "edge", header, a.shards);
    let dir = a.out.join("files");
    std::fs::create_dir_all(&dir).unwrap();
    if let Some(p) = &a.replay {
        st.full = true;
        let v: Value = serde_json::from_str(&std::fs::read_to_string(p).unwrap()).unwrap();
        let c: ECase = serde_json::from_value(v["case"].clone()).unwrap();
        run_edge_case(&mut st, &dir, &c);
        st.finish();
        return;
    }
    for c in edge_boundary_cases() {
        run_edge_case(&mut st, &dir, &c);
    }
    let mut rng = Rng::new(a.seed ^ 0xE16E);
    while st.next_id() < a.n {
        let mut r = rng.fork();
        let c = random_edge_case(&mut r);
        run_edge_case(&mut st, &dir, &c);
    }
    st.finish();
}

fn main() {
    if std::env::var("C16_DEBUG").is_err() {
        silence_panics();
    }
    let a = parse_args();
    match a.stream.as_str() {
        "vertex" => vertex_stream(&a),
        "edge" => edge_stream(&a),
        other => {
            eprintln!("unknown stream {}", other);
            std::process::exit(2);
        }
    }
}
