//! C17 harness: grid search expansion.  Runs the REAL GridSearchPlugin, built by the real
//! CompassAppBuilder from a plugin configuration, through the real `apply_input_plugins`
//! (json_array_op -> InputPlugin::process -> json_array_flatten_in_place -> json_array_flatten).
//!
//! streams (same cases in both, selected by the first argument):
//!   grid    : I = produced queries in order (objects key-sorted)   vs  M = model (GS.run)
//!   mset    : I = MultiSet::from(&sets).into_iter().collect() on integer sets, in order  vs  M = MS.to_vec
//!   gridbig : large products (around 1000 .. 65536 queries) judged by count + order-independent digest:
//!             I = count / sum / xor of a 64-bit hash of every produced query's canonical text;
//!             S = count computed in Coq as the product of the field lengths (theorem grid_count) and
//!                 the digest of the expected queries enumerated here, independently of the plugin
//!   bindings: batches of JSON strings through CompassAppBindings::{from_config_toml_string, run_queries} on an
//!             app whose configuration enables grid_search; I = number + sorted multiset of the `request` echoes
//!             of the returned responses; S = concatenation of GS.spec over the batch (Coq), sorted
//!   gridset : I = produced queries as a sorted list of texts       vs  S = specification
//!             (Cartesian product built directly in Coq, sorted)    and M = model, sorted
use routee_compass::app::compass::compass_app::apply_input_plugins;
use routee_compass::app::compass::config::compass_app_builder::CompassAppBuilder;
use routee_compass::plugin::input::input_plugin::InputPlugin;
use routee_compass_core::util::multiset::MultiSet;
use routee_compass::app::bindings::CompassAppBindings;
use routee_compass::app::compass::compass_app::CompassApp;
use routee_compass::app::compass::compass_app_error::CompassAppError;
use serde_json::{json, Map, Value};
use verif_harness::appkit::{self, AppCfg, InPlugin, Net};
use std::sync::Arc;
use verif_harness::*;

type Plugins = Vec<Arc<dyn InputPlugin>>;

fn build_plugins(n: usize) -> Plugins {
    let conf: Vec<Value> = (0..n).map(|_| json!({"type": "grid_search"})).collect();
    CompassAppBuilder::default()
        .build_input_plugins(&json!({ "input_plugins": conf }))
        .expect("grid_search input plugin builds")
}

/// predicate of the stub plugin on a top-level field of the query
#[derive(Clone, Debug)]
enum Pred {
    Always,
    HasKey(String),
    StrEq(String, String),
}
/// one plugin of a chain: the real grid_search plugin, or the harness' stub that adds a grid
/// section to the queries satisfying a predicate (so that a later grid_search meets a
/// multi-element state in which only some elements, not necessarily the first, expand)
#[derive(Clone, Debug)]
enum Stage {
    Grid,
    Add(Pred, Value),
}
struct AddSection {
    pred: Pred,
    section: Value,
}
impl InputPlugin for AddSection {
    fn process(&self, input: &mut Value) -> Result<(), routee_compass::plugin::input::InputPluginError> {
        if let Value::Object(m) = input {
            let holds = match &self.pred {
                Pred::Always => true,
                Pred::HasKey(k) => m.contains_key(k),
                Pred::StrEq(k, s) => m.get(k).and_then(|v| v.as_str()) == Some(s.as_str()),
            };
            if holds {
                m.insert("grid_search".to_string(), self.section.clone());
            }
        }
        Ok(())
    }
}
fn build_chain(chain: &[Stage]) -> Plugins {
    chain
        .iter()
        .map(|s| match s {
            Stage::Grid => build_plugins(1).remove(0),
            Stage::Add(p, sec) => Arc::new(AddSection { pred: p.clone(), section: sec.clone() }) as Arc<dyn InputPlugin>,
        })
        .collect()
}
fn grid_n(n: usize) -> Vec<Stage> {
    vec![Stage::Grid; n]
}
fn chain_json(chain: &[Stage]) -> Value {
    Value::Array(
        chain
            .iter()
            .map(|s| match s {
                Stage::Grid => json!("grid"),
                Stage::Add(p, sec) => {
                    let pj = match p {
                        Pred::Always => json!(["always"]),
                        Pred::HasKey(k) => json!(["has", k]),
                        Pred::StrEq(k, v) => json!(["eq", k, v]),
                    };
                    json!({"pred": pj, "section": sec})
                }
            })
            .collect(),
    )
}
fn chain_of_json(v: &Value) -> Vec<Stage> {
    v.as_array()
        .unwrap()
        .iter()
        .map(|s| {
            if s.is_string() {
                Stage::Grid
            } else {
                let p = s["pred"].as_array().unwrap();
                let g = |i: usize| p[i].as_str().unwrap().to_string();
                let pred = match p[0].as_str().unwrap() {
                    "always" => Pred::Always,
                    "has" => Pred::HasKey(g(1)),
                    _ => Pred::StrEq(g(1), g(2)),
                };
                Stage::Add(pred, s["section"].clone())
            }
        })
        .collect()
}
fn coq_chain(chain: &[Stage]) -> String {
    coq_list(chain, |s| match s {
        Stage::Grid => "GSR.G".to_string(),
        Stage::Add(p, sec) => {
            let pc = match p {
                Pred::Always => "GS.PAlways".to_string(),
                Pred::HasKey(k) => format!("(GS.PHasKey {})", coq_string(k)),
                Pred::StrEq(k, v) => format!("(GS.PStrEq {} {})", coq_string(k), coq_string(v)),
            };
            format!("GSR.A {} {}", pc, coq_json(sec))
        }
    })
}

fn err_class(e: &Value) -> String {
    let msg = e.get("error").and_then(|m| m.as_str()).unwrap_or("");
    if msg.contains("cannot contain the string") {
        "Recursion".into()
    } else if msg.contains("array-valued field with no values") {
        "EmptyAxis".into()
    } else if msg.contains("expected query to be a json object") {
        "UnexpectedQueryStructure".into()
    } else if msg.contains("query is not a JSON object") {
        "NotAnObject".into()
    } else if msg.contains("has broken the invariant") {
        "Invariant".into()
    } else {
        format!("Other({})", msg.chars().take(60).collect::<String>())
    }
}

/// (ordered payload, sorted payload, outcome class, distinct top-level key lists of the produced queries)
fn run_impl(q: &Value, chain: &[Stage]) -> (String, String, String, Option<Vec<Vec<String>>>) {
    let chain: Vec<Stage> = chain.to_vec();
    let q2 = q.clone();
    let r = catch(move || {
        let plugins = build_chain(&chain);
        apply_input_plugins(&q2, &plugins)
    });
    match r {
        Err(_) => ("Panic".into(), "Panic".into(), "Panic".into(), None),
        Ok(Err(e)) => {
            let c = err_class(&e);
            (format!("Err {}", c), format!("Err {}", c), format!("Err {}", c), None)
        }
        Ok(Ok(v)) => {
            let texts: Vec<String> = v.iter().map(|x| show_json(x, true)).collect();
            let mut sorted = texts.clone();
            sorted.sort_by(|a, b| a.as_bytes().cmp(b.as_bytes()));
            let mut keys: Vec<Vec<String>> = vec![];
            for x in v.iter() {
                let ks: Vec<String> = x.as_object().map(|m| m.keys().cloned().collect()).unwrap_or_default();
                if !keys.contains(&ks) {
                    keys.push(ks);
                }
            }
            (format!("Ok [{}]", texts.join(",")), format!("Ok [{}]", sorted.join(",")), "Ok".into(), Some(keys))
        }
    }
}

struct Ctx {
    st: Stream,
    set_mode: bool,
}

fn bucket(n: usize) -> &'static str {
    match n {
        0 => "0",
        1 => "1",
        2..=4 => "2-4",
        5..=16 => "5-16",
        17..=64 => "17-64",
        65..=256 => "65-256",
        257..=1024 => "257-1024",
        _ => ">1024",
    }
}

fn add_case(cx: &mut Ctx, q: Value, napply: usize, family: &str) {
    add_chain_case(cx, q, grid_n(napply), family)
}
fn add_chain_case(cx: &mut Ctx, q: Value, chain: Vec<Stage>, family: &str) {
    let id = cx.st.next_id();
    let (ordered, sorted, class, out_keys) = run_impl(&q, &chain);
    let napply = chain.iter().filter(|s| matches!(s, Stage::Grid)).count();
    let has_stub = chain.len() > napply;
    let st = &mut cx.st;
    // ---- histogram of the input distribution
    st.count(&format!("family:{}", family));
    st.count(&format!("outcome:{}", class));
    st.count(&format!("grid_plugins_in_chain:{}", napply));
    if has_stub {
        st.count("chain_with_stub_plugin");
    }
    if let Some(m) = q.as_object() {
        if m.keys().any(|k| k != "grid_search" && (k.to_lowercase().contains("grid") || k.contains("search"))) {
            st.count("extra_field_named_like_the_grid_key");
        }
    }
    let mut nontrivial = false;
    match q.get("grid_search") {
        None => st.count("section:none"),
        Some(Value::Object(sec)) => {
            let axes: Vec<(&String, &Vec<Value>)> =
                sec.iter().filter_map(|(k, v)| v.as_array().map(|a| (k, a))).collect();
            st.count(&format!("axes:{}", axes.len()));
            let prod: usize = axes.iter().map(|(_, a)| a.len()).product();
            st.count(&format!("product:{}", bucket(prod)));
            if sec.len() > axes.len() {
                st.count("section_has_non_array_fields");
            }
            if axes.len() >= 2 && axes.iter().any(|(_, a)| a.len() == 1) && axes.iter().any(|(_, a)| a.len() > 1) {
                st.count("len1_axis_among_longer");
            }
            if axes.len() >= 3 && axes[1..axes.len() - 1].iter().any(|(_, a)| a.len() == 1) {
                st.count("len1_axis_in_the_middle");
            }
            if axes.len() >= 1 && axes.iter().all(|(_, a)| a.len() == 1) {
                st.count("all_axes_len1");
            }
            let has_obj = axes.iter().any(|(_, a)| a.iter().any(|c| c.is_object()));
            let mixed = axes.iter().any(|(_, a)| a.iter().any(|c| c.is_object()) && a.iter().any(|c| !c.is_object()));
            if has_obj {
                st.count("object_choice");
            }
            if mixed {
                st.count("mixed_axis");
            }
            // name clashes: an object choice writes a base field / another field's name / twice
            let base_keys: Vec<&String> = q.as_object().map(|m| m.keys().collect()).unwrap_or_default();
            let mut clash = false;
            for (k, a) in &axes {
                if base_keys.contains(k) {
                    clash = true;
                }
                for c in a.iter() {
                    if let Some(o) = c.as_object() {
                        for ok in o.keys() {
                            if base_keys.contains(&ok) || axes.iter().any(|(k2, _)| *k2 == ok) {
                                clash = true;
                            }
                        }
                    }
                }
            }
            if clash {
                st.count("name_clash");
            }
            if class == "Ok" && !axes.is_empty() && (prod >= 2 || has_obj) {
                nontrivial = true;
            }
        }
        Some(_) => st.count("section:not_an_object"),
    }
    if !q.is_object() {
        st.count("query:not_an_object");
    }
    if nontrivial && !cx.set_mode {
        // (the gridset stream runs the same cases: counted once)
        st.mark_nontrivial(&format!("{}#{}", q, chain_json(&chain)));
    }
    let desc = json!({"id": id, "family": family, "chain": chain_json(&chain), "query": q});
    let cc = coq_chain(&chain);
    let qc = coq_json(&q);
    if cx.set_mode {
        let terms = vec![
            format!("GSR.line_spec {} {} {} {}", id, cc, qc, coq_opt(&out_keys, |ks| coq_list(ks, |k| coq_list(k, |x| coq_string(x))))),
            format!("GSR.line_model_sorted {} {} {}", id, cc, qc),
        ];
        st.case(terms, vec![format!("I {} {}", id, sorted)], desc);
    } else {
        let terms = vec![format!("GSR.line_model {} {} {}", id, cc, qc)];
        st.case(terms, vec![format!("I {} {}", id, ordered)], desc);
    }
}

// ---------------------------------------------------------------- generators

const KEYS: [&str; 14] = [
    "a", "b", "c", "x", "y", "model_name", "weights", "origin_x", "destination_y", "k1", "K-2", "name", "z_9", "a.b",
];
/// names of extra top-level fields derived from the grid key (prefix / suffix / superstring /
/// case variants): "all other fields are kept" must hold for them too
const GRIDLIKE: [&str; 12] = [
    "grid_search_id", "grid_search_name", "grid_searches", "_grid_search", "my_grid_search", "GRID_SEARCH",
    "Grid_Search", "grid", "search", "grid_searc", "grid_search.x", "grid search",
];
const WORDS: [&str; 8] = ["d1", "t1", "e1", "2017_CHEVROLET_Bolt", "fast", "short est", "v-1.0", ""];

fn scalar(r: &mut Rng) -> Value {
    match r.below(7) {
        0 => Value::Null,
        1 => json!(r.chance(1, 2)),
        2 | 3 => json!(r.range(-5, 40)),
        4 => json!(r.range(-8, 64) as f64 / 8.0 + 0.125), // dyadic: exact through JSON text
        5 => json!(*r.pick(&WORDS)),
        _ => match r.below(4) {
            0 => json!(i64::MAX),
            1 => json!(u64::MAX),
            2 => json!(i64::MIN),
            _ => json!(1.0e15),
        },
    }
}
fn small_object(r: &mut Rng, depth: u32) -> Value {
    let n = r.below(4) as usize; // 0..3 keys (the empty object is a legal choice)
    let mut m = Map::new();
    for _ in 0..n {
        m.insert((*r.pick(&KEYS)).to_string(), any_value(r, depth));
    }
    Value::Object(m)
}
fn any_value(r: &mut Rng, depth: u32) -> Value {
    if depth == 0 {
        return scalar(r);
    }
    match r.below(8) {
        0 => small_object(r, depth - 1),
        1 => {
            let n = r.below(3) as usize;
            Value::Array((0..n).map(|_| any_value(r, depth - 1)).collect())
        }
        _ => scalar(r),
    }
}
/// one option of an array-valued grid field; style 0 scalars, 1 objects, 2 mixture
fn choice(r: &mut Rng, style: u64) -> Value {
    let obj = match style {
        0 => false,
        1 => true,
        _ => r.chance(1, 2),
    };
    if obj {
        small_object(r, 1)
    } else if r.chance(1, 12) {
        // an array-valued option is a scalar choice as far as the plugin is concerned
        Value::Array((0..r.below(3)).map(|_| scalar(r)).collect())
    } else {
        scalar(r)
    }
}
fn distinct_keys(r: &mut Rng, n: usize, avoid: &[String]) -> Vec<String> {
    let mut ks: Vec<String> = KEYS.iter().map(|s| s.to_string()).filter(|k| !avoid.contains(k)).collect();
    r.shuffle(&mut ks);
    ks.truncate(n);
    ks
}
/// lengths 1..=6 for m axes, shrunk until the product fits the cap
fn shape(r: &mut Rng, m: usize, cap: usize) -> Vec<usize> {
    let mut ls: Vec<usize> = (0..m).map(|_| if r.chance(1, 4) { 1 } else { r.range(1, 6) as usize }).collect();
    while ls.iter().product::<usize>() > cap {
        let i = (0..m).max_by_key(|i| ls[*i]).unwrap();
        ls[i] -= 1;
    }
    ls
}
fn section_of(lens: &[usize], axis_keys: &[String], extra_non_arrays: usize, r: &mut Rng) -> Value {
    let mut entries: Vec<(String, Value)> = vec![];
    for (k, n) in axis_keys.iter().zip(lens.iter()) {
        let style = r.below(3);
        entries.push((k.clone(), Value::Array((0..*n).map(|_| choice(r, style)).collect())));
    }
    let used: Vec<String> = axis_keys.to_vec();
    for k in distinct_keys(r, extra_non_arrays, &used) {
        let v = if r.chance(1, 2) { scalar(r) } else { small_object(r, 1) };
        let pos = r.below(entries.len() as u64 + 1) as usize;
        entries.insert(pos, (k, v));
    }
    Value::Object(entries.into_iter().collect())
}
fn query_with(section: Option<Value>, nextra: usize, avoid: &[String], r: &mut Rng) -> Value {
    let mut entries: Vec<(String, Value)> = distinct_keys(r, nextra, avoid).into_iter().map(|k| (k, any_value(r, 2))).collect();
    if r.chance(1, 3) {
        let mut names: Vec<&str> = GRIDLIKE.to_vec();
        r.shuffle(&mut names);
        for nm in names.into_iter().take(r.range(1, 2) as usize) {
            let pos = r.below(entries.len() as u64 + 1) as usize;
            entries.insert(pos, (nm.to_string(), any_value(r, 1)));
        }
    }
    if let Some(s) = section {
        let pos = r.below(entries.len() as u64 + 1) as usize;
        entries.insert(pos, ("grid_search".to_string(), s));
    }
    Value::Object(entries.into_iter().collect())
}

const VEHICLES: [&str; 5] = ["ice", "ev", "phev", "bike", "bus"];

/// a plugin chain with the stub plugin in the middle: the first grid search expands a field of
/// string options, the stub adds a second grid section to the queries with ONE of the options
/// (any position), the next grid search expands only those
fn random_chain_case(r: &mut Rng) -> (Value, Vec<Stage>, &'static str) {
    let k = (*r.pick(&["vehicle", "model_name", "name", "k1"])).to_string();
    let nopt = r.range(2, 4) as usize;
    let mut vs: Vec<&str> = VEHICLES.to_vec();
    r.shuffle(&mut vs);
    vs.truncate(nopt);
    // first section: the string field + 0..2 other small fields, in any key order
    let nother = r.below(3) as usize;
    let other_keys = distinct_keys(r, nother, &[k.clone()]);
    let lens = shape(r, nother, 6);
    let mut sec1 = match section_of(&lens, &other_keys, 0, r) {
        Value::Object(m) => m.into_iter().collect::<Vec<(String, Value)>>(),
        _ => vec![],
    };
    let pos = r.below(sec1.len() as u64 + 1) as usize;
    sec1.insert(pos, (k.clone(), json!(vs)));
    let sec1 = Value::Object(sec1.into_iter().collect());
    let ne = r.below(4) as usize;
    let q = query_with(Some(sec1), ne, &[k.clone()], r);
    let small_section = |r: &mut Rng| -> Value {
        let m = r.range(1, 2) as usize;
        let ks = distinct_keys(r, m, &[k.clone()]);
        let lens = shape(r, m, 6);
        let extra = if r.chance(1, 5) { 1 } else { 0 };
        section_of(&lens, &ks, extra, r)
    };
    let pick_pred = |r: &mut Rng| -> Pred {
        match r.below(10) {
            0 => Pred::Always,
            1 => Pred::HasKey((*r.pick(&KEYS)).to_string()),
            _ => Pred::StrEq(k.clone(), vs[r.below(vs.len() as u64) as usize].to_string()),
        }
    };
    let a1 = Stage::Add(pick_pred(r), small_section(r));
    let chain = match r.below(20) {
        0 | 1 => vec![a1, Stage::Grid],
        2 => vec![Stage::Grid, a1],
        3 | 4 => vec![Stage::Grid, a1, Stage::Grid, Stage::Grid],
        5..=8 => {
            let a2 = Stage::Add(pick_pred(r), small_section(r));
            vec![Stage::Grid, a1, Stage::Grid, a2, Stage::Grid]
        }
        _ => vec![Stage::Grid, a1, Stage::Grid],
    };
    (q, chain, "random_chain")
}

fn random_case(r: &mut Rng) -> (Value, usize, &'static str) {
    let napply = if r.chance(1, 8) { 2 } else { 1 };
    let kind = r.below(100);
    if kind < 6 {
        // no grid section
        let q = query_with(None, r.below(5) as usize, &[], r);
        return (q, napply, "random_no_section");
    }
    if kind < 16 {
        // degenerate / malformed sections
        let q = match r.below(7) {
            0 => {
                let n = r.range(1, 3) as usize;
                let mut lens: Vec<usize> = (0..n).map(|_| r.range(1, 3) as usize).collect();
                let z = r.below(n as u64) as usize;
                lens[z] = 0;
                let ks = distinct_keys(r, n, &[]);
                let sec = section_of(&lens, &ks, 0, r);
                query_with(Some(sec), r.below(3) as usize, &[], r)
            }
            1 => query_with(Some(scalar(r)), r.below(3) as usize, &[], r),
            2 => query_with(Some(json!([1, 2])), r.below(3) as usize, &[], r),
            3 => {
                let inner = *r.pick(&["grid_search", "my_grid_search", "grid_search_2", "xgrid_searchx"]);
                let sec = match r.below(5) {
                    3 => json!({ "m": ["x", "y"], "k": [{"name": "base"}, {"name": "sweep", inner: {"v": [1, 2]}}] }),
                    4 => json!({ "k": [{inner: {"v": [1, 2]}}, 4] }),
                    0 => json!({ inner: ["a", "b"] }),
                    1 => json!({ "k": ["a", inner] }),
                    _ => json!({ "k": [{"deep": {inner: 1}}], "j": [1, 2] }),
                };
                query_with(Some(sec), r.below(3) as usize, &[], r)
            }
            4 => {
                // only non-array fields / empty section
                let sec = section_of(&[], &[], r.below(3) as usize, r);
                query_with(Some(sec), r.below(4) as usize, &[], r)
            }
            5 => match r.below(4) {
                0 => json!([{"a": 1}, {"b": 2}]),
                1 => scalar(r),
                2 => json!([[{"a": 1}], {"b": [1, 2]}]),
                _ => json!([{"grid_search": {"a": [1, 2]}}, {"c": 3}]),
            },
            _ => {
                // near misses of the recursion guard: similar but different text
                let k = *r.pick(&["grid-search", "gridsearch", "grid_searc", "rid_search", "GRID_SEARCH", "grid_ search"]);
                let sec = json!({ k: ["a", k], "j": [{ k: 1 }] });
                query_with(Some(sec), r.below(3) as usize, &[], r)
            }
        };
        return (q, napply, "random_degenerate");
    }
    let m = r.range(1, 5) as usize;
    let cap = *r.pick(&[24usize, 60, 60, 150, 400]);
    let lens = shape(r, m, cap);
    let nextra = r.below(5) as usize;
    // half of the cases: field names disjoint from the extra fields; otherwise clashes allowed
    let ks = distinct_keys(r, m, &[]);
    let avoid: Vec<String> = if r.chance(1, 2) { ks.clone() } else { vec![] };
    let sec = section_of(&lens, &ks, if r.chance(1, 4) { r.range(1, 2) as usize } else { 0 }, r);
    let q = query_with(Some(sec), nextra, &avoid, r);
    (q, napply, "random")
}

fn obj(entries: Vec<(&str, Value)>) -> Value {
    Value::Object(entries.into_iter().map(|(k, v)| (k.to_string(), v)).collect())
}
fn int_axis(n: usize, base: i64) -> Value {
    Value::Array((0..n as i64).map(|i| json!(base + i)).collect())
}
fn shaped_query(lens: &[usize], with_extra: bool) -> Value {
    let names = ["p", "q", "r", "s", "t"];
    let sec: Vec<(&str, Value)> = lens.iter().enumerate().map(|(i, n)| (names[i], int_axis(*n, 10 * (i as i64 + 1)))).collect();
    let mut e = vec![];
    if with_extra {
        e.push(("origin_x", json!(-105.25)));
    }
    e.push(("grid_search", obj(sec)));
    if with_extra {
        e.push(("name", json!("trip")));
    }
    obj(e)
}

fn boundary(cx: &mut Ctx, thorough: bool) {
    // 0..5 axes, all of length 1
    for m in 0..=5usize {
        add_case(cx, shaped_query(&vec![1; m], true), 1, "all_axes_len1");
        add_case(cx, shaped_query(&vec![1; m], false), 2, "all_axes_len1");
    }
    // one axis of length 1 among longer ones, at every position; many axes; unequal lengths
    let shapes: Vec<Vec<usize>> = vec![
        vec![1], vec![2], vec![6], vec![1, 2], vec![2, 1], vec![2, 2], vec![6, 6],
        vec![1, 2, 3], vec![2, 1, 3], vec![2, 3, 1], vec![3, 1, 2], vec![1, 1, 2], vec![1, 2, 1], vec![2, 1, 1],
        vec![3, 3, 3], vec![2, 3, 4], vec![4, 3, 2], vec![2, 2, 2, 2], vec![1, 3, 2, 2], vec![3, 1, 2, 2],
        vec![3, 2, 1, 2], vec![3, 2, 2, 1], vec![2, 1, 1, 3], vec![2, 1, 2, 1, 2], vec![1, 3, 1, 2, 1],
        vec![2, 2, 2, 2, 2], vec![3, 1, 1, 1, 2], vec![6, 1, 6, 1, 2], vec![1, 1, 1, 1, 2], vec![2, 1, 1, 1, 1],
        vec![4, 4, 4, 4], vec![6, 5, 4, 3, 2], vec![6, 6, 6, 6],
    ];
    for s in &shapes {
        add_case(cx, shaped_query(s, true), 1, "shapes");
    }
    if thorough {
        // the largest shape of the property's quantifier: 5 fields of 6 options, 7776 queries
        add_case(cx, shaped_query(&[6, 6, 6, 6, 6], false), 1, "shapes");
    }
    // the unit tests of the plugin
    add_case(cx, json!({"grid_search": {"bar": ["a", "b", "c"], "foo": [1.25, 3.5]}}), 1, "unit_tests");
    add_case(cx, json!({"ignored_key": "ignored_value", "grid_search": {"bar": ["a", "b", "c"], "foo": [1.25, 3.5]}}), 1, "unit_tests");
    add_case(cx, json!({"ignored_key": "ignored_value", "grid_search": {"a": [1, 2], "ignored_inner_key": [{"x": 0, "y": 0}, {"x": 1, "y": 1}]}}), 1, "unit_tests");
    add_case(cx, json!({"abc": 123, "grid_search": {"model_name": ["2016_TOYOTA_Camry_4cyl_2WD", "2017_CHEVROLET_Bolt"],
        "_ignore": [{"name": "d1", "weights": {"distance": 1, "time": 0, "energy_electric": 0}},
                    {"name": "t1", "weights": {"distance": 0, "time": 1, "energy_electric": 0}},
                    {"name": "e1", "weights": {"distance": 0, "time": 0, "energy_electric": 1}}]}}), 1, "unit_tests");
    add_case(cx, json!({"abc": 123, "grid_search": {"grid_search": {"foo": ["a", "b"]}}}), 1, "unit_tests");
    // object choices that overwrite an existing field / an earlier or later field's name / each other
    add_case(cx, json!({"x": 0, "y": 9, "grid_search": {"o": [{"x": 1}, {"x": 2, "y": 3}]}}), 1, "overwrite");
    add_case(cx, json!({"grid_search": {"a": [1, 2], "o": [{"a": 7}, {"b": 8}]}}), 1, "overwrite");
    add_case(cx, json!({"grid_search": {"o": [{"a": 7}, {"b": 8}], "a": [1, 2]}}), 1, "overwrite");
    add_case(cx, json!({"grid_search": {"o": [{"k": 1}, {"k": 2}], "p": [{"k": 3}, {"j": 4}]}}), 1, "overwrite");
    add_case(cx, json!({"a": "base", "grid_search": {"a": [1, 2, 3]}}), 1, "overwrite");
    add_case(cx, json!({"o": "base", "grid_search": {"o": [{"x": 1}, 5, {}]}}), 1, "overwrite");
    add_case(cx, json!({"grid_search": {"a": [1, 1], "b": ["u", "u"]}}), 1, "duplicate_options");
    add_case(cx, json!({"grid_search": {"a": [{}, {}], "b": [null, [1, 2], [[]]]}}), 1, "odd_options");
    // scalar-only and empty grid sections, non-array fields next to arrays
    add_case(cx, json!({"grid_search": {}}), 1, "no_array_fields");
    add_case(cx, json!({"k": 1, "grid_search": {}, "j": 2}), 2, "no_array_fields");
    add_case(cx, json!({"k": 1, "grid_search": {"a": 5, "b": "s", "c": {"d": [1, 2]}}}), 1, "no_array_fields");
    add_case(cx, json!({"k": 1, "grid_search": {"a": 5, "v": [1, 2], "c": {"d": 1}, "w": ["x"]}}), 1, "non_array_fields_ignored");
    // key orders: every order of three fields, section first / middle / last in the query
    let ax = [("p", json!([1, 2])), ("q", json!([{"u": 1}, {"u": 2}, 3])), ("r", json!(["z"]))];
    for perm in [[0, 1, 2], [0, 2, 1], [1, 0, 2], [1, 2, 0], [2, 0, 1], [2, 1, 0]] {
        let sec = obj(perm.iter().map(|i| (ax[*i].0, ax[*i].1.clone())).collect());
        add_case(cx, obj(vec![("grid_search", sec.clone()), ("m", json!(1)), ("n", json!(2))]), 1, "key_orders");
        add_case(cx, obj(vec![("m", json!(1)), ("grid_search", sec.clone()), ("n", json!(2))]), 1, "key_orders");
        add_case(cx, obj(vec![("m", json!(1)), ("n", json!(2)), ("grid_search", sec)]), 1, "key_orders");
    }
    // extra top-level fields whose names derive from the grid key: all must be kept
    add_case(cx, json!({"grid_search_id": 42, "grid_search_name": "sweep-A", "grid_searches": 1, "_grid_search": 2,
        "GRID_SEARCH": 3, "grid": 4, "grid_search": {"model": ["a", "b"], "x": [1, 2]}, "grid_searc": 5}), 1, "names_like_grid_key");
    for nm in GRIDLIKE.iter() {
        add_case(cx, obj(vec![(nm, json!(1)), ("grid_search", json!({"a": [1, 2]})), ("k", json!("v"))]), 1, "names_like_grid_key");
        add_case(cx, obj(vec![("k", json!("v")), ("grid_search", json!({"a": [{"b": 1}]})), (nm, json!({"a": [1, 2]}))]), 2, "names_like_grid_key");
    }
    add_case(cx, json!({"grid_search_id": 42, "my_grid_search": {"a": [1, 2]}, "GRID_SEARCH": {"a": [1]}}), 1, "names_like_grid_key");
    add_case(cx, json!({"grid_search": {"grid": [1, 2], "GRID_SEARCH": ["x"], "search": [{"grid": 0}, 7]}}), 1, "names_like_grid_key");
    // plugin chains: grid_search, a stub that adds a grid section to SOME queries, grid_search again
    let soc = json!({"soc": [0.25, 0.75]});
    let ev = |v: &str| Stage::Add(Pred::StrEq("vehicle".into(), v.into()), soc.clone());
    for vs in [json!(["ice", "ev"]), json!(["ev", "ice"]), json!(["ice", "ev", "bike"]), json!(["ice", "bike", "ev"]), json!(["ev"]), json!(["ice"])] {
        let q = json!({"id": 2, "grid_search": {"vehicle": vs}});
        add_chain_case(cx, q.clone(), vec![Stage::Grid, ev("ev"), Stage::Grid], "chain_sub_grid");
        add_chain_case(cx, q.clone(), vec![Stage::Grid, ev("ev"), Stage::Grid, Stage::Grid], "chain_sub_grid");
        add_chain_case(cx, q, vec![Stage::Grid, ev("ev")], "chain_sub_grid_left_in_place");
    }
    let q3 = json!({"grid_search_id": 7, "grid_search": {"vehicle": ["ice", "ev", "bike"], "w": [1, 2]}});
    add_chain_case(cx, q3.clone(), vec![Stage::Grid, ev("ev"), Stage::Grid, ev("bike"), Stage::Grid], "chain_three_levels");
    add_chain_case(cx, q3.clone(), vec![Stage::Grid, Stage::Add(Pred::HasKey("w".into()), json!({"o": [{"w": 9}, {"z": 1}]})), Stage::Grid], "chain_all_expand");
    add_chain_case(cx, q3.clone(), vec![Stage::Grid, Stage::Add(Pred::HasKey("absent".into()), soc.clone()), Stage::Grid], "chain_none_expands");
    add_chain_case(cx, q3.clone(), vec![Stage::Grid, Stage::Add(Pred::StrEq("vehicle".into(), "bike".into()), json!({"soc": []})), Stage::Grid], "chain_later_query_rejected");
    add_chain_case(cx, q3.clone(), vec![Stage::Grid, Stage::Add(Pred::StrEq("vehicle".into(), "bike".into()), json!({"soc": ["the grid_search"]})), Stage::Grid], "chain_later_query_rejected");
    add_chain_case(cx, q3, vec![Stage::Grid, Stage::Add(Pred::StrEq("vehicle".into(), "ev".into()), json!({"soc": 1, "t": "x"})), Stage::Grid], "chain_section_without_arrays");
    add_chain_case(cx, json!({"k": 1}), vec![Stage::Add(Pred::Always, soc.clone()), Stage::Grid], "chain_stub_first");
    add_chain_case(cx, json!({"k": 1, "grid_search": {"a": [1, 2]}}), vec![Stage::Add(Pred::Always, soc.clone()), Stage::Grid], "chain_stub_replaces_section");
    // no grid section
    add_case(cx, json!({}), 1, "no_section");
    add_case(cx, json!({"a": [1, 2], "b": {"grid": 1}}), 1, "no_section");
    add_case(cx, json!({"a": [1, 2], "grid_searc": {"a": [1, 2]}, "Grid_search": 1}), 2, "no_section");
    add_case(cx, json!({"nested": {"grid_search": {"a": [1, 2]}}}), 1, "no_section");
    // rejected sections and broken invariants
    add_case(cx, json!({"grid_search": {"a": []}}), 1, "empty_axis");
    add_case(cx, json!({"k": 1, "grid_search": {"a": [1, 2], "b": [], "c": [3]}}), 1, "empty_axis");
    add_case(cx, json!({"k": 1, "grid_search": {"a": [], "b": []}}), 1, "empty_axis");
    add_case(cx, json!({"grid_search": 5}), 1, "section_not_object");
    add_case(cx, json!({"grid_search": null}), 1, "section_not_object");
    add_case(cx, json!({"grid_search": [1, 2]}), 1, "section_not_object");
    add_case(cx, json!({"grid_search": "grid_search"}), 1, "recursion_guard");
    add_case(cx, json!({"grid_search": {"a": ["x", "the grid_search text"]}}), 1, "recursion_guard");
    add_case(cx, json!({"grid_search": {"a": [{"b": {"my_grid_search": 1}}]}}), 1, "recursion_guard");
    add_case(cx, json!({"grid_search": {"a": ["grid", "_search", "grid_", "search"]}}), 1, "recursion_guard");
    // object-valued options that themselves carry a grid_search key, at depth 1 (would be merged into
    // the top level) and depth 2, alone / among ordinary options / first / last, 1 and 2 plugins
    let sweep = json!({"name": "sweep", "grid_search": {"speed_limit": [30, 50]}});
    let deep = json!({"name": "deep", "opts": {"grid_search": {"a": [1]}}});
    for n in 1..=2usize {
        add_case(cx, json!({"origin_vertex": 0, "destination_vertex": 2, "grid_search": {"model_name": ["camry", "bolt"],
            "_scenario": [{"name": "baseline"}, sweep.clone()]}}), n, "grid_key_inside_object_choice");
        add_case(cx, json!({"grid_search": {"_scenario": [sweep.clone(), {"name": "baseline"}]}}), n, "grid_key_inside_object_choice");
        add_case(cx, json!({"k": 1, "grid_search": {"_scenario": [sweep.clone()]}}), n, "grid_key_inside_object_choice");
        add_case(cx, json!({"k": 1, "grid_search": {"_scenario": [{"grid_search": 5}, 7]}}), n, "grid_key_inside_object_choice");
        add_case(cx, json!({"k": 1, "grid_search": {"_scenario": [{"grid_search": {}}], "b": [1, 2]}}), n, "grid_key_inside_object_choice");
        add_case(cx, json!({"k": 1, "grid_search": {"a": [1, 2], "_scenario": [{"name": "baseline"}, deep.clone()]}}), n, "grid_key_inside_object_choice");
        add_case(cx, json!({"k": 1, "grid_search": {"_scenario": [[{"grid_search": {"a": [1]}}], 3]}}), n, "grid_key_inside_object_choice");
        add_case(cx, json!({"k": 1, "grid_search": {"note": {"grid_search": {"a": [1]}}, "a": [1, 2]}}), n, "grid_key_inside_object_choice");
    }
    add_case(cx, json!(7), 1, "query_not_object");
    add_case(cx, json!([{"a": 1}, {"b": 2}]), 1, "query_not_object");
    add_case(cx, json!([{"grid_search": {"a": [1, 2]}}]), 1, "query_not_object");
    add_case(cx, json!([[{"a": 1}]]), 2, "query_not_object");
    add_case(cx, json!([]), 1, "query_not_object");
}

// ---------------------------------------------------------------- stream mset: MultiSet directly

fn mset_case(st: &mut Stream, sets: Vec<Vec<i64>>, family: &str) {
    let id = st.next_id();
    let s2 = sets.clone();
    let out = match catch(move || MultiSet::from(&s2).into_iter().collect::<Vec<Vec<i64>>>()) {
        Err(_) => "Panic".to_string(),
        Ok(v) => format!("Ok {}", show_list(&v, |x| show_list(x, |z| z.to_string()))),
    };
    let prod: usize = sets.iter().map(|s| s.len()).product();
    st.count(&format!("family:{}", family));
    st.count(&format!("sets:{}", sets.len()));
    st.count(&format!("product:{}", bucket(prod)));
    if sets.iter().any(|s| s.is_empty()) {
        st.count("has_empty_set");
    }
    if sets.len() >= 3 && sets[1..sets.len() - 1].iter().any(|s| s.len() == 1) {
        st.count("len1_set_in_the_middle");
    }
    if sets.len() >= 2 && prod >= 2 {
        st.mark_nontrivial(&format!("{:?}", sets));
    }
    let term = format!(
        "GSR.line_mset {} {}",
        id,
        coq_list(&sets, |s| coq_list(s, |z| coq_z(*z as i128)))
    );
    st.case(vec![term], vec![format!("I {} {}", id, out)], json!({"id": id, "family": family, "sets": sets}));
}

fn mset_main(a: &Args, header: &str) {
    let mut st = Stream::new(&a.out, "mset", header, a.shards);
    if let Some(p) = &a.replay {
        st.full = true;
        let v: Value = serde_json::from_str(&std::fs::read_to_string(p).unwrap()).unwrap();
        let sets: Vec<Vec<i64>> = serde_json::from_value(v["case"]["sets"].clone()).unwrap();
        mset_case(&mut st, sets, "replay");
        st.finish();
        return;
    }
    let mk = |lens: &[usize]| -> Vec<Vec<i64>> {
        lens.iter().enumerate().map(|(i, n)| (0..*n as i64).map(|j| 10 * (i as i64 + 1) + j).collect()).collect()
    };
    mset_case(&mut st, vec![], "empty_family");
    mset_case(&mut st, vec![vec![1, 3], vec![2], vec![5, 7, 9]], "unit_test");
    mset_case(&mut st, vec![vec![1, 1], vec![2, 2]], "duplicates");
    for m in 1..=5usize {
        mset_case(&mut st, mk(&vec![1; m]), "all_len1");
        for z in 0..m {
            let mut l = vec![2; m];
            l[z] = 0;
            mset_case(&mut st, mk(&l), "empty_set_at_each_position");
            let mut l = vec![3; m];
            l[z] = 1;
            mset_case(&mut st, mk(&l), "len1_set_at_each_position");
            let mut l = vec![1; m];
            l[z] = 4;
            mset_case(&mut st, mk(&l), "one_long_set");
        }
    }
    for l in [vec![6, 6], vec![2, 3, 4], vec![4, 3, 2], vec![2, 2, 2, 2, 2], vec![6, 5, 4, 3, 2], vec![2, 1, 1, 3], vec![3, 1, 2, 1, 2]] {
        mset_case(&mut st, mk(&l), "shapes");
    }
    let mut rng = Rng::new(a.seed ^ 0x6d73);
    while st.next_id() < a.n {
        let mut r = rng.fork();
        let m = r.below(6) as usize;
        let cap = *r.pick(&[30usize, 100, 300, 1500]);
        let mut lens: Vec<usize> = if m == 0 { vec![] } else { shape(&mut r, m, cap) };
        if m > 0 && r.chance(1, 12) {
            let z = r.below(m as u64) as usize;
            lens[z] = 0;
        }
        let sets: Vec<Vec<i64>> = lens.iter().map(|n| (0..*n).map(|_| r.range(-9, 99)).collect()).collect();
        mset_case(&mut st, sets, "random");
    }
    st.finish();
}

// ---------------------------------------------------------------- stream gridbig: count + digest

fn big_query(lens: &[usize], objects: bool) -> Value {
    let mut sec = Map::new();
    for (i, n) in lens.iter().enumerate() {
        let last_obj = objects && i + 1 == lens.len();
        let opts: Vec<Value> = (0..*n as i64).map(|j| if last_obj { json!({"o": j, "p": {"q": j}}) } else { json!(j) }).collect();
        sec.insert(format!("f{}", i), Value::Array(opts));
    }
    json!({"origin_vertex": 5, "grid_search": Value::Object(sec), "grid_search_id": "big", "o": "base"})
}
fn digest_add(d: &mut (u64, u64, u64), text: &str) {
    let h = fnv(text);
    d.0 += 1;
    d.1 = d.1.wrapping_add(h);
    d.2 ^= h;
}
/// the specification, independent of the plugin: enumerate the product with nested counters and
/// build each expected query directly (other fields kept, no grid section, scalar under the
/// field's name, object merged)
fn big_expected(lens: &[usize], objects: bool) -> (u64, u64, u64) {
    let mut d = (0u64, 0u64, 0u64);
    if lens.iter().any(|n| *n == 0) {
        return d;
    }
    let mut idx = vec![0usize; lens.len()];
    loop {
        let mut m = Map::new();
        m.insert("origin_vertex".into(), json!(5));
        m.insert("grid_search_id".into(), json!("big"));
        m.insert("o".into(), json!("base"));
        for (i, j) in idx.iter().enumerate() {
            if objects && i + 1 == lens.len() {
                m.insert("o".into(), json!(*j as i64));
                m.insert("p".into(), json!({"q": *j as i64}));
            } else {
                m.insert(format!("f{}", i), json!(*j as i64));
            }
        }
        digest_add(&mut d, &show_json(&Value::Object(m), true));
        // next index vector, LAST field fastest (any order will do: the digest ignores order)
        let mut k = lens.len();
        loop {
            if k == 0 {
                return d;
            }
            k -= 1;
            idx[k] += 1;
            if idx[k] < lens[k] {
                break;
            }
            idx[k] = 0;
        }
    }
}
fn big_case(st: &mut Stream, plugins: &Plugins, lens: Vec<usize>, objects: bool, family: &str) {
    let id = st.next_id();
    let q = big_query(&lens, objects);
    let imp = match catch(std::panic::AssertUnwindSafe(|| apply_input_plugins(&q, plugins))) {
        Err(_) => "Panic".to_string(),
        Ok(Err(e)) => format!("Err {}", err_class(&e)),
        Ok(Ok(v)) => {
            let mut d = (0u64, 0u64, 0u64);
            for x in v.iter() {
                digest_add(&mut d, &show_json(x, true));
            }
            format!("Ok n={} sum={} xor={}", d.0, d.1, d.2)
        }
    };
    let e = big_expected(&lens, objects);
    let prod: usize = lens.iter().product();
    st.count(&format!("family:{}", family));
    st.count(&format!("fields:{}", lens.len()));
    st.count(&format!("product:{}", match prod { 0..=999 => "<1000", 1000..=4095 => "1000-4095", 4096..=9999 => "4096-9999", 10000 => "10000", 10001..=16383 => "10001-16383", 16384..=65535 => "16384-65535", _ => ">=65536" }));
    if objects {
        st.count("object_options");
    }
    st.mark_nontrivial(&format!("{:?}{}", lens, objects));
    let term = format!(
        "GSR.line_big {} {} {} {}",
        id,
        coq_list(&lens, |n| coq_nat(*n)),
        coq_z(e.1 as i128),
        coq_z(e.2 as i128)
    );
    // the harness-side count must agree with Coq's: checked by the driver through the S line (n=)
    let _ = e.0;
    st.case(vec![term], vec![format!("I {} {}", id, imp)], json!({"id": id, "family": family, "lens": lens, "objects": objects}));
}
fn big_main(a: &Args, header: &str) {
    let mut st = Stream::new(&a.out, "gridbig", header, a.shards);
    let plugins = build_plugins(1);
    if let Some(p) = &a.replay {
        st.full = true;
        let v: Value = serde_json::from_str(&std::fs::read_to_string(p).unwrap()).unwrap();
        let lens: Vec<usize> = serde_json::from_value(v["case"]["lens"].clone()).unwrap();
        big_case(&mut st, &plugins, lens, v["case"]["objects"].as_bool().unwrap_or(false), "replay");
        st.finish();
        return;
    }
    // just below / at / above round thresholds
    let fixed: Vec<(Vec<usize>, &str)> = vec![
        (vec![27, 37], "999"), (vec![10, 10, 10], "1000"), (vec![7, 11, 13], "1001"),
        (vec![31, 33], "1023"), (vec![2; 10], "1024"), (vec![25, 41], "1025"),
        (vec![63, 65], "4095"), (vec![64, 64], "4096"), (vec![2; 12], "4096"), (vec![17, 241], "4097"),
        (vec![99, 101], "9999"), (vec![100, 100], "10000"), (vec![10, 10, 10, 10], "10000"), (vec![73, 137], "10001"),
        (vec![101, 100], "10100"), (vec![127, 129], "16383"), (vec![2; 14], "16384"), (vec![5, 29, 113], "16385"),
        (vec![255, 257], "65535"), (vec![256, 256], "65536"), (vec![2; 16], "65536"), (vec![65537], "65537"),
        (vec![1, 1000, 1], "1000"), (vec![3, 1, 3334], "10002"),
    ];
    for (i, (lens, _)) in fixed.iter().enumerate() {
        big_case(&mut st, &plugins, lens.clone(), i % 3 == 2, "thresholds");
    }
    let mut rng = Rng::new(a.seed ^ 0x626967);
    while st.next_id() < a.n.max(fixed.len() + 3) {
        let mut r = rng.fork();
        let m = r.range(1, 5) as usize;
        let target = *r.pick(&[1000usize, 1024, 4096, 10000, 10001, 16384, 20000, 40000, 65536]);
        // random lengths whose product lands near the target
        let mut lens: Vec<usize> = vec![1; m];
        let mut prod = 1usize;
        for i in 0..m {
            let rest = (target / prod).max(1);
            let n = if i + 1 == m { rest + r.below(3) as usize } else { (r.range(1, 40) as usize).min(rest) };
            lens[i] = n.max(1);
            prod *= lens[i];
        }
        r.shuffle(&mut lens);
        big_case(&mut st, &plugins, lens, r.chance(1, 3), "random_near_threshold");
    }
    st.finish();
}

// ---------------------------------------------------------------- stream bindings: run_queries

/// what routee-compass-py does: a wrapper struct holding the app, the trait's default methods
struct BindApp {
    app: CompassApp,
}
impl CompassAppBindings for BindApp {
    fn from_config_toml_string(config_string: String, original_file_path: String) -> Result<Self, CompassAppError> {
        let app = CompassApp::try_from_config_toml_string(config_string, original_file_path, &CompassAppBuilder::default())?;
        Ok(BindApp { app })
    }
    fn app(&self) -> &CompassApp {
        &self.app
    }
}
fn bind_case(st: &mut Stream, app: &BindApp, batch: Vec<Value>, family: &str) {
    let id = st.next_id();
    let strings: Vec<String> = batch.iter().map(|q| q.to_string()).collect();
    let imp = match catch(std::panic::AssertUnwindSafe(|| app.run_queries(strings, None))) {
        Err(_) => "Panic".to_string(),
        Ok(Err(e)) => format!("Err {}", e.to_string().chars().take(80).collect::<String>()),
        Ok(Ok(out)) => {
            let mut texts: Vec<String> = out
                .iter()
                .map(|s| match serde_json::from_str::<Value>(s) {
                    Ok(v) => match v.get("request") {
                        Some(r) => show_json(r, true),
                        None => format!("<response without request: {}>", s.chars().take(60).collect::<String>()),
                    },
                    Err(_) => "<response is not JSON>".to_string(),
                })
                .collect();
            texts.sort_by(|a, b| a.as_bytes().cmp(b.as_bytes()));
            format!("Ok n={} [{}]", texts.len(), texts.join(","))
        }
    };
    let dims: Vec<usize> = batch
        .iter()
        .map(|q| q.get("grid_search").and_then(|s| s.as_object()).map(|m| m.values().filter(|v| v.is_array()).count()).unwrap_or(0))
        .collect();
    st.count(&format!("family:{}", family));
    st.count(&format!("batch_size:{}", batch.len()));
    for (q, d) in batch.iter().zip(dims.iter()) {
        st.count(&if q.get("grid_search").is_none() { "query:no_section".to_string() } else { format!("query:grid_dimensions:{}", d) });
    }
    if dims.iter().any(|d| *d >= 1) {
        st.mark_nontrivial(&format!("{:?}", batch));
    }
    let term = format!("GSR.line_spec_batch {} {}", id, coq_list(&batch, coq_json));
    st.case(vec![term], vec![format!("I {} {}", id, imp)], json!({"id": id, "family": family, "batch": batch}));
}
fn bind_query(r: &mut Rng, dims: usize, with_section: bool) -> Value {
    let o = r.below(9);
    let mut d = r.below(9);
    if d == o {
        d = (d + 1) % 9;
    }
    let mut entries: Vec<(String, Value)> = vec![("origin_vertex".into(), json!(o)), ("destination_vertex".into(), json!(d))];
    if r.chance(1, 2) {
        entries.push(("tag".into(), json!(*r.pick(&WORDS))));
    }
    if with_section {
        let ks = distinct_keys(r, dims, &[]);
        let lens: Vec<usize> = (0..dims).map(|_| r.range(1, 4) as usize).collect();
        let extra = if r.chance(1, 4) { 1 } else { 0 };
        let mut sec = section_of(&lens, &ks, extra, r);
        if dims >= 1 && r.chance(1, 3) {
            // an option list that changes the search itself
            let alt: Vec<Value> = (0..9u64).filter(|v| *v != o).take(r.range(1, 3) as usize).map(|v| json!(v)).collect();
            sec.as_object_mut().unwrap().insert("destination_vertex".into(), Value::Array(alt));
        }
        let pos = r.below(entries.len() as u64 + 1) as usize;
        entries.insert(pos, ("grid_search".into(), sec));
    }
    Value::Object(entries.into_iter().collect())
}
fn bind_main(a: &Args, header: &str) {
    let mut st = Stream::new(&a.out, "bindings", header, a.shards);
    let mut cfg = AppCfg::basic(Net::grid(3, 3));
    cfg.inputs = vec![InPlugin::GridSearch];
    let dir = a.out.join("app");
    let files = appkit::write_network(&dir, &cfg.net);
    let toml = appkit::config_toml(&cfg, &files);
    let conf = std::fs::canonicalize(&dir).unwrap().join("compass.toml");
    std::fs::write(&conf, &toml).unwrap();
    let app = BindApp::from_config_toml_string(toml, conf.to_str().unwrap().to_string()).expect("bindings app builds");
    if let Some(p) = &a.replay {
        st.full = true;
        let v: Value = serde_json::from_str(&std::fs::read_to_string(p).unwrap()).unwrap();
        let cases: Vec<Value> = match v.get("cases").and_then(|c| c.as_array()) {
            Some(cs) => cs.iter().filter(|c| c.get("batch").is_some()).cloned().collect(),
            None => vec![v["case"].clone()],
        };
        for c in cases {
            let batch: Vec<Value> = c["batch"].as_array().unwrap().clone();
            bind_case(&mut st, &app, batch, c["family"].as_str().unwrap_or("replay"));
        }
        st.finish();
        return;
    }
    let plain = json!({"origin_vertex": 0, "destination_vertex": 8});
    let g0 = json!({"origin_vertex": 0, "destination_vertex": 8, "grid_search": {}});
    let g1 = json!({"origin_vertex": 0, "destination_vertex": 8, "grid_search": {"a": [1, 2, 3]}});
    let g11 = json!({"origin_vertex": 1, "destination_vertex": 7, "grid_search": {"a": ["only"]}});
    let g2 = json!({"origin_vertex": 0, "destination_vertex": 8, "grid_search": {"a": [1, 2], "name": ["x", "y", "z"]}});
    let g2o = json!({"origin_vertex": 2, "destination_vertex": 6, "tag": "t", "grid_search": {"destination_vertex": [3, 4], "w": [{"name": "d1", "k": 1}, {"name": "t1"}, 5]}});
    let g3 = json!({"origin_vertex": 4, "destination_vertex": 0, "grid_search": {"a": [1, 2], "b": [true], "c": [null, "s"]}});
    for b in [
        vec![plain.clone()], vec![g0.clone()], vec![g1.clone()], vec![g11.clone()], vec![g2.clone()], vec![g2o.clone()], vec![g3.clone()],
        vec![plain.clone(), g2.clone()], vec![g2.clone(), plain.clone()], vec![g1.clone(), g2.clone()], vec![g2.clone(), g2.clone()],
        vec![plain.clone(), g1.clone(), plain.clone(), g2o.clone()], vec![g0.clone(), g11.clone(), g3.clone()], vec![],
    ] {
        bind_case(&mut st, &app, b, "boundary");
    }
    let mut rng = Rng::new(a.seed ^ 0x62696e64);
    while st.next_id() < a.n {
        let mut r = rng.fork();
        let nb = r.range(1, 3) as usize;
        let batch: Vec<Value> = (0..nb)
            .map(|_| match r.below(8) {
                0 => bind_query(&mut r, 0, false),
                1 => bind_query(&mut r, 0, true),
                2 | 3 => bind_query(&mut r, 1, true),
                4 | 5 | 6 => bind_query(&mut r, 2, true),
                _ => bind_query(&mut r, 3, true),
            })
            .collect();
        bind_case(&mut st, &app, batch, "random");
    }
    st.finish();
}

fn main() {
    silence_panics();
    let a = parse_args();
    let header = "From Coq Require Import ZArith List String Floats.\nFrom RC Require Import Base.Show Base.Json Model.GridSearch Model.GridSearchRun.\nImport ListNotations.\nOpen Scope Z_scope.";
    if a.stream == "bindings" {
        bind_main(&a, header);
        return;
    }
    if a.stream == "gridbig" {
        big_main(&a, header);
        return;
    }
    if a.stream == "mset" {
        mset_main(&a, header);
        return;
    }
    let name = if a.stream == "gridset" { "gridset" } else { "grid" };
    let mut cx = Ctx { st: Stream::new(&a.out, name, header, a.shards), set_mode: name == "gridset" };
    if let Some(p) = &a.replay {
        cx.st.full = true;
        let v: Value = serde_json::from_str(&std::fs::read_to_string(p).unwrap()).unwrap();
        // {"case": desc} (one case, written by the driver) or {"cases": [desc, ...]} (corpus file)
        let cases: Vec<Value> = match v.get("cases").and_then(|c| c.as_array()) {
            Some(cs) => cs.clone(),
            None => vec![v["case"].clone()],
        };
        for case in &cases {
            if case.get("query").is_none() {
                continue; // a corpus case of another stream (bindings batch)
            }
            let chain = match case.get("chain") {
                Some(c) if c.is_array() => chain_of_json(c),
                _ => grid_n(case["napply"].as_u64().unwrap_or(1) as usize),
            };
            let family = case["family"].as_str().unwrap_or("replay").to_string();
            add_chain_case(&mut cx, case["query"].clone(), chain, &family);
        }
        cx.st.finish();
        return;
    }
    boundary(&mut cx, a.n >= 5000);
    let mut rng = Rng::new(a.seed);
    while cx.st.next_id() < a.n {
        let mut r = rng.fork();
        if r.chance(1, 5) {
            let (q, chain, family) = random_chain_case(&mut r);
            add_chain_case(&mut cx, q, chain, family);
        } else {
            let (q, napply, family) = random_case(&mut r);
            add_case(&mut cx, q, napply, family);
        }
    }
    cx.st.finish();
}
