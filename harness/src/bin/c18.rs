//! C18 harness: strongly connected components (stream `scc`).
//! Builds real `Graph`s (directly, the way scc.rs's own tests and edge_loader.rs fill `adj`/`rev`,
//! and for one family through `Graph::from_files`), calls `all_strongly_connected_componenets` and
//! `largest_strongly_connected_component`, prints the canonical result (`I`), the model term (`M`)
//! and the verified-checker term on the implementation's raw output (`S`).
use routee_compass_core::algorithm::component::scc::{
    all_strongly_connected_componenets, largest_strongly_connected_component,
};
use routee_compass_core::model::network::{Edge, Graph, Vertex};
use routee_compass_core::util::compact_ordered_hash_map::CompactOrderedHashMap;
use serde_json::json;
use verif_harness::*;

type E = (usize, usize);

/// adjacency exactly as edge_loader.rs fills it: edges in id order, an endpoint outside the vertex
/// table is skipped on that side ("missing vertex")
fn build_direct(n: usize, es: &[E]) -> Graph {
    let vertices: Vec<Vertex> = (0..n).map(|i| Vertex::new(i, i as f32, 0.0)).collect();
    let edges: Vec<Edge> = es.iter().enumerate().map(|(i, (s, d))| Edge::new(i, *s, *d, 1.0)).collect();
    let mut adj = vec![CompactOrderedHashMap::empty(); n];
    let mut rev = vec![CompactOrderedHashMap::empty(); n];
    for e in &edges {
        if let Some(m) = adj.get_mut(e.src_vertex_id.0) {
            m.insert(e.edge_id, e.dst_vertex_id);
        }
        if let Some(m) = rev.get_mut(e.dst_vertex_id.0) {
            m.insert(e.edge_id, e.src_vertex_id);
        }
    }
    Graph {
        adj: adj.into_boxed_slice(),
        rev: rev.into_boxed_slice(),
        edges: edges.into_boxed_slice(),
        vertices: vertices.into_boxed_slice(),
    }
}

/// through the public loader (CSV files -> Graph::from_files)
/// `dists`: the distance column of the edge list (1.0 everywhere when None)
/// `hint`: the n_edges size hint handed to Graph::from_files (Some(None) = no hint; None = the exact row count).
/// `first_id`: id of the first edge row (0 = as the loader expects).
fn build_files_h(n: usize, es: &[E], dir: &std::path::Path, id: usize, dists: Option<&[f64]>, hint: Option<Option<usize>>, first_id: usize) -> Result<Graph, String> {
    let ep = dir.join(format!("c18_edges_{}.csv", id));
    let vp = dir.join(format!("c18_vertices_{}.csv", id));
    let mut s = String::from("edge_id,src_vertex_id,dst_vertex_id,distance\n");
    for (i, (a, b)) in es.iter().enumerate() {
        let d = dists.map(|d| d[i]).unwrap_or(1.0);
        s.push_str(&format!("{},{},{},{:?}\n", i + first_id, a, b, d));
    }
    std::fs::write(&ep, s).map_err(|e| e.to_string())?;
    let mut s = String::from("vertex_id,x,y\n");
    for i in 0..n {
        s.push_str(&format!("{},{}.0,0.0\n", i, i));
    }
    std::fs::write(&vp, s).map_err(|e| e.to_string())?;
    let n_edges_hint = match hint {
        None => Some(es.len()),
        Some(h) => h,
    };
    let g = Graph::from_files(&ep, &vp, n_edges_hint, Some(n), Some(false)).map_err(|e| e.to_string());
    let _ = std::fs::remove_file(&ep);
    let _ = std::fs::remove_file(&vp);
    g
}

fn canon(comps: &[Vec<usize>]) -> Vec<Vec<usize>> {
    let mut c: Vec<Vec<usize>> = comps
        .iter()
        .map(|x| {
            let mut y = x.clone();
            y.sort();
            y
        })
        .collect();
    c.sort();
    c
}
fn show_comp(c: &Vec<usize>) -> String {
    show_list(c, |v| v.to_string())
}
fn coq_comp(c: &Vec<usize>) -> String {
    coq_list(c, |v| v.to_string())
}

/// Cases are first collected as specs and then dealt round-robin over the shards (the library
/// cuts the case list into contiguous chunks, and the expensive cases - large graphs - are all
/// generated last): chunk c receives the specs whose index is congruent to c modulo the shard count.
struct Spec {
    n: usize,
    es: Vec<E>,
    family: String,
    via_files: bool,
    /// Some((shape, k)): a case of the "deep" family, rebuilt from (shape, n, k)
    deep: Option<(String, usize)>,
    /// family `loaded`: distance column of the edge list file (zero-length edges included)
    dists: Option<Vec<f64>>,
    /// family `loaded`: explicit n_edges hint for Graph::from_files (Some(None) = no hint)
    hint: Option<Option<usize>>,
    /// family `sequence`
    steps: Option<Vec<Step>>,
}
struct Gen {
    specs: Vec<Spec>,
}
fn add_case(g: &mut Gen, n: usize, es: Vec<E>, family: &str, via_files: bool, _tmp: &std::path::Path) {
    g.specs.push(Spec { n, es, family: family.to_string(), via_files, deep: None, dists: None, hint: None, steps: None });
}
fn add_deep(g: &mut Gen, shape: &str, n: usize, k: usize) {
    g.specs.push(Spec { n, es: vec![], family: "deep".to_string(), via_files: false, deep: Some((shape.to_string(), k)), dists: None, hint: None, steps: None });
}
/// family `loaded`: the edge list is written to edges.csv / vertices.csv with the given distances
/// and read back through Graph::from_files; S still judges against the EDGE LIST of the file
fn add_loaded(g: &mut Gen, n: usize, es: Vec<E>, dists: Vec<f64>, family: &str, hint: Option<Option<usize>>) {
    assert_eq!(es.len(), dists.len());
    g.specs.push(Spec { n, es, family: family.to_string(), via_files: true, deep: None, dists: Some(dists), hint, steps: None });
}
fn add_seq(g: &mut Gen, steps: Vec<Step>) {
    g.specs.push(Spec { n: 0, es: vec![], family: "sequence".to_string(), via_files: false, deep: None, dists: None, hint: None, steps: Some(steps) });
}
fn deal(g: Gen, st: &mut Stream, shards: usize, tmp: &std::path::Path) {
    let total = g.specs.len();
    let k = shards.max(1);
    let mut slots: Vec<Option<Spec>> = g.specs.into_iter().map(Some).collect();
    let mut order: Vec<usize> = Vec::with_capacity(total);
    for c in 0..k {
        let mut i = c;
        while i < total {
            order.push(i);
            i += k;
        }
    }
    for i in order {
        let sp = slots[i].take().unwrap();
        if let Some((shape, k)) = &sp.deep {
            emit_deep(st, shape, sp.n, *k);
            continue;
        }
        if let Some(steps) = sp.steps {
            emit_seq(st, steps, tmp);
            continue;
        }
        emit_case(st, sp.n, sp.es, &sp.family, sp.via_files, tmp, sp.dists, sp.hint);
    }
}

fn emit_case(st: &mut Stream, n: usize, es: Vec<E>, family: &str, via_files: bool, tmp: &std::path::Path, dists: Option<Vec<f64>>, hint: Option<Option<usize>>) {
    let id = st.next_id();
    let g_coq = format!("(mkG {} {})", n, coq_list(&es, |(s, d)| format!("({},{})", s, d)));
    let wf = es.iter().all(|(s, d)| *s < n && *d < n);
    let es2 = es.clone();
    let dists2 = dists.clone();
    let tmp2 = tmp.to_path_buf();
    let out = catch(move || -> Result<(Vec<Vec<usize>>, Vec<usize>), String> {
        let g = if via_files { build_files_h(n, &es2, &tmp2, id, dists2.as_deref(), hint, 0).map_err(|e| format!("LOADERR {}", e))? } else { build_direct(n, &es2) };
        let comps = all_strongly_connected_componenets(&g).map_err(|e| format!("{:?}", e))?;
        let largest = largest_strongly_connected_component(&g).map_err(|e| format!("{:?}", e))?;
        Ok((comps.iter().map(|c| c.iter().map(|v| v.0).collect()).collect(), largest.iter().map(|v| v.0).collect()))
    });
    // via Graph::from_files a non-digraph (dangling endpoint) must be refused by the loader:
    // the *_files runner functions decide that from wfb
    let sfx = if via_files { "_files" } else { "" };
    let mut terms = vec![format!("line_model{} {} {}", sfx, id, g_coq)];
    let line;
    match &out {
        Ok(Ok((comps, largest))) => {
            let mut l = largest.clone();
            l.sort();
            line = format!("I {} Ok comps={} largest={}", id, show_list(&canon(comps), show_comp), show_comp(&l));
            // the checker runs on the RAW implementation output
            terms.push(format!("line_spec{} {} {} {} {}", sfx, id, g_coq, coq_list(comps, coq_comp), coq_comp(largest)));
            let ncomp = comps.len();
            let big = comps.iter().map(|c| c.len()).max().unwrap_or(0);
            st.count(&format!("components:{}", bucket(ncomp)));
            st.count(&format!("largest_size:{}", bucket(big)));
            if big >= 2 && ncomp >= 2 {
                st.count("nontrivial");
                st.mark_nontrivial(&format!("{} {:?}", n, es));
            }
        }
        Ok(Err(e)) if e.starts_with("LOADERR") => {
            line = format!("I {} LoadErr", id);
            terms.push(format!("line_load_failed {} {}", id, g_coq));
            st.count("load_refused");
        }
        Ok(Err(e)) => {
            line = format!("I {} Err {}", id, e.replace('\n', " "));
            terms.push(format!("line \"S\" {} \"an Ok result\"", id));
        }
        Err(p) => {
            line = format!("I {} PANIC {}", id, p.replace('\n', " "));
            terms.push(format!("line \"S\" {} \"an Ok result\"", id));
        }
    }
    st.count(&format!("family:{}", family));
    st.count(&format!("vertices:{}", bucket(n)));
    st.count(&format!("edges:{}", bucket(es.len())));
    if es.iter().any(|(s, d)| s == d) {
        st.count("has_self_loop");
    }
    let mut seen = std::collections::BTreeSet::new();
    if es.iter().any(|e| !seen.insert(*e)) {
        st.count("has_parallel_edges");
    }
    let mut outd = vec![0usize; n];
    let mut ind = vec![0usize; n];
    for (s, d) in &es {
        if *s < n {
            outd[*s] += 1;
        }
        if *d < n {
            ind[*d] += 1;
        }
    }
    if (0..n).any(|v| outd[v] == 0 && ind[v] == 0) {
        st.count("has_isolated_vertex");
    }
    if outd.iter().chain(ind.iter()).any(|d| *d > 5) {
        st.count("has_degree_gt_5");
    }
    if !wf {
        st.count("dangling_endpoint(outside the property: model-only)");
    }
    if via_files {
        st.count("built_via_Graph::from_files");
    }
    if let Some(d) = &dists {
        st.count("loaded_with_distance_column");
        if d.iter().any(|x| *x == 0.0) {
            st.count("loaded_has_zero_length_edge");
        }
        if d.iter().any(|x| *x > 0.0 && *x < 1e-6) {
            st.count("loaded_has_tiny_length_edge");
        }
    }
    let mut desc = json!({"id": id, "family": family, "n": n, "edges": es, "via_files": via_files});
    if let Some(d) = &dists {
        desc["dists"] = json!(d);
    }
    if let Some(h) = &hint {
        // explicit n_edges hint: the unchanged loader uses it only to size its progress bar
        desc["n_edges_hint"] = json!(h);
        let m = es.len();
        st.count(match h {
            None => "n_edges_hint:none",
            Some(x) if *x == m => "n_edges_hint:exact",
            Some(x) if *x > m => "n_edges_hint:larger",
            Some(0) => "n_edges_hint:zero",
            Some(_) => "n_edges_hint:smaller",
        });
    }
    st.case(terms, vec![line], desc);
}

fn bucket(x: usize) -> String {
    match x {
        0..=5 => x.to_string(),
        6..=10 => "6-10".into(),
        11..=20 => "11-20".into(),
        21..=40 => "21-40".into(),
        41..=100 => "41-100".into(),
        _ => ">100".into(),
    }
}

/// all digraphs on n vertices without parallel edges (self loops allowed): 2^(n*n) graphs
fn exhaustive(st: &mut Gen, n: usize, tmp: &std::path::Path) {
    let pairs: Vec<E> = (0..n).flat_map(|s| (0..n).map(move |d| (s, d))).collect();
    for mask in 0u64..(1u64 << pairs.len()) {
        let es: Vec<E> = pairs.iter().enumerate().filter(|(i, _)| mask >> i & 1 == 1).map(|(_, e)| *e).collect();
        add_case(st, n, es, &format!("exhaustive_{}v", n), false, tmp);
    }
}

fn relabel(rng: &mut Rng, n: usize, es: &mut Vec<E>) {
    let mut p: Vec<usize> = (0..n).collect();
    rng.shuffle(&mut p);
    for e in es.iter_mut() {
        *e = (p[e.0], p[e.1]);
    }
    rng.shuffle(es);
}

fn random_graph(r: &mut Rng, maxn: usize) -> (usize, Vec<E>, &'static str) {
    let n = match r.below(4) {
        0 => r.range(1, 8) as usize,
        1 => r.range(4, 20) as usize,
        _ => r.range(8, maxn as i64) as usize,
    };
    let mut es: Vec<E> = vec![];
    let fam;
    match r.below(7) {
        0 => {
            // sparse uniform: about one edge per vertex -> many small components, isolated vertices
            fam = "random_sparse";
            let m = r.below(2 * n as u64 + 1) as usize;
            for _ in 0..m {
                es.push((r.below(n as u64) as usize, r.below(n as u64) as usize));
            }
        }
        1 => {
            fam = "random_dense";
            let m = (n * (2 + r.below(4) as usize)).min(600);
            for _ in 0..m {
                es.push((r.below(n as u64) as usize, r.below(n as u64) as usize));
            }
        }
        2 => {
            // long chain with a few back edges: nested cycles
            fam = "chain_with_back_edges";
            for i in 0..n.saturating_sub(1) {
                es.push((i, i + 1));
            }
            for _ in 0..r.below(5) {
                let a = r.below(n as u64) as usize;
                let b = r.below(a as u64 + 1) as usize;
                es.push((a, b));
            }
            relabel(r, n, &mut es);
        }
        3 => {
            // planted components: cycles joined by a DAG between blocks
            fam = "planted_components";
            let mut start = 0;
            let mut blocks: Vec<(usize, usize)> = vec![];
            while start < n {
                let cap = if r.chance(1, 3) { 12 } else { 4 };
                let len = (1 + r.below(cap) as usize).min(n - start);
                blocks.push((start, len));
                for i in 0..len {
                    if len > 1 {
                        es.push((start + i, start + (i + 1) % len));
                    }
                }
                for _ in 0..r.below(len as u64) {
                    es.push((start + r.below(len as u64) as usize, start + r.below(len as u64) as usize));
                }
                start += len;
            }
            for _ in 0..r.below(2 * blocks.len() as u64 + 1) {
                let a = r.below(blocks.len() as u64) as usize;
                let b = r.below(blocks.len() as u64) as usize;
                if a < b {
                    let (sa, la) = blocks[a];
                    let (sb, lb) = blocks[b];
                    es.push((sa + r.below(la as u64) as usize, sb + r.below(lb as u64) as usize));
                }
            }
            relabel(r, n, &mut es);
        }
        4 => {
            // hubs: a few vertices of high in/out degree (crosses the 4 -> 5 map specialisation)
            fam = "hubs";
            let hubs = 1 + r.below(3) as usize;
            for _ in 0..hubs {
                let h = r.below(n as u64) as usize;
                for _ in 0..(6 + r.below(10)) {
                    let o = r.below(n as u64) as usize;
                    if r.chance(1, 2) {
                        es.push((h, o));
                    } else {
                        es.push((o, h));
                    }
                }
            }
            for _ in 0..r.below(n as u64 + 1) {
                es.push((r.below(n as u64) as usize, r.below(n as u64) as usize));
            }
            r.shuffle(&mut es);
        }
        5 => {
            // nested cycles: a big cycle with inner cycles hanging off it, tails in and out
            fam = "nested_cycles";
            let k = 1 + r.below(n as u64) as usize;
            for i in 0..k {
                es.push((i, (i + 1) % k));
            }
            let mut next = k;
            while next < n {
                let len = (1 + r.below(5) as usize).min(n - next);
                let anchor = r.below(next as u64) as usize;
                match r.below(3) {
                    0 => {
                        // inner cycle through the anchor
                        es.push((anchor, next));
                        for i in 0..len - 1 {
                            es.push((next + i, next + i + 1));
                        }
                        es.push((next + len - 1, anchor));
                    }
                    1 => {
                        // tail out
                        es.push((anchor, next));
                        for i in 0..len - 1 {
                            es.push((next + i, next + i + 1));
                        }
                    }
                    _ => {
                        // tail in
                        for i in 0..len - 1 {
                            es.push((next + i, next + i + 1));
                        }
                        es.push((next + len - 1, anchor));
                    }
                }
                next += len;
            }
            relabel(r, n, &mut es);
        }
        _ => {
            // multigraph: few distinct pairs, many parallel copies and self loops
            fam = "parallel_and_loops";
            let distinct = 1 + r.below(n as u64 + 2) as usize;
            let base: Vec<E> = (0..distinct).map(|_| (r.below(n as u64) as usize, r.below(n as u64) as usize)).collect();
            for _ in 0..(distinct * 3) {
                es.push(*r.pick(&base));
            }
            for _ in 0..r.below(4) {
                let v = r.below(n as u64) as usize;
                es.push((v, v));
            }
        }
    }
    (n, es, fam)
}

/// one analysis of a SEQUENCE case
#[derive(Clone)]
struct Step {
    n: usize,
    es: Vec<E>,
    /// "direct": a valid Graph value; "bad_adj": the same plus an adjacency entry of vertex `bad_at`
    /// naming an edge id that the edge table does not have; "file_ids_from_1": edges.csv whose ids
    /// are numbered from 1 (loads, then the last id is missing from the edge table)
    kind: String,
    bad_at: usize,
}
fn step_json(s: &Step) -> serde_json::Value {
    json!({"n": s.n, "edges": s.es, "kind": s.kind, "bad_at": s.bad_at})
}

/// SEQUENCE case: all steps run one after the other on ONE fresh thread; each step calls
/// all_strongly_connected_componenets and then largest_strongly_connected_component
fn emit_seq(st: &mut Stream, steps: Vec<Step>, tmp: &std::path::Path) {
    let id = st.next_id();
    let steps2 = steps.clone();
    let tmp2 = tmp.to_path_buf();
    type R = Result<Result<(Vec<Vec<usize>>, Vec<usize>), String>, String>;
    let results: Vec<R> = std::thread::spawn(move || {
        steps2
            .iter()
            .enumerate()
            .map(|(j, sp)| {
                let sp = sp.clone();
                let tmp3 = tmp2.clone();
                catch(move || -> Result<(Vec<Vec<usize>>, Vec<usize>), String> {
                    let g = match sp.kind.as_str() {
                        "file_ids_from_1" => build_files_h(sp.n, &sp.es, &tmp3, id * 16 + j, None, None, 1).map_err(|e| format!("LOADERR {}", e))?,
                        "bad_adj" => {
                            let mut g = build_direct(sp.n, &sp.es);
                            let missing = routee_compass_core::model::network::EdgeId(sp.es.len() + 7);
                            g.adj[sp.bad_at].insert(missing, routee_compass_core::model::network::VertexId(0));
                            g.rev[sp.bad_at].insert(missing, routee_compass_core::model::network::VertexId(0));
                            g
                        }
                        _ => build_direct(sp.n, &sp.es),
                    };
                    let comps = all_strongly_connected_componenets(&g).map_err(|e| format!("{:?}", e))?;
                    let largest = largest_strongly_connected_component(&g).map_err(|e| format!("{:?}", e))?;
                    Ok((comps.iter().map(|c| c.iter().map(|v| v.0).collect()).collect(), largest.iter().map(|v| v.0).collect()))
                })
            })
            .collect()
    })
    .join()
    .unwrap();
    let mut ip: Vec<String> = vec![];
    let mut mp: Vec<String> = vec![];
    let mut sp_: Vec<String> = vec![];
    for (sp, out) in steps.iter().zip(results.iter()) {
        let g_coq = format!("(mkG {} {})", sp.n, coq_list(&sp.es, |(s, d)| format!("({},{})", s, d)));
        let bad = sp.kind != "direct";
        if bad {
            mp.push(coq_string("Err EdgeNotFound"));
            sp_.push(coq_string("Err EdgeNotFound"));
            st.count("sequence_step:failing");
        } else {
            mp.push(format!("payload_model {}", g_coq));
            st.count("sequence_step:valid");
        }
        match out {
            Ok(Ok((comps, largest))) => {
                let mut l = largest.clone();
                l.sort();
                ip.push(format!("Ok comps={} largest={}", show_list(&canon(comps), show_comp), show_comp(&l)));
                if !bad {
                    sp_.push(format!("payload_spec {} {} {}", g_coq, coq_list(comps, coq_comp), coq_comp(largest)));
                }
            }
            Ok(Err(e)) => {
                ip.push(if e.starts_with("EdgeNotFound") { "Err EdgeNotFound".to_string() } else { format!("Err {}", e.replace('\n', " ")) });
                if !bad {
                    sp_.push(coq_string("an Ok result"));
                }
            }
            Err(p) => {
                ip.push(format!("PANIC {}", p.replace('\n', " ")));
                if !bad {
                    sp_.push(coq_string("an Ok result"));
                }
            }
        }
    }
    let terms = vec![
        format!("line_seq \"M\" {} [{}]", id, mp.join("; ")),
        format!("line_seq \"S\" {} [{}]", id, sp_.join("; ")),
    ];
    let line = format!("I {} {}", id, ip.join(" || "));
    st.count("family:sequence");
    st.count(&format!("sequence_length:{}", steps.len()));
    if steps.iter().any(|s| s.kind != "direct") {
        st.count("sequence_with_failing_step");
        st.mark_nontrivial(&format!("{:?}", steps.iter().map(|s| (s.n, s.es.clone(), s.kind.clone(), s.bad_at)).collect::<Vec<_>>()));
    }
    let desc = json!({"id": id, "family": "sequence", "n": 0, "steps": steps.iter().map(step_json).collect::<Vec<_>>()});
    st.case(terms, vec![line], desc);
}

/// "deep" family: graphs whose depth-first search follows one path of thousands of vertices.
/// Fully determined by (shape, n, k); k is a ring / block size where the shape has one.
fn deep_graph(shape: &str, n: usize, k: usize) -> Vec<E> {
    let mut es: Vec<E> = vec![];
    match shape {
        // one-way ring 0 -> 1 -> ... -> n-1 -> 0: one component
        "ring" => {
            for i in 0..n {
                es.push((i, (i + 1) % n));
            }
        }
        // the same ring numbered against the direction of travel
        "ring_rev" => {
            for i in 0..n {
                es.push(((i + 1) % n, i));
            }
        }
        // one-way chain: n singleton components, forward search is deep
        "chain" => {
            for i in 0..n - 1 {
                es.push((i, i + 1));
            }
        }
        // chain pointing at vertex 0: forward search is shallow, the reverse search from the sink is deep
        "chain_rev" => {
            for i in 0..n - 1 {
                es.push((i + 1, i));
            }
        }
        // two-way chain: one component
        "two_way_chain" => {
            // all forward links, then all backward links (run-length friendly edge order)
            for i in 0..n - 1 {
                es.push((i, i + 1));
            }
            for i in 0..n - 1 {
                es.push((i + 1, i));
            }
        }
        // rings of k vertices joined by one-way links ring j -> ring j+1: n/k components (+ a smaller last one)
        "rings_linked" => {
            let mut start = 0;
            while start < n {
                let len = k.min(n - start);
                for i in 0..len {
                    es.push((start + i, start + (i + 1) % len));
                }
                if start + len < n {
                    es.push((start + len - 1, start + len));
                }
                start += len;
            }
        }
        // lollipop: ring of k vertices, then a one-way tail of n-k vertices leaving it
        "lollipop_out" => {
            for i in 0..k {
                es.push((i, (i + 1) % k));
            }
            es.push((k - 1, k));
            for i in k..n - 1 {
                es.push((i, i + 1));
            }
        }
        // lollipop with the tail leading into the ring, tail numbered first
        "lollipop_in" => {
            let t = n - k;
            for i in 0..t {
                es.push((i, i + 1));
            }
            for i in 0..k {
                es.push((t + i, t + (i + 1) % k));
            }
        }
        // roundabout 0,1,2 with a loop road of n-3 vertices leaving at 2 and coming back at 0
        "loop_road" => {
            es.push((0, 1));
            es.push((1, 2));
            es.push((2, 0));
            es.push((2, 3));
            for i in 3..n - 1 {
                es.push((i, i + 1));
            }
            es.push((n - 1, 0));
        }
        // two-way ring with every k-th link one-way: still one component
        "two_way_ring_some_one_way" => {
            for i in 0..n {
                es.push((i, (i + 1) % n));
            }
            for i in 0..n {
                if i % k != 0 {
                    es.push(((i + 1) % n, i));
                }
            }
        }
        _ => panic!("unknown deep shape {}", shape),
    }
    es
}

/// run the implementation on a thread with the given stack size (the real searches recurse once
/// per vertex of the path they follow)
fn run_scc_on_stack(n: usize, es: Vec<E>, stack: usize) -> Result<Result<(Vec<Vec<usize>>, Vec<usize>), String>, String> {
    let h = std::thread::Builder::new()
        .stack_size(stack)
        .spawn(move || {
            catch(move || -> Result<(Vec<Vec<usize>>, Vec<usize>), String> {
                let g = build_direct(n, &es);
                let comps = all_strongly_connected_componenets(&g).map_err(|e| format!("{:?}", e))?;
                let largest = largest_strongly_connected_component(&g).map_err(|e| format!("{:?}", e))?;
                Ok((comps.iter().map(|c| c.iter().map(|v| v.0).collect()).collect(), largest.iter().map(|v| v.0).collect()))
            })
        })
        .unwrap();
    h.join().unwrap_or_else(|_| Err("thread died".to_string()))
}

/// Deep cases run the implementation on an ORDINARY stack: a thread of 2 MiB, the default of
/// std::thread and of rayon workers (set explicitly so that RUST_MIN_STACK cannot change it), inside a
/// CHILD PROCESS (this binary re-invoked in `--child` mode), because a stack overflow is not a panic
/// but aborts the whole process.  A child that dies is reported as the I line
/// `ABORT(stack overflow or crash)`.  This is what guards the fixed defect D-SCC-STACK: before
/// /repo 5cf0f14 the recursive searches (about 240 bytes a frame) aborted on a one-way chain or
/// ring of 8713 vertices on such a thread and of 34927 vertices on the 8 MiB main thread.
const ORDINARY_STACK: usize = 2 << 20;

fn rle_list(v: &[usize]) -> Vec<(usize, usize, bool)> {
    let mut out: Vec<(usize, usize, bool)> = vec![];
    let mut i = 0;
    while i < v.len() {
        let a = v[i];
        let mut len = 1;
        let mut up = true;
        if i + 1 < v.len() && (v[i + 1] == a + 1 || v[i + 1] + 1 == a) {
            up = v[i + 1] == a + 1;
            while i + len < v.len() && (if up { v[i + len] == a + len } else { v[i + len] + len == a }) {
                len += 1;
            }
        }
        out.push((a, len, up));
        i += len;
    }
    out
}
fn coq_runs(r: &[(usize, usize, bool)]) -> String {
    coq_list(r, |(a, k, up)| format!("({}%N,{}%N,{})", a, k, up))
}
/// run-length encoded components as a Gallina `list citem`
fn coq_citems(comps: &[Vec<usize>]) -> String {
    let mut items: Vec<String> = vec![];
    let mut i = 0;
    while i < comps.len() {
        if comps[i].len() == 1 {
            // a maximal stretch of one-vertex blocks, then its runs
            let mut j = i;
            while j < comps.len() && comps[j].len() == 1 {
                j += 1;
            }
            let singles: Vec<usize> = comps[i..j].iter().map(|c| c[0]).collect();
            for (a, k, up) in rle_list(&singles) {
                items.push(format!("Singles {}%N {}%N {}", a, k, up));
            }
            i = j;
        } else {
            items.push(format!("Blk {}", coq_runs(&rle_list(&comps[i]))));
            i += 1;
        }
    }
    format!("[{}]", items.join(";"))
}
/// run-length encoded edge list: (s, d, ds, dd, k) = k edges (s + i*ds, d + i*dd)
fn coq_eruns(es: &[E]) -> String {
    let mut out: Vec<String> = vec![];
    let mut i = 0;
    while i < es.len() {
        let (s, d) = es[i];
        let mut len = 1;
        let (mut ds, mut dd) = (0i64, 0i64);
        if i + 1 < es.len() {
            ds = es[i + 1].0 as i64 - s as i64;
            dd = es[i + 1].1 as i64 - d as i64;
            while i + len < es.len()
                && es[i + len].0 as i64 == s as i64 + ds * len as i64
                && es[i + len].1 as i64 == d as i64 + dd * len as i64
            {
                len += 1;
            }
        }
        if len == 1 {
            ds = 0;
            dd = 0;
        }
        out.push(format!("({}%N,{}%N,({})%Z,({})%Z,{}%N)", s, d, ds, dd, len));
        i += len;
    }
    format!("[{}]", out.join(";"))
}

/// certificate for the Coq checker: the implementation's components in an order in which no edge
/// leads from a later block to an earlier one.  Kosaraju's own output order already is one; if it
/// is not (or the blocks are not a partition), try a topological sort of the condensation, and
/// fall back to the raw order (the checker then rejects, as it must when the condensation is cyclic).
fn certificate_order(n: usize, es: &[E], comps: &[Vec<usize>]) -> Vec<Vec<usize>> {
    let mut comp_of: Vec<usize> = vec![usize::MAX; n];
    for (i, c) in comps.iter().enumerate() {
        for v in c {
            if *v >= n || comp_of[*v] != usize::MAX {
                return comps.to_vec();
            }
            comp_of[*v] = i;
        }
    }
    if comp_of.iter().any(|c| *c == usize::MAX) {
        return comps.to_vec();
    }
    if es.iter().all(|(s, d)| comp_of[*s] <= comp_of[*d]) {
        return comps.to_vec();
    }
    let m = comps.len();
    let mut succ: Vec<Vec<usize>> = vec![vec![]; m];
    let mut indeg: Vec<usize> = vec![0; m];
    for (s, d) in es {
        let (a, b) = (comp_of[*s], comp_of[*d]);
        if a != b {
            succ[a].push(b);
            indeg[b] += 1;
        }
    }
    let mut queue: std::collections::VecDeque<usize> = (0..m).filter(|i| indeg[*i] == 0).collect();
    let mut order: Vec<usize> = vec![];
    while let Some(a) = queue.pop_front() {
        order.push(a);
        for b in &succ[a] {
            indeg[*b] -= 1;
            if indeg[*b] == 0 {
                queue.push_back(*b);
            }
        }
    }
    if order.len() != m {
        return comps.to_vec();
    }
    order.into_iter().map(|i| comps[i].clone()).collect()
}

/// child mode: run one deep case on the ordinary stack and print its result as one JSON line
fn deep_child(shape: &str, n: usize, k: usize) {
    let es = deep_graph(shape, n, k);
    let out = run_scc_on_stack(n, es.clone(), ORDINARY_STACK);
    let v = match &out {
        Ok(Ok((comps, largest))) => {
            let ordered = certificate_order(n, &es, comps);
            json!({"ok": {
                "ncomps": comps.len(),
                "largest_len": largest.len(),
                "big": comps.iter().map(|c| c.len()).max().unwrap_or(0),
                "cs": coq_citems(&ordered),
                "lg": coq_runs(&rle_list(largest)),
            }})
        }
        Ok(Err(e)) => json!({"err": e}),
        Err(p) => json!({"panic": p}),
    };
    println!("{}", v);
}

fn emit_deep(st: &mut Stream, shape: &str, n: usize, k: usize) {
    let id = st.next_id();
    let es = deep_graph(shape, n, k);
    let exe = std::env::current_exe().unwrap();
    let child = std::process::Command::new(exe)
        .args(["child", "--child", shape, &n.to_string(), &k.to_string()])
        .env_remove("RUST_MIN_STACK")
        .output();
    let mut terms: Vec<String> = vec![];
    let line;
    let parsed: Option<serde_json::Value> = match &child {
        Ok(o) if o.status.success() => String::from_utf8_lossy(&o.stdout).lines().last().and_then(|l| serde_json::from_str(l).ok()),
        _ => None,
    };
    let expect_ok = |terms: &mut Vec<String>| {
        terms.push(format!("line \"M\" {} \"an Ok result accepted by deep_check\"", id));
        terms.push(format!("line \"S\" {} \"an Ok result accepted by deep_check\"", id));
    };
    match &parsed {
        Some(v) if v.get("ok").is_some() => {
            let o = &v["ok"];
            let (ncomp, big) = (o["ncomps"].as_u64().unwrap() as usize, o["big"].as_u64().unwrap() as usize);
            let (cs, lg) = (o["cs"].as_str().unwrap(), o["lg"].as_str().unwrap());
            line = format!("I {} Ok deep ncomps={} largest_len={}", id, ncomp, o["largest_len"].as_u64().unwrap());
            terms.push(format!("line_deep_echo {} {} {}", id, cs, lg));
            terms.push(format!("line_deep_spec {} {}%N {} {} {}", id, n, coq_eruns(&es), cs, lg));
            st.count(&format!("components:{}", bucket(ncomp)));
            st.count(&format!("largest_size:{}", bucket(big)));
            if big >= 2 && ncomp >= 2 {
                st.count("nontrivial");
                st.mark_nontrivial(&format!("deep {} {} {}", shape, n, k));
            }
        }
        Some(v) if v.get("err").is_some() => {
            line = format!("I {} Err {}", id, v["err"].as_str().unwrap_or("").replace('\n', " "));
            expect_ok(&mut terms);
        }
        Some(v) if v.get("panic").is_some() => {
            line = format!("I {} PANIC {}", id, v["panic"].as_str().unwrap_or("").replace('\n', " "));
            expect_ok(&mut terms);
        }
        _ => {
            // the child died (signal / non-zero exit / no result line)
            line = format!("I {} ABORT(stack overflow or crash)", id);
            st.count("deep_child_aborted");
            expect_ok(&mut terms);
        }
    }
    st.count("family:deep");
    st.count(&format!("deep_shape:{}", shape));
    st.count(&format!("vertices:{}", bucket(n)));
    st.count(&format!("edges:{}", bucket(es.len())));
    st.count(&format!(
        "deep_vertices:{}",
        if n < 8713 { "4500-8712" } else if n < 34927 { "8713-34926 (crashed a 2 MiB thread before the fix)" } else { ">=34927 (crashed the 8 MiB main thread before the fix)" }
    ));
    let desc = json!({"id": id, "family": "deep", "shape": shape, "n": n, "k": k});
    st.case(terms, vec![line], desc);
}

fn main() {
    silence_panics();
    let a = parse_args();
    // c18 child --child <shape> <n> <k>: one deep case on the ordinary stack, result as JSON on stdout
    if let Some(i) = a.extra.iter().position(|x| x == "--child") {
        let shape = a.extra[i + 1].clone();
        deep_child(&shape, a.extra[i + 2].parse().unwrap(), a.extra[i + 3].parse().unwrap());
        return;
    }
    // c18 probe --probe <shape> <n> <k> <stack_bytes>: does the implementation survive this depth?
    if let Some(i) = a.extra.iter().position(|x| x == "--probe") {
        let shape = a.extra[i + 1].clone();
        let n: usize = a.extra[i + 2].parse().unwrap();
        let k: usize = a.extra[i + 3].parse().unwrap();
        let stack: usize = a.extra[i + 4].parse().unwrap();
        let es = deep_graph(&shape, n, k);
        let t0 = std::time::Instant::now();
        match run_scc_on_stack(n, es, stack) {
            Ok(Ok((comps, largest))) => println!("ok shape={} n={} stack={} comps={} largest={} {:?}", shape, n, stack, comps.len(), largest.len(), t0.elapsed()),
            other => println!("fail {:?}", other.map(|_| ())),
        }
        return;
    }
    let header = "From Coq Require Import ZArith NArith List String.\nFrom RC Require Import Base.Show Model.Scc Model.SccRun Model.SccDeep Model.SccDeepRun.\nImport ListNotations.";
    let mut st = Stream::new(&a.out, "scc", header, a.shards);
    let tmp = a.out.clone();
    if let Some(p) = &a.replay {
        st.full = true;
        let v: serde_json::Value = serde_json::from_str(&std::fs::read_to_string(p).unwrap()).unwrap();
        let case = &v["case"];
        let n = case["n"].as_u64().unwrap() as usize;
        if let Some(steps) = case.get("steps").and_then(|x| x.as_array()) {
            let steps: Vec<Step> = steps
                .iter()
                .map(|x| Step {
                    n: x["n"].as_u64().unwrap() as usize,
                    es: serde_json::from_value(x["edges"].clone()).unwrap(),
                    kind: x["kind"].as_str().unwrap().to_string(),
                    bad_at: x["bad_at"].as_u64().unwrap_or(0) as usize,
                })
                .collect();
            emit_seq(&mut st, steps, &tmp);
            st.finish();
            return;
        }
        if let Some(shape) = case["shape"].as_str() {
            emit_deep(&mut st, shape, n, case["k"].as_u64().unwrap_or(0) as usize);
            st.finish();
            return;
        }
        let es: Vec<E> = serde_json::from_value(case["edges"].clone()).unwrap();
        let via = case["via_files"].as_bool().unwrap_or(false);
        let dists: Option<Vec<f64>> = case.get("dists").and_then(|d| serde_json::from_value(d.clone()).ok());
        let hint: Option<Option<usize>> = case.get("n_edges_hint").map(|h| h.as_u64().map(|x| x as usize));
        emit_case(&mut st, n, es, "replay", via, &tmp, dists, hint);
        st.finish();
        return;
    }
    let shards = a.shards;
    let mut real_st = st;
    let mut st = Gen { specs: vec![] };
    let thorough = a.extra.iter().any(|x| x == "--exh4");
    // largest deterministic chain / cycle; random graphs stay smaller (the Coq-side checker is cubic)
    let maxn: usize = if thorough { 200 } else { 40 };
    let maxn_rand: usize = if thorough { 80 } else { 40 };
    // ---- exhaustive: every digraph on <= 3 (thorough: 4) vertices ----
    for n in 0..=3 {
        exhaustive(&mut st, n, &tmp);
    }
    if thorough {
        exhaustive(&mut st, 4, &tmp);
    }
    // ---- deterministic boundary families ----
    // the fixture of scc.rs's own tests
    add_case(&mut st, 5, vec![(0, 1), (1, 0), (1, 2), (2, 1), (2, 3), (3, 2), (3, 0), (0, 3), (0, 2), (1, 3), (2, 0), (3, 1), (4, 4)], "scc_rs_fixture", false, &tmp);
    // a later sibling is NOT reachable back from an earlier one although the earlier reaches it through the root
    add_case(&mut st, 3, vec![(0, 1), (0, 2), (1, 0)], "sibling_order", false, &tmp);
    add_case(&mut st, 3, vec![(0, 2), (0, 1), (1, 0)], "sibling_order", false, &tmp);
    add_case(&mut st, 4, vec![(3, 1), (3, 2), (1, 3), (2, 0)], "sibling_order", false, &tmp);
    for k in [1usize, 2, 5, 17, 40, maxn] {
        let chain: Vec<E> = (0..k - 1).map(|i| (i, i + 1)).collect();
        add_case(&mut st, k, chain.clone(), "chain", false, &tmp);
        add_case(&mut st, k, chain.iter().map(|(s, d)| (*d, *s)).collect(), "chain_reversed", false, &tmp);
        let cyc: Vec<E> = (0..k).map(|i| (i, (i + 1) % k)).collect();
        add_case(&mut st, k, cyc.clone(), "cycle", false, &tmp);
        add_case(&mut st, k + 3, cyc.clone(), "cycle_plus_isolated", false, &tmp);
        // chain of 2-cycles joined one way: k/2 components of size 2
        let mut cc: Vec<E> = vec![];
        for i in (0..k.saturating_sub(1)).step_by(2) {
            cc.push((i, i + 1));
            cc.push((i + 1, i));
            if i + 2 < k {
                cc.push((i + 1, i + 2));
            }
        }
        add_case(&mut st, k, cc, "chain_of_2_cycles", false, &tmp);
        add_case(&mut st, k, vec![], "no_edges", false, &tmp);
        add_case(&mut st, k, (0..k).map(|i| (i, i)).collect(), "only_self_loops", false, &tmp);
    }
    for k in [2usize, 4, 5, 6, 9] {
        // complete digraph, out-star, in-star (degree k-1 crosses the 4 -> 5 specialisation), with parallel copies
        let complete: Vec<E> = (0..k).flat_map(|s| (0..k).filter(move |d| *d != s).map(move |d| (s, d))).collect();
        add_case(&mut st, k, complete, "complete", false, &tmp);
        let star_out: Vec<E> = (1..k).map(|d| (0, d)).collect();
        let star_in: Vec<E> = (1..k).map(|s| (s, 0)).collect();
        add_case(&mut st, k, star_out.clone(), "star_out", false, &tmp);
        add_case(&mut st, k, star_in.clone(), "star_in", false, &tmp);
        let both: Vec<E> = star_out.iter().chain(star_in.iter()).cloned().collect();
        add_case(&mut st, k, both.clone(), "star_both", false, &tmp);
        let par: Vec<E> = both.iter().chain(both.iter()).chain(star_out.iter()).cloned().collect();
        add_case(&mut st, k, par, "star_parallel", false, &tmp);
    }
    // the same graphs through Graph::from_files (CSV loader glue)
    add_case(&mut st, 5, vec![(0, 1), (1, 0), (1, 2), (2, 1), (2, 3), (3, 2), (3, 0), (0, 3), (0, 2), (1, 3), (2, 0), (3, 1), (4, 4)], "from_files", true, &tmp);
    add_case(&mut st, 3, vec![(0, 1), (0, 2), (1, 0)], "from_files", true, &tmp);
    add_case(&mut st, 7, vec![(0, 1), (1, 2), (2, 0), (2, 3), (3, 4), (4, 3), (5, 5), (0, 1), (0, 2), (0, 3), (0, 4), (0, 5), (0, 6)], "from_files", true, &tmp);
    // an endpoint outside the vertex table (not a digraph; the loader skips that side silently):
    // outside the property, compared against the model only
    add_case(&mut st, 3, vec![(0, 1), (1, 0), (1, 7)], "dangling_endpoint", false, &tmp);
    add_case(&mut st, 3, vec![(0, 1), (5, 0), (1, 5), (2, 2)], "dangling_endpoint", false, &tmp);
    add_case(&mut st, 2, vec![(0, 4), (4, 0), (0, 1)], "dangling_endpoint", false, &tmp);
    // the same through the loader: refused (LoadErr), for a missing source and a missing target
    add_case(&mut st, 2, vec![(0, 4), (4, 0), (0, 1)], "dangling_endpoint_from_files", true, &tmp);
    add_case(&mut st, 3, vec![(0, 1), (1, 0), (1, 7)], "dangling_endpoint_from_files", true, &tmp);
    add_case(&mut st, 3, vec![(0, 1), (5, 0), (2, 2)], "dangling_endpoint_from_files", true, &tmp);
    // ---- sequence: 2-4 analyses in a row on one thread, a failing one first or in the middle; every
    // result is judged for its own graph (no state may survive a call, successful or not) ----
    {
        let two_pairs: Vec<E> = vec![(0, 1), (1, 0), (2, 3), (3, 2)];
        let valid = |n: usize, es: Vec<E>| Step { n, es, kind: "direct".to_string(), bad_at: 0 };
        // the witness of seeded C18-15: a failed analysis, then {0,1} {2,3}
        add_seq(&mut st, vec![Step { n: 4, es: vec![(0, 1), (1, 2), (2, 3)], kind: "file_ids_from_1".to_string(), bad_at: 0 }, valid(4, two_pairs.clone()), valid(4, two_pairs.clone())]);
        add_seq(&mut st, vec![Step { n: 4, es: vec![(0, 1), (1, 2), (2, 3)], kind: "bad_adj".to_string(), bad_at: 2 }, valid(4, two_pairs.clone())]);
        add_seq(&mut st, vec![Step { n: 4, es: vec![(0, 1), (1, 2), (2, 3), (3, 0)], kind: "bad_adj".to_string(), bad_at: 3 }, valid(4, two_pairs.clone()), valid(6, vec![(0, 1), (1, 2), (2, 0), (3, 4)])]);
        add_seq(&mut st, vec![valid(4, two_pairs.clone()), valid(3, vec![(0, 1), (1, 2)]), valid(4, two_pairs.clone())]);
        let mut r0 = Rng::new(a.seed ^ 0x5e9_0e7ce);
        let n_seq = if thorough { 300 } else { 30 };
        for _ in 0..n_seq {
            let mut r = r0.fork();
            let len = r.range(2, 4) as usize;
            let fail_pos = if r.chance(4, 5) { r.below(len as u64 - 1) as usize } else { usize::MAX };
            let mut steps: Vec<Step> = vec![];
            for j in 0..len {
                let (n, es, _f) = random_graph(&mut r, 10);
                let n = n.min(10).max(1);
                let es: Vec<E> = es.into_iter().filter(|(x, y)| *x < n && *y < n).collect();
                if j == fail_pos {
                    if r.chance(1, 4) && !es.is_empty() {
                        steps.push(Step { n, es, kind: "file_ids_from_1".to_string(), bad_at: 0 });
                    } else {
                        steps.push(Step { n, es, kind: "bad_adj".to_string(), bad_at: r.below(n as u64) as usize });
                    }
                } else {
                    steps.push(valid(n, es));
                }
            }
            add_seq(&mut st, steps);
        }
    }
    // ---- loaded: edge lists with a distance column (0.0, 1e-9 and positive lengths) written to CSV and
    // read back through Graph::from_files; connectivity must not depend on the length of an edge ----
    {
        // the witness of seeded C18-12: ring 0->1->2->3->4->0 whose connector 2->3 has length 0
        let ring: Vec<E> = vec![(0, 1), (1, 2), (2, 3), (3, 4), (4, 0), (4, 5), (5, 5)];
        add_loaded(&mut st, 6, ring.clone(), vec![1.0, 1.0, 0.0, 1.0, 1.0, 1.0, 1.0], "loaded", None);
        add_loaded(&mut st, 6, ring.clone(), vec![1.0, 1.0, 1e-9, 1.0, 1.0, 1.0, 1.0], "loaded", None);
        add_loaded(&mut st, 6, ring.clone(), vec![0.0; 7], "loaded", None);
        add_loaded(&mut st, 6, ring.clone(), vec![0.01, 2.5, 1.0, 1e-9, 1000.0, 0.5, 0.0], "loaded", None);
        add_loaded(&mut st, 3, vec![(0, 1), (1, 0), (1, 2)], vec![0.0, 1.0, 0.0], "loaded", None);
        add_loaded(&mut st, 3, vec![(0, 1), (1, 0), (1, 2)], vec![1.0, 0.0, 1.0], "loaded", None);
        // the witness of seeded C18-14: the row that closes the ring is the last one; n_edges hints that
        // are exact, generous, stale (too small) or absent must all load every row of the file
        let ring5: Vec<E> = vec![(0, 1), (1, 2), (2, 3), (3, 4), (4, 0)];
        for h in [Some(Some(5)), Some(Some(50)), Some(Some(4)), Some(Some(2)), Some(Some(0)), Some(None)] {
            add_loaded(&mut st, 5, ring5.clone(), vec![1.0; 5], "loaded", h);
        }
        let lengths = [0.0, 0.0, 1e-9, 0.01, 1.0, 123.456];
        let mut r0 = Rng::new(a.seed ^ 0x10ad_ed);
        let n_loaded = if thorough { 400 } else { 40 };
        for _ in 0..n_loaded {
            let mut r = r0.fork();
            let (n, es, _fam) = random_graph(&mut r, 14);
            let n = n.min(14);
            let es: Vec<E> = es.into_iter().filter(|(a, b)| *a < n && *b < n).collect();
            let dists: Vec<f64> = es.iter().map(|_| *r.pick(&lengths)).collect();
            let m = es.len();
            let hint = match r.below(7) {
                0 => None,                       // exact (the harness default)
                1 => Some(Some(m)),
                2 => Some(Some(m + 1 + r.below(20) as usize)),
                3 => Some(Some(m.saturating_sub(1))),
                4 => Some(Some(m / 2)),
                5 => Some(Some(0)),
                _ => Some(None),
            };
            add_loaded(&mut st, n, es, dists, "loaded", hint);
        }
    }
    // ---- deep: one search path of 4500..20000 (fixed sizes up to 300000) vertices, implementation on
    // an ordinary 2 MiB stack in a child process (the model is not run at this size; the verified
    // near-linear checker SccDeep.deep_check judges the implementation's output) ----
    let mut rng = Rng::new(a.seed);
    add_deep(&mut st, "ring", 6000, 0);
    add_deep(&mut st, "chain", 6000, 0);
    add_deep(&mut st, "loop_road", 5003, 0);
    // sizes that aborted the process before the fix of D-SCC-STACK (2 MiB thread: 8713, main thread: 34927)
    for shape in ["chain", "ring", "two_way_chain"] {
        add_deep(&mut st, shape, 9000, 0);
        add_deep(&mut st, shape, 40000, 0);
        if thorough {
            add_deep(&mut st, shape, 300000, 0);
        }
    }
    {
        let shapes = ["ring", "ring_rev", "chain", "chain_rev", "two_way_chain", "rings_linked", "lollipop_out", "lollipop_in", "loop_road", "two_way_ring_some_one_way"];
        let extra_deep = if thorough { 40 } else { 5 };
        let mut r = rng.fork();
        for j in 0..extra_deep {
            // quick: five shapes picked by the seed; thorough: every shape four times
            let shape = if thorough { shapes[j % shapes.len()] } else { shapes[r.below(shapes.len() as u64) as usize] };
            let n = r.range(4500, 20000) as usize;
            let k = match shape {
                "rings_linked" => r.range(2, 6000) as usize,
                "lollipop_out" | "lollipop_in" => r.range(2, n as i64 - 4200) as usize,
                "two_way_ring_some_one_way" => r.range(500, 3000) as usize,
                _ => 0,
            };
            add_deep(&mut st, shape, n, k);
        }
    }
    // ---- random ----
    // --n = number of random cases (the deterministic families above are always complete)
    let target = st.specs.len() + a.n;
    let mut k = 0usize;
    while st.specs.len() < target {
        let mut r = rng.fork();
        let (n, es, fam) = random_graph(&mut r, maxn_rand);
        k += 1;
        // every 25th random case goes through the CSV loader
        add_case(&mut st, n, es, fam, k % 25 == 0, &tmp);
    }
    deal(st, &mut real_st, shards, &tmp);
    real_st.finish();
}
