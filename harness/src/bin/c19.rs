//! C19 harness: the response file sink.
//!   stream `fmt`  : real ResponseOutputFormat::{initial,final}_file_contents / format_response on
//!                   generated formats (through serde, as the configuration does) and responses;
//!   stream `sink` : a real ResponseSink::File built by ResponseOutputPolicy::build (deserialised
//!                   from a JSON policy document), written by 1..16 threads, the H1 trace
//!                   (take_sink_trace) replayed by the model, the file read back and parsed;
//!   stream `app`  : the same through CompassApp::run on the speeds_test network.
use routee_compass::app::compass::compass_app::CompassApp;
use routee_compass::app::compass::config::compass_app_builder::CompassAppBuilder;
use routee_compass::app::compass::response::response_output_format::ResponseOutputFormat;
use routee_compass::app::compass::response::response_output_policy::ResponseOutputPolicy;
use routee_compass::app::compass::response::response_sink::{sink_thread_id, take_sink_trace, SinkEvent};
use routee_compass::app::compass::response::csv::csv_mapping::CsvMapping;
use serde_json::{json, Map, Value};
use std::collections::{BTreeMap, HashMap};
use std::path::{Path, PathBuf};
use std::sync::{Arc, Barrier, Mutex};
use verif_harness::*;

// ---------------------------------------------------------------- text helpers (match SinkRun.v)

/// SinkRun.esc: bytes outside 0x20..0x7e, '%' and '"' as %XX (upper case)
fn esc(b: &[u8]) -> String {
    let mut s = String::with_capacity(b.len());
    for &c in b {
        if c < 32 || c > 126 || c == 37 || c == 34 {
            s.push_str(&format!("%{:02X}", c));
        } else {
            s.push(c as char);
        }
    }
    s
}
/// a Gallina term of type string for arbitrary bytes
fn coq_str(s: &str) -> String {
    let b = s.as_bytes();
    if b.len() > 64 && b.iter().all(|&c| c == b'x') {
        return format!("(big_str {})", b.len());
    }
    if b.iter().all(|&c| (32..=126).contains(&c)) {
        format!("\"{}\"", s.replace('"', "\"\""))
    } else {
        format!("(unesc \"{}\")", esc(b))
    }
}
fn coq_ostr(o: &Option<String>) -> String {
    match o {
        None => "None".into(),
        Some(s) => format!("(Some {})", coq_str(s)),
    }
}
fn show_ostr(o: &Option<String>) -> String {
    match o {
        None => "None".into(),
        Some(s) => format!("Some({})", esc(s.as_bytes())),
    }
}
/// private copy of verif_harness::coq_json with byte-safe strings
fn coq_jsonx(v: &Value) -> String {
    match v {
        Value::String(s) => format!("(JStr {})", coq_str(s)),
        Value::Array(a) => format!("(JArr {})", coq_list(a, coq_jsonx)),
        Value::Object(m) => format!(
            "(JObj {})",
            coq_list(&m.iter().collect::<Vec<_>>(), |(k, v)| format!("({}, {})", coq_str(k), coq_jsonx(v)))
        ),
        _ => coq_json(v),
    }
}
/// SinkRun.canon then serde_json::to_string then esc
fn canon(v: &Value) -> Value {
    match v {
        Value::Array(a) => Value::Array(a.iter().map(canon).collect()),
        Value::Object(m) => {
            let mut kvs: Vec<(&String, &Value)> = m.iter().collect();
            kvs.sort_by(|a, b| a.0.as_bytes().cmp(b.0.as_bytes()));
            let mut o = Map::new();
            for (k, x) in kvs {
                o.insert(k.clone(), canon(x));
            }
            Value::Object(o)
        }
        _ => v.clone(),
    }
}
fn jtext(v: &Value) -> String {
    esc(serde_json::to_string(&canon(v)).unwrap().as_bytes())
}
/// Show.hash
fn hash63(b: &[u8]) -> u64 {
    let mut h: u64 = 7;
    for &c in b {
        h = (h.wrapping_mul(1000003).wrapping_add(c as u64)) & 0x7fff_ffff_ffff_ffff;
    }
    h
}
fn digest(b: &[u8]) -> String {
    format!("{}:{}", b.len(), hash63(b))
}

// ---------------------------------------------------------------- the float oracle

fn add_float(tab: &mut BTreeMap<String, (String, String)>, x: f64) {
    if x.is_finite() {
        tab.entry(show_f64(x)).or_insert_with(|| (serde_json::to_string(&json!(x)).unwrap(), format!("{}", x)));
    }
}
fn collect_floats(v: &Value, tab: &mut BTreeMap<String, (String, String)>) {
    match v {
        Value::Number(n) => {
            if n.is_f64() {
                add_float(tab, n.as_f64().unwrap());
            }
        }
        Value::Array(a) => a.iter().for_each(|x| collect_floats(x, tab)),
        Value::Object(m) => m.values().for_each(|x| collect_floats(x, tab)),
        _ => {}
    }
}
/// every value any sub-mapping yields on this response (they end up in cells, sums and messages)
fn collect_mapping(m: &CsvMapping, r: &Value, tab: &mut BTreeMap<String, (String, String)>) {
    if let Ok(v) = m.apply_mapping(r) {
        collect_floats(&v, tab);
        if let Value::Number(n) = &v {
            if let Some(x) = n.as_f64() {
                add_float(tab, x);
            }
        }
    }
    match m {
        CsvMapping::Path(_) => {}
        CsvMapping::Sum { sum } => sum.iter().for_each(|x| collect_mapping(x, r, tab)),
        CsvMapping::Optional { optional } => collect_mapping(optional, r, tab),
    }
}
fn coq_tab(tab: &BTreeMap<String, (String, String)>) -> String {
    let v: Vec<_> = tab.iter().collect();
    coq_list(&v, |(k, (a, b))| format!("({}, ({}, {}))", coq_str(k), coq_str(a), coq_str(b)))
}

// ---------------------------------------------------------------- format descriptions

/// mapping in the document: ordered list of (key, mapping document) with possible duplicate keys
#[derive(Clone, Debug)]
enum MapDoc {
    Path(String),
    Sum(Vec<MapDoc>),
    Opt(Box<MapDoc>),
}
#[derive(Clone, Debug)]
enum FmtDoc {
    Json(bool),
    Csv(Vec<(String, MapDoc)>, bool),
}
fn mapdoc_json(m: &MapDoc) -> String {
    match m {
        MapDoc::Path(p) => serde_json::to_string(p).unwrap(),
        MapDoc::Sum(l) => format!("{{\"sum\":[{}]}}", l.iter().map(mapdoc_json).collect::<Vec<_>>().join(",")),
        MapDoc::Opt(x) => format!("{{\"optional\":{}}}", mapdoc_json(x)),
    }
}
/// the configuration document text (hand-built so that duplicate keys and key order survive)
fn fmtdoc_json(f: &FmtDoc) -> String {
    match f {
        FmtDoc::Json(nd) => format!("{{\"type\":\"json\",\"newline_delimited\":{}}}", nd),
        FmtDoc::Csv(doc, sorted) => format!(
            "{{\"type\":\"csv\",\"sorted\":{},\"mapping\":{{{}}}}}",
            sorted,
            doc.iter().map(|(k, m)| format!("{}:{}", serde_json::to_string(k).unwrap(), mapdoc_json(m))).collect::<Vec<_>>().join(",")
        ),
    }
}
fn coq_mapdoc(m: &MapDoc) -> String {
    match m {
        MapDoc::Path(p) => format!("(SK.CPath {})", coq_str(p)),
        MapDoc::Sum(l) => format!("(SK.CSum {})", coq_list(l, coq_mapdoc)),
        MapDoc::Opt(x) => format!("(SK.COpt {})", coq_mapdoc(x)),
    }
}
fn coq_fmtdoc(f: &FmtDoc) -> String {
    match f {
        FmtDoc::Json(nd) => format!("(DJson {})", coq_bool(*nd)),
        FmtDoc::Csv(doc, sorted) => format!(
            "(DCsv {} {})",
            coq_list(doc, |(k, m)| format!("({}, {})", coq_str(k), coq_mapdoc(m))),
            coq_bool(*sorted)
        ),
    }
}
fn mapdoc_to_json_value(m: &MapDoc) -> Value {
    serde_json::from_str(&mapdoc_json(m)).unwrap()
}
fn mapdoc_from_value(v: &Value) -> MapDoc {
    match v {
        Value::String(s) => MapDoc::Path(s.clone()),
        Value::Object(o) if o.contains_key("sum") => MapDoc::Sum(o["sum"].as_array().unwrap().iter().map(mapdoc_from_value).collect()),
        Value::Object(o) => MapDoc::Opt(Box::new(mapdoc_from_value(&o["optional"]))),
        _ => panic!("bad mapping doc"),
    }
}
fn fmtdoc_desc(f: &FmtDoc) -> Value {
    match f {
        FmtDoc::Json(nd) => json!({"json": nd}),
        FmtDoc::Csv(doc, sorted) => json!({"csv": doc.iter().map(|(k, m)| json!([k, mapdoc_to_json_value(m)])).collect::<Vec<_>>(), "sorted": sorted}),
    }
}
fn fmtdoc_from_desc(v: &Value) -> FmtDoc {
    if let Some(nd) = v.get("json") {
        FmtDoc::Json(nd.as_bool().unwrap())
    } else {
        FmtDoc::Csv(
            v["csv"].as_array().unwrap().iter().map(|kv| (kv[0].as_str().unwrap().to_string(), mapdoc_from_value(&kv[1]))).collect(),
            v["sorted"].as_bool().unwrap(),
        )
    }
}
/// number of distinct keys (= columns)
fn ncols(f: &FmtDoc) -> usize {
    match f {
        FmtDoc::Json(_) => 0,
        FmtDoc::Csv(doc, _) => doc.iter().map(|(k, _)| k.clone()).collect::<std::collections::BTreeSet<_>>().len(),
    }
}
fn real_format(f: &FmtDoc) -> ResponseOutputFormat {
    serde_json::from_str(&fmtdoc_json(f)).expect("format document deserialises")
}
fn real_mappings(f: &ResponseOutputFormat) -> Vec<CsvMapping> {
    match f {
        ResponseOutputFormat::Csv { mapping, .. } => mapping.iter().map(|(_, v)| v.clone()).collect(),
        _ => vec![],
    }
}

// ---------------------------------------------------------------- verdicts by real parsers

// SPECIFICATION of a CSV cell, written against the property text and the documentation of the
// mapping, not against csv_mapping.rs: a path is a dot-separated list of OBJECT KEYS taken
// literally ('/' and '~' are ordinary key characters, a numeric segment is a key and never an
// array index, an empty segment is the empty key); a Sum adds its parts as f64 in order (null
// counts 0) and fails when a part fails or is not a number; Optional turns a failure into null.
fn spec_lookup<'a>(resp: &'a Value, path: &str) -> Option<&'a Value> {
    let mut cur = resp;
    for seg in path.split('.') {
        match cur {
            Value::Object(m) => cur = m.get(seg)?,
            _ => return None,
        }
    }
    Some(cur)
}
fn spec_value(m: &MapDoc, resp: &Value) -> Option<Value> {
    match m {
        MapDoc::Path(p) => spec_lookup(resp, p).cloned(),
        MapDoc::Sum(l) => {
            let parts: Option<Vec<Value>> = l.iter().map(|x| spec_value(x, resp)).collect();
            let mut nums = vec![];
            for v in parts? {
                match v {
                    Value::Null => nums.push(0.0f64),
                    Value::Number(n) => nums.push(n.as_f64()?),
                    _ => return None,
                }
            }
            let mut acc = -0.0f64;
            for x in nums {
                acc += x;
            }
            Some(serde_json::Number::from_f64(acc).map(Value::Number).unwrap_or(Value::Null))
        }
        MapDoc::Opt(x) => Some(spec_value(x, resp).unwrap_or(Value::Null)),
    }
}
/// the text of the cell: a string by its content, other values by their JSON text, a failure empty
fn spec_cell(m: &MapDoc, resp: &Value) -> Vec<u8> {
    match spec_value(m, resp) {
        Some(Value::String(s)) => s.into_bytes(),
        Some(v) => v.to_string().into_bytes(),
        None => vec![],
    }
}
/// the configured columns (a key given twice keeps its last mapping) in the order of the file:
/// sorted by name, or in reverse configured order
fn spec_columns(f: &FmtDoc) -> Vec<(String, MapDoc)> {
    match f {
        FmtDoc::Json(_) => vec![],
        FmtDoc::Csv(doc, sorted) => {
            let mut v: Vec<(String, MapDoc)> = vec![];
            for (k, m) in doc {
                v.retain(|(k2, _)| k2 != k);
                v.push((k.clone(), m.clone()));
            }
            if *sorted {
                v.sort_by(|a, b| a.0.as_bytes().cmp(b.0.as_bytes()));
            } else {
                v.reverse();
            }
            v
        }
    }
}
fn spec_collect(m: &MapDoc, resp: &Value, tab: &mut BTreeMap<String, (String, String)>) {
    if let Some(v) = spec_value(m, resp) {
        collect_floats(&v, tab);
        if let Value::Number(n) = &v {
            if let Some(x) = n.as_f64() {
                add_float(tab, x);
            }
        }
    }
    match m {
        MapDoc::Path(_) => {}
        MapDoc::Sum(l) => l.iter().for_each(|x| spec_collect(x, resp, tab)),
        MapDoc::Opt(x) => spec_collect(x, resp, tab),
    }
}

/// header + row read back by the csv crate: exactly two records; the header names are the
/// configured column names, each once; field i of the row is the SPECIFIED cell of the mapping
/// configured under header name i
fn cols_ok(f: &FmtDoc, resp: &Value, header: &str, row: &str) -> bool {
    let mapping = spec_columns(f);
    let text = format!("{}{}\n", header, row);
    let mut rd = csv::ReaderBuilder::new().has_headers(false).flexible(true).from_reader(text.as_bytes());
    let recs: Vec<csv::ByteRecord> = rd.byte_records().filter_map(|r| r.ok()).collect();
    if recs.len() != 2 || recs[0].len() != mapping.len() || recs[1].len() != mapping.len() {
        return false;
    }
    let names: Vec<&[u8]> = recs[0].iter().collect();
    for (i, n) in names.iter().enumerate() {
        if names[i + 1..].contains(n) {
            return false;
        }
        let want: Vec<u8> = match mapping.iter().find(|(k, _)| k.as_bytes() == *n) {
            None => return false,
            Some((_, m)) => spec_cell(m, resp),
        };
        if recs[1].get(i) != Some(&want[..]) {
            return false;
        }
    }
    true
}
/// the error entry of the response handed back: exactly the columns whose cell fails by the
/// specification are reported under error.csv (csv_error.csv when the response already has an
/// error); a response none of whose cells fails is handed back unchanged
fn errs_ok(f: &FmtDoc, resp: &Value, r2: &Value) -> bool {
    let failing: std::collections::BTreeSet<String> =
        spec_columns(f).into_iter().filter(|(_, m)| spec_value(m, resp).is_none()).map(|(k, _)| k).collect();
    if failing.is_empty() {
        return resp == r2;
    }
    let key = if resp.get("error").is_some() { "csv_error" } else { "error" };
    match r2.get(key).and_then(|e| e.as_object()) {
        Some(e) if e.len() == 1 => match e.get("csv").and_then(|c| c.as_object()) {
            Some(c) => c.keys().cloned().collect::<std::collections::BTreeSet<String>>() == failing,
            None => false,
        },
        _ => false,
    }
}
/// SinkRun.keep_ok
fn keep_ok(r: &Value, r2: &Value) -> bool {
    match (r, r2) {
        (Value::Object(m), Value::Object(m2)) => m.iter().all(|(k, v)| match m2.get(k) {
            None => false,
            Some(v2) => k == "csv_error" || v == v2,
        }),
        (Value::Null, _) => true,
        _ => r == r2,
    }
}
/// An independent JSON reader with correctly rounded floats (`str::parse::<f64>`).  serde_json's
/// own default float parser (feature float_roundtrip off) is off by one ulp on some of the
/// 17-digit texts ryu prints, which is a property of that reader, not of the record.
struct Jp<'a> {
    b: &'a [u8],
    i: usize,
}
impl<'a> Jp<'a> {
    fn ws(&mut self) {
        while self.i < self.b.len() && matches!(self.b[self.i], b' ' | b'\n' | b'\r' | b'\t') {
            self.i += 1;
        }
    }
    fn eat(&mut self, c: u8) -> Option<()> {
        if self.i < self.b.len() && self.b[self.i] == c {
            self.i += 1;
            Some(())
        } else {
            None
        }
    }
    fn lit(&mut self, w: &str, v: Value) -> Option<Value> {
        if self.b[self.i..].starts_with(w.as_bytes()) {
            self.i += w.len();
            Some(v)
        } else {
            None
        }
    }
    fn hex4(&mut self) -> Option<u32> {
        let t = std::str::from_utf8(self.b.get(self.i..self.i + 4)?).ok()?;
        self.i += 4;
        u32::from_str_radix(t, 16).ok()
    }
    fn string(&mut self) -> Option<String> {
        self.eat(b'"')?;
        let mut out: Vec<u8> = vec![];
        loop {
            let c = *self.b.get(self.i)?;
            self.i += 1;
            match c {
                b'"' => break,
                b'\\' => {
                    let e = *self.b.get(self.i)?;
                    self.i += 1;
                    match e {
                        b'"' => out.push(b'"'),
                        b'\\' => out.push(b'\\'),
                        b'/' => out.push(b'/'),
                        b'b' => out.push(8),
                        b'f' => out.push(12),
                        b'n' => out.push(b'\n'),
                        b'r' => out.push(b'\r'),
                        b't' => out.push(b'\t'),
                        b'u' => {
                            let mut cp = self.hex4()?;
                            if (0xD800..0xDC00).contains(&cp) {
                                self.eat(b'\\')?;
                                self.eat(b'u')?;
                                let lo = self.hex4()?;
                                cp = 0x10000 + ((cp - 0xD800) << 10) + (lo.checked_sub(0xDC00)?);
                            }
                            let ch = char::from_u32(cp)?;
                            let mut buf = [0u8; 4];
                            out.extend_from_slice(ch.encode_utf8(&mut buf).as_bytes());
                        }
                        _ => return None,
                    }
                }
                c if c < 0x20 => return None, // raw control characters are not allowed inside a JSON string
                c => out.push(c),
            }
        }
        String::from_utf8(out).ok()
    }
    fn number(&mut self) -> Option<Value> {
        let st = self.i;
        while self.i < self.b.len() && matches!(self.b[self.i], b'0'..=b'9' | b'-' | b'+' | b'.' | b'e' | b'E') {
            self.i += 1;
        }
        let t = std::str::from_utf8(&self.b[st..self.i]).ok()?;
        if t.is_empty() {
            return None;
        }
        if !t.contains(['.', 'e', 'E']) {
            if let Ok(u) = t.parse::<u64>() {
                return Some(json!(u));
            }
            if let Ok(i) = t.parse::<i64>() {
                return Some(json!(i));
            }
        }
        let x = t.parse::<f64>().ok()?;
        serde_json::Number::from_f64(x).map(Value::Number)
    }
    fn value(&mut self) -> Option<Value> {
        self.ws();
        let c = *self.b.get(self.i)?;
        let v = match c {
            b'n' => self.lit("null", Value::Null)?,
            b't' => self.lit("true", json!(true))?,
            b'f' => self.lit("false", json!(false))?,
            b'"' => Value::String(self.string()?),
            b'[' => {
                self.i += 1;
                let mut a = vec![];
                self.ws();
                if self.eat(b']').is_none() {
                    loop {
                        a.push(self.value()?);
                        self.ws();
                        if self.eat(b',').is_some() {
                            continue;
                        }
                        self.eat(b']')?;
                        break;
                    }
                }
                Value::Array(a)
            }
            b'{' => {
                self.i += 1;
                let mut m = Map::new();
                self.ws();
                if self.eat(b'}').is_none() {
                    loop {
                        self.ws();
                        let k = self.string()?;
                        self.ws();
                        self.eat(b':')?;
                        let v = self.value()?;
                        if m.insert(k, v).is_some() {
                            return None; // duplicate key: not a faithful record
                        }
                        self.ws();
                        if self.eat(b',').is_some() {
                            continue;
                        }
                        self.eat(b'}')?;
                        break;
                    }
                }
                Value::Object(m)
            }
            _ => self.number()?,
        };
        Some(v)
    }
}
fn parse_json_exact(s: &str) -> Option<Value> {
    let mut p = Jp { b: s.as_bytes(), i: 0 };
    let v = p.value()?;
    p.ws();
    if p.i == p.b.len() {
        Some(v)
    } else {
        None
    }
}
/// the record parses back to the response: same structure, same key order, numbers of the same
/// kind and value (floats bit for bit)
fn same_json(a: &Value, b: &Value) -> bool {
    match (a, b) {
        (Value::Number(x), Value::Number(y)) => {
            if x.is_f64() || y.is_f64() {
                x.is_f64() && y.is_f64() && x.as_f64().unwrap().to_bits() == y.as_f64().unwrap().to_bits()
            } else {
                x == y
            }
        }
        (Value::Array(x), Value::Array(y)) => x.len() == y.len() && x.iter().zip(y).all(|(p, q)| same_json(p, q)),
        (Value::Object(x), Value::Object(y)) => {
            x.len() == y.len() && x.iter().zip(y.iter()).all(|((k1, v1), (k2, v2))| k1 == k2 && same_json(v1, v2))
        }
        _ => a == b,
    }
}
fn parses_back(row: &str, r: &Value) -> bool {
    match parse_json_exact(row) {
        Some(v) => same_json(&v, r),
        None => false,
    }
}

// ---------------------------------------------------------------- generators

const STRS: &[&str] = &[
    "", "abc", "a,b", "say \"hi\"", "line1\nline2", "tab\there", "\u{1}\u{1f}\u{7f}", "\u{e9}\u{2713}", "back\\slash",
    "0", "null", "a b", "%41", "cr\rlf", "\"", ",", "\"q\",x", "'single'", "{}", "[1,2]", "\u{8}\u{c}",
];
const KEYS: &[&str] = &[
    "a", "b", "c", "d", "error", "csv_error", "request", "route", "path", "cost", "total_cost", "x.y", "", "k,1", "q\"", "n\nl",
    "id", "B", "Z", "\u{e9}", "origin_vertex", "a/b", "~0", "~1", "~", "m~0n", "m~1n", "0", "1", "/", "cost/km",
];
fn gen_string(r: &mut Rng) -> String {
    match r.below(8) {
        0 => {
            let n = r.below(3) + 2;
            (0..n).map(|_| *r.pick(STRS)).collect::<Vec<_>>().join("")
        }
        1 => "x".repeat(r.below(200) as usize),
        2 => (0..r.below(12)).map(|_| (32 + r.below(95)) as u8 as char).collect(),
        3 => (0..r.below(6)).map(|_| r.below(128) as u8 as char).collect(),
        _ => r.pick(STRS).to_string(),
    }
}
fn gen_number(r: &mut Rng) -> Value {
    match r.below(12) {
        0 => json!(0),
        1 => json!(r.range(-50, 50)),
        2 => json!(i64::MIN),
        3 => json!(u64::MAX),
        4 => json!(i64::MAX),
        5 => json!(*r.pick(&[0.0, -0.0, 1.5, 1e21, 1e-7, 1.7e308, 0.30000000000000004, 5e-324, 3.0, -2.5e-5, 1e16, 123456789012345680.0, 9007199254740993.0])),
        6 => {
            // any finite double
            loop {
                let x = f64::from_bits(r.next_u64());
                if x.is_finite() {
                    break json!(x);
                }
            }
        }
        7 => json!((r.range(-100000, 100000) as f64) / 64.0),
        8 => json!(r.unit_f64() * 1000.0),
        9 => json!(r.range(-(1i64 << 60), 1i64 << 60)),
        _ => json!(r.range(0, 1000)),
    }
}
fn gen_value(r: &mut Rng, depth: u32) -> Value {
    let k = if depth == 0 { r.below(5) } else { r.below(8) };
    match k {
        0 => Value::Null,
        1 => json!(r.chance(1, 2)),
        2 | 3 => gen_number(r),
        4 => json!(gen_string(r)),
        5 => Value::Array((0..r.below(4)).map(|_| gen_value(r, depth - 1)).collect()),
        _ => gen_object(r, depth - 1),
    }
}
fn gen_object(r: &mut Rng, depth: u32) -> Value {
    let mut m = Map::new();
    for _ in 0..r.below(6) {
        let k = if r.chance(1, 8) { gen_string(r) } else { r.pick(KEYS).to_string() };
        m.insert(k, gen_value(r, depth));
    }
    Value::Object(m)
}
/// a response shaped like CompassApp's: request / route / summaries, optionally an error
fn gen_response(r: &mut Rng) -> Value {
    let mut m = Map::new();
    m.insert("request".into(), json!({"origin_vertex": r.range(0, 99), "destination_vertex": r.range(0, 99), "name": gen_string(r)}));
    if r.chance(2, 3) {
        m.insert(
            "route".into(),
            json!({"path": (0..r.below(5)).map(|_| r.range(0, 30)).collect::<Vec<_>>(),
                   "cost": {"total_cost": gen_number(r), "time": gen_number(r), "distance": gen_number(r)},
                   "traversal_summary": {"distance": gen_number(r), "time": gen_number(r)}}),
        );
    }
    if r.chance(1, 2) {
        m.insert("error".into(), if r.chance(3, 4) { json!(gen_string(r)) } else { gen_value(r, 1) });
    }
    if r.chance(1, 10) {
        m.insert("csv_error".into(), gen_value(r, 1));
    }
    for _ in 0..r.below(4) {
        let k = if r.chance(1, 6) { gen_string(r) } else { r.pick(KEYS).to_string() };
        m.insert(k, gen_value(r, 2));
    }
    Value::Object(m)
}
/// all dotted paths that exist in the value (object descent only)
fn paths_of(v: &Value, prefix: &str, out: &mut Vec<String>) {
    match v {
        Value::Object(m) => {
            for (k, x) in m {
                let p = if prefix.is_empty() { k.clone() } else { format!("{}.{}", prefix, k) };
                out.push(p.clone());
                paths_of(x, &p, out);
            }
        }
        // numeric segments under an ARRAY: not a path of object keys, the cell must fail
        Value::Array(a) if !prefix.is_empty() => {
            for (i, x) in a.iter().enumerate().take(2) {
                let p = format!("{}.{}", prefix, i);
                out.push(p.clone());
                paths_of(x, &p, out);
            }
        }
        _ => {}
    }
}
fn gen_path(r: &mut Rng, existing: &[String]) -> String {
    match r.below(10) {
        0 => "".into(),
        1 => format!("{}.{}", r.pick(KEYS), r.pick(KEYS)),
        2 if !existing.is_empty() => format!("{}.{}", r.pick(existing), r.pick(&["0", "1", "nope", "", "a", "~0", "~1", "a/b"])),
        3 => r.pick(KEYS).to_string(),
        4 => "route.cost.total_cost".into(),
        _ if !existing.is_empty() => r.pick(existing).clone(),
        _ => "request.origin_vertex".into(),
    }
}
fn gen_mapdoc(r: &mut Rng, existing: &[String], depth: u32) -> MapDoc {
    match if depth == 0 { 0 } else { r.below(10) } {
        0..=4 => MapDoc::Path(gen_path(r, existing)),
        5..=7 => MapDoc::Sum((0..r.below(4)).map(|_| gen_mapdoc(r, existing, depth - 1)).collect()),
        _ => MapDoc::Opt(Box::new(gen_mapdoc(r, existing, depth - 1))),
    }
}
fn gen_fmtdoc(r: &mut Rng, resp: &Value) -> FmtDoc {
    match r.below(10) {
        0 => FmtDoc::Json(true),
        1 => FmtDoc::Json(r.chance(1, 2)),
        _ => {
            let mut ex = vec![];
            paths_of(resp, "", &mut ex);
            let n = if r.chance(1, 12) { 0 } else { 1 + r.below(6) };
            let clean_keys = r.chance(3, 4);
            let doc = (0..n)
                .map(|i| {
                    let k = if clean_keys { format!("c{}", if r.chance(1, 10) { 0 } else { (i * 7 + 3) % 10 }) } else { r.pick(KEYS).to_string() };
                    (k, gen_mapdoc(r, &ex, 2))
                })
                .collect();
            FmtDoc::Csv(doc, r.chance(1, 2))
        }
    }
}

// ---------------------------------------------------------------- fmt stream

fn fmt_case(st: &mut Stream, f: &FmtDoc, resp: &Value, family: &str) {
    let id = st.next_id();
    let real = real_format(f);
    let hdr = real.initial_file_contents();
    let fin = real.final_file_contents();
    let mut tab = BTreeMap::new();
    add_float(&mut tab, 0.0);
    add_float(&mut tab, -0.0);
    collect_floats(resp, &mut tab);
    for m in real_mappings(&real) {
        collect_mapping(&m, resp, &mut tab);
    }
    for (_, m) in spec_columns(f) {
        spec_collect(&m, resp, &mut tab);
    }
    let real2 = real.clone();
    let resp2 = resp.clone();
    let out = catch(move || {
        let mut r2 = resp2;
        let row = real2.format_response(&mut r2);
        (row.map_err(|e| e.to_string()), r2)
    });
    let n = ncols(f);
    let (iline, irow, iresp) = match &out {
        Ok((Ok(row), r2)) => {
            let parse = match f {
                FmtDoc::Json(nd) => show_bool(parses_back(row, resp) && (!*nd || !row.contains('\n'))).to_string(),
                _ => "-".into(),
            };
            let cols = match f {
                FmtDoc::Csv(..) if n > 0 => show_bool(cols_ok(f, resp, hdr.as_deref().unwrap_or(""), row)).to_string(),
                _ => "-".into(),
            };
            if cols == "F" {
                st.count("verdict:cols=F");
            }
            let errs = show_bool(errs_ok(f, resp, r2));
            if errs == "F" {
                st.count("verdict:errs=F");
            }
            if r2 != resp {
                st.count("response_updated");
            }
            (
                format!(
                    "hdr={} fin={} row=Ok:{} resp={} parse={} cols={} keep={} errs={}",
                    show_ostr(&hdr), show_ostr(&fin), esc(row.as_bytes()), jtext(r2), parse, cols, show_bool(keep_ok(resp, r2)), errs
                ),
                Some(row.clone()),
                r2.clone(),
            )
        }
        Ok((Err(_), _)) => (format!("hdr={} fin={} row=Err", show_ostr(&hdr), show_ostr(&fin)), None, Value::Null),
        Err(_) => {
            st.count("outcome:panic");
            (format!("hdr={} fin={} row=Panic", show_ostr(&hdr), show_ostr(&fin)), None, Value::Null)
        }
    };
    let t = coq_tab(&tab);
    let terms = vec![
        format!("line_fmt_M {} {} {} {}", t, id, coq_fmtdoc(f), coq_jsonx(resp)),
        format!(
            "line_fmt_S {} {} {} {} {} {} {} {}",
            t, id, coq_fmtdoc(f), coq_jsonx(resp), coq_ostr(&hdr), coq_ostr(&fin), coq_ostr(&irow), coq_jsonx(&iresp)
        ),
    ];
    st.count(&format!("family:{}", family));
    st.count(match f {
        FmtDoc::Json(true) => "format:json_lines",
        FmtDoc::Json(false) => "format:json_pretty",
        FmtDoc::Csv(_, true) => "format:csv_sorted",
        FmtDoc::Csv(_, false) => "format:csv_unsorted",
    });
    st.count(&format!("columns:{}", n.min(6)));
    if resp.get("error").is_some() {
        st.count("response_has_error");
    }
    if !resp.is_object() {
        st.count("response_not_object");
    }
    // non-trivial: a CSV row with at least two columns and at least one failing and one succeeding
    // mapping, or a JSON record containing a string that needs escaping or a float
    let nontrivial = match (&out, f) {
        (Ok((Ok(row), r2)), FmtDoc::Csv(..)) => n >= 2 && r2 != resp && row.chars().any(|c| c != ','),
        (Ok((Ok(row), _)), FmtDoc::Json(_)) => row.contains('\\') || tab.len() > 2,
        _ => false,
    };
    if nontrivial {
        st.count("nontrivial");
        st.mark_nontrivial(&format!("{}{}", fmtdoc_json(f), resp));
    }
    let desc = json!({"id": id, "family": family, "fmt": fmtdoc_desc(f), "resp": resp});
    st.case(terms, vec![format!("I {} {}", id, iline)], desc);
}

/// a replay file holds {"case": ..} or {"cases": [..]} (the corpus, replayed in one batch)
fn replay_cases(v: &Value) -> Vec<Value> {
    match v.get("cases") {
        Some(Value::Array(a)) => a.clone(),
        _ => vec![v["case"].clone()],
    }
}
fn p(s: &str) -> MapDoc {
    MapDoc::Path(s.into())
}
fn fmt_stream(a: &Args) {
    let header = "From Coq Require Import ZArith List String Floats.\nFrom RC Require Import Base.Show Base.Json Model.Sink Model.SinkRun.\nImport ListNotations.\nOpen Scope string_scope.\nOpen Scope Z_scope.";
    let mut st = Stream::new(&a.out, "fmt", header, a.shards);
    if let Some(pth) = &a.replay {
        st.full = true;
        let v: Value = parse_json_exact(&std::fs::read_to_string(pth).unwrap()).unwrap();
        for case in replay_cases(&v) {
            fmt_case(&mut st, &fmtdoc_from_desc(&case["fmt"]), &case["resp"], case["corpus"].as_str().unwrap_or("replay"));
        }
        st.finish();
        return;
    }
    // ---- deterministic boundary families ----
    let ok_resp = json!({"request": {"origin_vertex": 0, "destination_vertex": 2, "name": "a \"quoted\", name\nsecond line"},
        "route": {"path": [0, 2], "cost": {"total_cost": 29276.44456915712, "time": 1.5, "distance": 3}}, "route_edges": 2});
    let err_resp = json!({"request": {"origin_vertex": 0, "destination_vertex": 99}, "error": "no path exists between vertices 0 and 99"});
    let both_err = json!({"request": {"origin_vertex": 0}, "error": {"kind": "search", "why": ["a", 1]}, "csv_error": "older"});
    let scalar_map = vec![("cost".to_string(), p("route.cost.total_cost")), ("origin".to_string(), p("request.origin_vertex")),
                          ("dest".to_string(), p("request.destination_vertex"))];
    let resps = vec![ok_resp.clone(), err_resp.clone(), both_err.clone(), json!({}), Value::Null, json!([1, 2]), json!("text"), json!(7), json!(2.5)];
    for r in &resps {
        for f in [FmtDoc::Json(true), FmtDoc::Json(false), FmtDoc::Csv(scalar_map.clone(), false), FmtDoc::Csv(scalar_map.clone(), true)] {
            fmt_case(&mut st, &f, r, "boundary_basic");
        }
    }
    // D-CSVERR shape (fixed by a1883ea): the search error must survive
    fmt_case(&mut st, &FmtDoc::Csv(vec![("cost".into(), p("route.cost.total_cost")), ("origin".into(), p("request.origin_vertex"))], false), &err_resp, "csverr_fix");
    // cells that are arrays / objects / strings with commas, quotes, newlines; odd header names
    let odd = vec![
        FmtDoc::Csv(vec![("zeta".into(), p("request.origin_vertex")), ("alpha".into(), p("request.destination_vertex")), ("mid".into(), p("route.path")), ("cost".into(), p("route.cost.total_cost"))], false),
        FmtDoc::Csv(vec![("o".into(), p("route.cost")), ("id".into(), p("request.origin_vertex"))], true),
        FmtDoc::Csv(vec![("name".into(), p("request.name")), ("id".into(), p("request.origin_vertex"))], false),
        FmtDoc::Csv(vec![("k,1".into(), p("request.origin_vertex")), ("id".into(), p("request.destination_vertex"))], false),
        FmtDoc::Csv(vec![("n\nl".into(), p("request.origin_vertex")), ("id".into(), p("request.destination_vertex"))], true),
        FmtDoc::Csv(vec![("q\"".into(), p("request.origin_vertex"))], true),
        FmtDoc::Csv(vec![("only".into(), p("nope"))], false),
        FmtDoc::Csv(vec![], false),
        FmtDoc::Csv(vec![("a".into(), p("request.origin_vertex")), ("b".into(), p("request.destination_vertex")), ("a".into(), p("route.path"))], false),
        FmtDoc::Csv(vec![("b".into(), p("x")), ("a".into(), p("y")), ("B".into(), p("z")), ("".into(), p("request")), ("aa".into(), p(""))], true),
    ];
    for f in &odd {
        for r in [&ok_resp, &err_resp] {
            fmt_case(&mut st, f, r, "boundary_odd_cells_and_headers");
        }
    }
    // sums and optionals
    let sums = vec![
        ("s0".to_string(), MapDoc::Sum(vec![])),
        ("s1".to_string(), MapDoc::Sum(vec![p("route.cost.time"), p("route.cost.distance")])),
        ("s2".to_string(), MapDoc::Sum(vec![p("route.cost.time"), p("nope")])),
        ("s3".to_string(), MapDoc::Sum(vec![p("request.name"), p("route.cost.time"), p("route.cost.distance")])),
        ("s4".to_string(), MapDoc::Sum(vec![p("big"), p("big")])),
        ("s5".to_string(), MapDoc::Sum(vec![p("nul"), p("u")])),
        ("s6".to_string(), MapDoc::Sum(vec![MapDoc::Opt(Box::new(p("nope"))), p("route.cost.time")])),
        ("s7".to_string(), MapDoc::Sum(vec![MapDoc::Sum(vec![p("route.cost.time")]), MapDoc::Sum(vec![p("zz")])])),
        ("o1".to_string(), MapDoc::Opt(Box::new(p("nope")))),
        ("o2".to_string(), MapDoc::Opt(Box::new(MapDoc::Sum(vec![p("request.name")])))),
        ("o3".to_string(), MapDoc::Opt(Box::new(p("route.cost.time")))),
    ];
    let mut sum_resp = ok_resp.clone();
    sum_resp["big"] = json!(1.7e308);
    sum_resp["nul"] = Value::Null;
    sum_resp["u"] = json!(u64::MAX);
    for sorted in [false, true] {
        fmt_case(&mut st, &FmtDoc::Csv(sums.clone(), sorted), &sum_resp, "boundary_sum_optional");
        fmt_case(&mut st, &FmtDoc::Csv(sums.clone(), sorted), &err_resp, "boundary_sum_optional");
        for (k, m) in &sums {
            fmt_case(&mut st, &FmtDoc::Csv(vec![(k.clone(), m.clone()), ("id".into(), p("request.origin_vertex"))], sorted), &sum_resp, "boundary_sum_optional");
        }
    }
    // keys with '/', '~', '~0', '~1' and numeric keys, under objects AND under arrays, addressed by
    // plain paths, inside Sum and inside Optional (seed C19-9: a JSON-pointer lookup instead of the key walk)
    let ptr_resp = json!({"request": {
        "trip/id": "T-0", "fleet~0": "G0", "fleet~1": "G1", "t~": 5, "cost/km": 0.5, "cost/min": 0.25,
        "0": "zero-key", "1": 7, "list": ["first", "second", 3.5], "nums": [1.5, 2.5], "obj01": {"0": 1.5, "1": 2.5},
        "a": {"b": "nested", "0": 4}, "a/b": "flat", "~0": "tilde0", "~1": "tilde1", "~": "tilde", "/": "slash",
        "": {"": "empty-empty"}, "arr_of_obj": [{"k": 1}, {"k": 2}]}});
    let ptr_paths = ["request.trip/id", "request.fleet~0", "request.fleet~1", "request.t~", "request.cost/km", "request.0", "request.1",
        "request.list.0", "request.list.1", "request.nums.0", "request.obj01.0", "request.obj01.1", "request.a.b", "request.a/b",
        "request.a.0", "request.~0", "request.~1", "request.~", "request./", "request..", "request.arr_of_obj.0.k", "request.list.-",
        "request/0", "request.trip.id"];
    for sorted in [false, true] {
        let all: Vec<(String, MapDoc)> = ptr_paths.iter().enumerate().map(|(i, q)| (format!("c{:02}", i), p(q))).collect();
        fmt_case(&mut st, &FmtDoc::Csv(all, sorted), &ptr_resp, "boundary_pointer_like_keys");
        let sums = vec![
            ("rate".to_string(), MapDoc::Sum(vec![p("request.cost/km"), p("request.cost/min")])),
            ("obj".to_string(), MapDoc::Sum(vec![p("request.obj01.0"), p("request.obj01.1")])),
            ("arr".to_string(), MapDoc::Sum(vec![p("request.nums.0"), p("request.nums.1")])),
            ("mix".to_string(), MapDoc::Sum(vec![p("request.1"), p("request.t~"), p("request.a.0")])),
            ("optarr".to_string(), MapDoc::Opt(Box::new(p("request.list.0")))),
            ("optkey".to_string(), MapDoc::Opt(Box::new(p("request.fleet~1")))),
            ("sumopt".to_string(), MapDoc::Sum(vec![MapDoc::Opt(Box::new(p("request.nums.0"))), p("request.cost/km")])),
            ("tag".to_string(), p("request.trip/id")),
        ];
        fmt_case(&mut st, &FmtDoc::Csv(sums.clone(), sorted), &ptr_resp, "boundary_pointer_like_keys");
        fmt_case(&mut st, &FmtDoc::Csv(sums, sorted), &err_resp, "boundary_pointer_like_keys");
    }
    for q in ptr_paths.iter() {
        fmt_case(&mut st, &FmtDoc::Csv(vec![("v".into(), p(q)), ("s".into(), MapDoc::Sum(vec![p(q)])), ("id".into(), p("request.1"))], false), &ptr_resp, "boundary_pointer_like_keys");
    }
    // every byte in a JSON string, key and cell
    let all_bytes: String = (0u8..128).map(|c| c as char).collect();
    let r_all = json!({"s": all_bytes, all_bytes.clone(): 1, "u": "\u{7f}\u{80}\u{7ff}\u{ffff}\u{10000}"});
    for f in [FmtDoc::Json(true), FmtDoc::Json(false), FmtDoc::Csv(vec![("s".into(), p("s")), ("u".into(), p("u"))], false)] {
        fmt_case(&mut st, &f, &r_all, "boundary_all_bytes");
    }
    // ---- random ----
    let mut rng = Rng::new(a.seed);
    while st.next_id() < a.n {
        let mut r = rng.fork();
        let resp = match r.below(20) {
            0 => Value::Null,
            1 => gen_value(&mut r, 2),
            2..=5 => gen_object(&mut r, 3),
            _ => gen_response(&mut r),
        };
        let f = gen_fmtdoc(&mut r, &resp);
        fmt_case(&mut st, &f, &resp, "random");
    }
    st.finish();
}

// ---------------------------------------------------------------- sink stream

#[derive(Clone, Debug, serde::Serialize, serde::Deserialize)]
struct SinkParams {
    seed: u64,
    /// 0 json lines, 1 csv unsorted, 2 csv sorted
    format: u8,
    threads: usize,
    /// number of chunks the batch is cut into (std executor: = threads)
    chunks: usize,
    rayon: bool,
    responses: usize,
    /// 0 small, 1 mixed, 2 one ~100 kB response per chunk (others small)
    size: u8,
    flush: Vec<Option<i64>>,
    /// number of consecutive runs appending to the same file
    runs: usize,
    duplicates: bool,
    /// file exists before the first run with this content
    preexisting: Option<String>,
    /// bulk: checked by the real parsers only, not replayed by the model
    bulk: bool,
    /// workers spin a pseudo-random little while before each write (more varied real schedules)
    #[serde(default)]
    jitter: bool,
}

fn sink_format(pr: &SinkParams) -> FmtDoc {
    match pr.format {
        0 => FmtDoc::Json(true),
        k => FmtDoc::Csv(
            vec![
                ("id".into(), p("id")),
                ("origin".into(), p("request.origin_vertex")),
                ("cost".into(), p("route.cost.total_cost")),
                ("sum".into(), MapDoc::Sum(vec![p("route.cost.time"), MapDoc::Opt(Box::new(p("route.cost.distance")))])),
                ("pad".into(), MapDoc::Opt(Box::new(p("pad")))),
                ("err".into(), MapDoc::Opt(Box::new(p("error")))),
            ],
            k == 2,
        ),
    }
}
/// a response of the sink stream, described compactly (SinkRun.sresp builds the same JSON)
#[derive(Clone, Debug)]
struct SResp {
    id: i64,
    o: i64,
    d: i64,
    /// index into ERR_POOL, or -1 for a route
    e: i64,
    path: Vec<i64>,
    tc: i64,
    ti: i64,
    di: i64,
    padn: usize,
}
const ERR_POOL: &[&str] = &["no path exists between vertices 2 and 0", "search, \"terminated\"\nearly", "vertex attribute not found for vertex 99"];
impl SResp {
    fn value(&self) -> Value {
        let mut m = Map::new();
        m.insert("id".into(), json!(self.id));
        m.insert("request".into(), json!({"origin_vertex": self.o, "destination_vertex": self.d}));
        if self.e < 0 {
            m.insert("route".into(), json!({"path": self.path,
                "cost": {"total_cost": (self.tc as f64) / 64.0, "time": self.ti, "distance": (self.di as f64) / 8.0}}));
        } else {
            m.insert("error".into(), json!(ERR_POOL[self.e as usize]));
        }
        if self.padn > 0 {
            m.insert("pad".into(), json!("x".repeat(self.padn)));
        }
        Value::Object(m)
    }
    fn coq(&self) -> String {
        format!("(sresp {} {} {} {} {} {} {} {} {})", self.id, self.o, self.d, coq_z(self.e as i128),
                coq_list(&self.path, |x| x.to_string()), self.tc, self.ti, self.di, self.padn)
    }
}
fn sink_response(r: &mut Rng, id: usize, pr: &SinkParams, big: bool) -> SResp {
    if pr.duplicates {
        return SResp { id: 0, o: 1, d: 2, e: -1, path: vec![3], tc: 160, ti: 1, di: 16, padn: 0 };
    }
    let e = if r.chance(1, 4) { r.below(3) as i64 } else { -1 };
    let padn = if big { 100_000 + r.below(3000) as usize } else if pr.size == 1 { (r.below(40) * r.below(40)) as usize } else { 0 };
    SResp {
        id: id as i64, o: r.range(0, 99), d: r.range(0, 99), e,
        path: (0..r.below(6)).map(|_| r.range(0, 50)).collect(),
        // small pools of floats: the decimal text of floats is the fmt stream's business
        tc: *r.pick(&[0i64, 1, 96, 160, 4097, 65535, 1 << 20, 123457]), ti: *r.pick(&[0i64, 7, 500, 86400]),
        di: *r.pick(&[0i64, 1, 13, 4000]), padn,
    }
}

struct RunResult {
    queues: Vec<Vec<usize>>,
    trace: Vec<(usize, SinkEvent)>,
}

/// one batch through a real ResponseSink::File built from a policy document
fn run_batch(path: &Path, f: &FmtDoc, flush: Option<i64>, pr: &SinkParams, chunks: Vec<Vec<(usize, Value)>>) -> Result<RunResult, String> {
    let mut pol = json!({"type": "file", "filename": path.to_str().unwrap(), "format": serde_json::from_str::<Value>(&fmtdoc_json(f)).unwrap()});
    if let Some(x) = flush {
        pol["file_flush_rate"] = json!(x);
    }
    let policy: ResponseOutputPolicy = serde_json::from_value(pol).map_err(|e| e.to_string())?;
    let sink = policy.build().map_err(|e| format!("build-rejected:{}", e))?;
    let _ = take_sink_trace();
    let log: Mutex<Vec<(u64, usize)>> = Mutex::new(vec![]);
    let errors: Mutex<Vec<String>> = Mutex::new(vec![]);
    let work = |chunk: Vec<(usize, Value)>| {
        for (idx, mut resp) in chunk {
            if pr.jitter {
                let mut x = (pr.seed ^ (idx as u64).wrapping_mul(0x9E37_79B9_7F4A_7C15)) | 1;
                x ^= x << 13;
                x ^= x >> 7;
                x ^= x << 17;
                for _ in 0..(x % 4000) {
                    std::hint::spin_loop();
                }
                if x % 7 == 0 {
                    std::thread::yield_now();
                }
            }
            match sink.write_response(&mut resp) {
                Ok(()) => log.lock().unwrap().push((sink_thread_id(), idx)),
                Err(e) => errors.lock().unwrap().push(e.to_string()),
            }
        }
    };
    if pr.rayon {
        use rayon::prelude::*;
        let pool = rayon::ThreadPoolBuilder::new().num_threads(pr.threads).build().unwrap();
        pool.install(|| chunks.into_par_iter().for_each(|c| work(c)));
    } else {
        let barrier = Arc::new(Barrier::new(chunks.len()));
        std::thread::scope(|s| {
            for c in chunks {
                let b = barrier.clone();
                let w = &work;
                s.spawn(move || {
                    b.wait();
                    w(c)
                });
            }
        });
    }
    drop(sink);
    let errs = errors.into_inner().unwrap();
    if !errs.is_empty() {
        return Err(format!("write_response failed: {}", errs[0]));
    }
    let raw = take_sink_trace();
    // renumber OS threads 0.. in order of first appearance
    let mut ids: HashMap<u64, usize> = HashMap::new();
    let mut queues: Vec<Vec<usize>> = vec![];
    for (t, idx) in log.into_inner().unwrap() {
        let n = ids.len();
        let k = *ids.entry(t).or_insert(n);
        if k == queues.len() {
            queues.push(vec![]);
        }
        queues[k].push(idx);
    }
    let mut trace = vec![];
    for (t, e) in raw {
        let n = ids.len();
        let k = *ids.entry(t).or_insert(n);
        if k >= queues.len() {
            queues.resize(k + 1, vec![]);
        }
        trace.push((k, e));
    }
    Ok(RunResult { queues, trace })
}

/// a lock-order or hand-over bug in write_response can deadlock the writers: the batch runs in its
/// own thread and is given up (threads leaked) after WATCHDOG_S seconds; a hang is an outcome
const WATCHDOG_S: u64 = 60;
/// after two hangs a stream stops generating cases (every further case would wait for the watchdog)
static HANGS: std::sync::atomic::AtomicUsize = std::sync::atomic::AtomicUsize::new(0);
fn too_many_hangs() -> bool {
    HANGS.load(std::sync::atomic::Ordering::SeqCst) >= 2
}
fn run_batch_guarded(path: &Path, f: &FmtDoc, flush: Option<i64>, pr: &SinkParams, chunks: Vec<Vec<(usize, Value)>>) -> Result<RunResult, String> {
    let (tx, rx) = std::sync::mpsc::channel();
    let (path, f, pr) = (path.to_path_buf(), f.clone(), pr.clone());
    std::thread::spawn(move || {
        let _ = tx.send(run_batch(&path, &f, flush, &pr, chunks));
    });
    match rx.recv_timeout(std::time::Duration::from_secs(WATCHDOG_S)) {
        Ok(r) => r,
        Err(std::sync::mpsc::RecvTimeoutError::Timeout) => {
            HANGS.fetch_add(1, std::sync::atomic::Ordering::SeqCst);
            Err(format!("hang:write_response-did-not-return-within-{}s", WATCHDOG_S))
        }
        Err(_) => Err("panic-in-the-writers".into()),
    }
}
/// the model counts in unary: a flush rate above any number of writes a case can make is passed as
/// 100000 (fewer than 100000 records are written per sink, so the flush rule decides the same)
fn coq_rate(z: i64) -> i64 {
    z.min(100_000)
}
fn coq_dig(b: &[u8]) -> String {
    format!("({}, {})", coq_z(b.len() as i128), coq_z(hash63(b) as i128))
}
/// the specified cells of a response in column order (see spec_cell / spec_columns)
fn expected_cells(f: &FmtDoc, resp: &Value) -> Vec<Vec<u8>> {
    spec_columns(f).iter().map(|(_, m)| spec_cell(m, resp)).collect()
}
/// SinkRun.dec_event
fn enc_event(t: usize, e: &SinkEvent) -> u64 {
    let (k, n) = match e {
        SinkEvent::LockAcquired => (0u64, 0usize),
        SinkEvent::RowFormatted(n) => (1, *n),
        SinkEvent::Written(n) => (2, *n),
        SinkEvent::Flushed => (3, 0),
        SinkEvent::Released => (4, 0),
    };
    assert!(t < 64);
    ((n as u64) * 8 + k) * 64 + t as u64
}

fn sink_case(st: &mut Stream, pr: &SinkParams, family: &str, dir: &Path) {
    if too_many_hangs() {
        return;
    }
    let id = st.next_id();
    let mut r = Rng(pr.seed);
    let f = sink_format(pr);
    let real = real_format(&f);
    let path = dir.join(format!("sink_{}.out", id));
    let _ = std::fs::remove_file(&path);
    if let Some(c) = &pr.preexisting {
        std::fs::write(&path, c).unwrap();
    }
    // responses of all runs, numbered globally
    let mut sresps: Vec<SResp> = vec![];
    let mut resps: Vec<Value> = vec![];
    let mut runs: Vec<RunResult> = vec![];
    let mut failure: Option<String> = None;
    for run in 0..pr.runs {
        let first = resps.len();
        let nchunks = pr.chunks.max(1);
        let mut chunks: Vec<Vec<(usize, Value)>> = vec![vec![]; nchunks];
        for i in 0..pr.responses {
            let big = pr.size == 2 && i < nchunks.min(3) && run == 0;
            let sr = sink_response(&mut r, first + i, pr, big);
            let v = sr.value();
            sresps.push(sr);
            resps.push(v.clone());
            // contiguous chunks as apply_load_balancing / par_chunks produce
            let c = i * nchunks / pr.responses.max(1);
            chunks[c].push((first + i, v));
        }
        match run_batch_guarded(&path, &f, pr.flush[run % pr.flush.len()], pr, chunks) {
            Ok(rr) => runs.push(rr),
            Err(e) => {
                failure = Some(e);
                break;
            }
        }
    }
    let bytes = std::fs::read(&path).unwrap_or_default();
    let _ = std::fs::remove_file(&path);
    // a flush rate that is not positive: the specification allows the configuration to be refused when
    // the sink is built (nothing of the batch is written then) - or, if it is accepted, demands every record
    let flush_here = pr.flush[runs.len() % pr.flush.len()];
    let rate_not_positive = flush_here.map(|x| x <= 0).unwrap_or(false);
    if let Some(e) = &failure {
        if e.starts_with("build-rejected:") {
            st.count(&format!("family:{}", family));
            st.count("build_rejected");
            let line = format!("build-rejected file={}", digest(&bytes));
            let desc = json!({"id": id, "family": family, "params": serde_json::to_value(pr).unwrap()});
            let coq_runs = coq_list(&(0..=runs.len()).collect::<Vec<_>>(), |k| {
                if *k < runs.len() {
                    let rr = &runs[*k];
                    format!("(mk_run {} {} {})", coq_opt(&pr.flush[*k % pr.flush.len()].map(coq_rate), |z| coq_z(*z as i128)),
                            coq_list(&rr.queues, |q| coq_list(q, |i| i.to_string())), coq_list(&rr.trace, |(t, e)| enc_event(*t, e).to_string()))
                } else {
                    format!("(mk_run {} [] [])", coq_opt(&flush_here.map(coq_rate), |z| coq_z(*z as i128)))
                }
            });
            let mut tab = BTreeMap::new();
            add_float(&mut tab, 0.0);
            add_float(&mut tab, -0.0);
            for v in &resps {
                collect_floats(v, &mut tab);
                for (_, m) in spec_columns(&f) {
                    spec_collect(&m, v, &mut tab);
                }
            }
            // S: refusing is what the specification allows only for a rate that is not positive
            let s_term = if rate_not_positive {
                format!("line \"S\" {} {}", id, coq_str(&line))
            } else {
                format!("line \"S\" {} {}", id, coq_str("a positive flush rate must be accepted: one record per response"))
            };
            st.case(
                vec![format!("line_sink_M {} {} {} {} {} {}", coq_tab(&tab), id, coq_fmtdoc(&f), coq_list(&sresps, |x| x.coq()), coq_ostr(&pr.preexisting), coq_runs), s_term],
                vec![format!("I {} {}", id, line)],
                desc,
            );
            return;
        }
    }
    // ---- the file: previous content / header, then the records a real reader finds
    let base_len = match (&pr.preexisting, real.initial_file_contents()) {
        (Some(c), _) => c.len(),
        (None, Some(h)) => h.len(),
        (None, None) => 0,
    }
    .min(bytes.len());
    let (prefix, rest) = bytes.split_at(base_len);
    let mut ok = failure.clone().map(|e| format!("F:{}", e.replace(' ', "_").chars().take(80).collect::<String>())).unwrap_or_else(|| "T".into());
    let mut recs: Vec<&[u8]> = vec![];
    let mut fields: Vec<Vec<Vec<u8>>> = vec![];
    if pr.format == 0 {
        let mut ls: Vec<&[u8]> = rest.split(|&c| c == b'\n').collect();
        let tail = ls.pop().unwrap_or(&[]);
        if !tail.is_empty() {
            ok = "F:unterminated-last-line".into();
            ls.push(tail);
        }
        recs = ls;
    } else {
        let mut rd = csv::ReaderBuilder::new().has_headers(false).flexible(true).from_reader(rest);
        let mut starts: Vec<usize> = vec![];
        for rec in rd.byte_records() {
            match rec {
                Ok(rec) => {
                    starts.push(rec.position().map(|p| p.byte() as usize).unwrap_or(0));
                    fields.push(rec.iter().map(|f| f.to_vec()).collect());
                }
                Err(e) => ok = format!("F:csv-reader-{}", e),
            }
        }
        for (k, st0) in starts.iter().enumerate() {
            let end = if k + 1 < starts.len() { starts[k + 1] } else { rest.len() };
            let raw = &rest[*st0..end];
            match raw.strip_suffix(b"\n") {
                Some(x) => recs.push(x),
                None => {
                    ok = "F:unterminated-last-record".into();
                    recs.push(raw)
                }
            }
        }
        // a new file starts with the header: one field per configured column, in the configured order
        if pr.preexisting.is_none() {
            let mut rd = csv::ReaderBuilder::new().has_headers(false).flexible(true).from_reader(prefix);
            let hs: Vec<Vec<Vec<u8>>> = rd.byte_records().filter_map(|r| r.ok()).map(|r| r.iter().map(|f| f.to_vec()).collect()).collect();
            let names: Vec<Vec<u8>> = spec_columns(&f).iter().map(|(k, _)| k.as_bytes().to_vec()).collect();
            if hs.len() != 1 || hs[0] != names {
                ok = "F:header-is-not-the-configured-columns".into();
            }
        }
    }
    // expected rows by the real formatter (on clones), for identification of the records
    let mut by_row: HashMap<Vec<u8>, Vec<usize>> = HashMap::new();
    let mut tab = BTreeMap::new();
    add_float(&mut tab, 0.0);
    add_float(&mut tab, -0.0);
    for (i, v) in resps.iter().enumerate() {
        let mut c = v.clone();
        let row = real.format_response(&mut c).unwrap();
        by_row.entry(row.into_bytes()).or_default().push(i);
        collect_floats(v, &mut tab);
        for m in real_mappings(&real) {
            collect_mapping(&m, v, &mut tab);
        }
    }
    // trace-derived order (used only to break ties between identical records)
    let mut trace_order: Vec<usize> = vec![];
    for rr in &runs {
        let mut pos = vec![0usize; rr.queues.len()];
        for (t, e) in &rr.trace {
            if let SinkEvent::Released = e {
                if pos[*t] < rr.queues[*t].len() {
                    trace_order.push(rr.queues[*t][pos[*t]]);
                    pos[*t] += 1;
                }
            }
        }
    }
    let mut order: Vec<usize> = vec![];
    let mut used = vec![false; resps.len()];
    for (k, l) in recs.iter().enumerate() {
        let cands = by_row.get(*l).cloned().unwrap_or_default();
        let free: Vec<usize> = cands.into_iter().filter(|i| !used[*i]).collect();
        let want = trace_order.get(order.len()).copied();
        let pick = match want {
            Some(w) if free.contains(&w) => Some(w),
            _ => free.first().copied(),
        };
        match pick {
            Some(i) => {
                used[i] = true;
                order.push(i);
                if pr.format == 0 {
                    // the record parses back to the response
                    if !parses_back(std::str::from_utf8(l).unwrap_or(""), &resps[i]) && ok == "T" {
                        ok = format!("F:record-{}-does-not-parse-back", k);
                    }
                } else if fields.get(k) != Some(&expected_cells(&f, &resps[i])) && ok == "T" {
                    // the csv reader's fields are the mapping's values, in header order
                    ok = format!("F:record-{}-fields-differ-from-the-mapping", k);
                }
            }
            None => {
                if ok == "T" {
                    ok = format!("F:record-{}-belongs-to-no-pending-response", k);
                }
            }
        }
    }
    if ok == "T" && used.iter().any(|u| !*u) {
        ok = format!("F:{}-responses-have-no-record", used.iter().filter(|u| !**u).count());
    }
    let iline = format!(
        "acc=T file={} n={} order=[{}] ok={}",
        digest(&bytes), recs.len(), order.iter().map(|x| x.to_string()).collect::<Vec<_>>().join(","), ok
    );
    // ---- histogram
    st.count(&format!("family:{}", family));
    st.count(&format!("format:{}", ["json_lines", "csv_unsorted", "csv_sorted"][pr.format as usize]));
    st.count(&format!("threads:{}", pr.threads));
    st.count(&format!("responses:{}", match pr.responses { 0..=1 => "1", 2..=9 => "2-9", 10..=99 => "10-99", _ => "100-500" }));
    st.count(&format!("size:{}", ["small", "mixed", "100kB"][pr.size as usize]));
    st.count(&format!("runs:{}", pr.runs));
    st.count(if pr.rayon { "executor:rayon" } else { "executor:std_threads" });
    if pr.jitter {
        st.count("jitter");
    }
    let os_threads = runs.iter().map(|r| r.queues.iter().filter(|q| !q.is_empty()).count()).max().unwrap_or(0);
    st.count(&format!("os_threads_that_wrote:{}", os_threads));
    // how interleaved was the real schedule: number of thread switches between consecutive lock acquisitions
    let mut switches = 0usize;
    let mut flushed = 0usize;
    for rr in &runs {
        let locks: Vec<usize> = rr.trace.iter().filter(|(_, e)| matches!(e, SinkEvent::LockAcquired)).map(|(t, _)| *t).collect();
        switches += locks.windows(2).filter(|w| w[0] != w[1]).count();
        flushed += rr.trace.iter().filter(|(_, e)| matches!(e, SinkEvent::Flushed)).count();
    }
    st.count(&format!("lock_handovers:{}", match switches { 0 => "0", 1..=9 => "1-9", 10..=99 => "10-99", _ => "100+" }));
    st.count(&format!("flushes:{}", match flushed { 0 => "0", 1..=9 => "1-9", _ => "10+" }));
    // non-trivial: at least two OS threads wrote and the lock changed hands between them at least twice
    if os_threads >= 2 && switches >= 2 {
        st.count("nontrivial");
        st.mark_nontrivial(&format!("{:?}{}", pr, switches));
    }
    let desc = json!({"id": id, "family": family, "params": serde_json::to_value(pr).unwrap()});
    if pr.bulk {
        // too large for coqc: the real parsers' verdict only
        let line = format!("bulk n={} ok={}", recs.len(), ok);
        let want = format!("bulk n={} ok=T", resps.len());
        st.case(
            vec![format!("line \"M\" {} {}", id, coq_str(&line)), format!("line \"S\" {} {}", id, coq_str(&want))],
            vec![format!("I {} {}", id, line)],
            desc,
        );
        return;
    }
    let coq_runs = coq_list(&runs.iter().enumerate().collect::<Vec<_>>(), |(k, rr)| {
        format!(
            "(mk_run {} {} {})",
            coq_opt(&pr.flush[*k % pr.flush.len()].map(coq_rate), |z| coq_z(*z as i128)),
            coq_list(&rr.queues, |q| coq_list(q, |i| i.to_string())),
            coq_list(&rr.trace, |(t, e)| enc_event(*t, e).to_string())
        )
    });
    let t = coq_tab(&tab);
    let terms = vec![
        format!("line_sink_M {} {} {} {} {} {}", t, id, coq_fmtdoc(&f), coq_list(&sresps, |x| x.coq()), coq_ostr(&pr.preexisting), coq_runs),
        format!("line_sink_S {} {} {}", id, coq_dig(&bytes), coq_list(&order, |i| i.to_string())),
    ];
    st.case(terms, vec![format!("I {} {}", id, iline)], desc);
}

fn sink_stream(a: &Args) {
    let header = "From Coq Require Import ZArith List String Floats.\nFrom RC Require Import Base.Show Base.Json Model.Sink Model.SinkRun.\nImport ListNotations.\nOpen Scope string_scope.\nOpen Scope Z_scope.";
    let mut st = Stream::new(&a.out, "sink", header, a.shards);
    let dir: PathBuf = a.out.join("files");
    std::fs::create_dir_all(&dir).unwrap();
    if let Some(pth) = &a.replay {
        st.full = true;
        let v: Value = serde_json::from_str(&std::fs::read_to_string(pth).unwrap()).unwrap();
        for case in replay_cases(&v) {
            let pr: SinkParams = serde_json::from_value(case["params"].clone()).unwrap();
            sink_case(&mut st, &pr, case["corpus"].as_str().unwrap_or("replay"), &dir);
        }
        st.finish();
        std::process::exit(0);
    }
    let base = SinkParams { seed: 1, format: 0, threads: 1, chunks: 1, rayon: false, responses: 1, size: 0, flush: vec![None], runs: 1,
                            duplicates: false, preexisting: None, bulk: false, jitter: false };
    // ---- deterministic boundary families ----
    for format in 0..3u8 {
        // single thread, single response; every flush rate around the batch size
        for (n, fl) in [(1usize, None), (1, Some(1)), (3, Some(2)), (3, Some(3)), (3, Some(4)), (5, Some(1))] {
            sink_case(&mut st, &SinkParams { format, responses: n, flush: vec![fl], seed: 11 + n as u64, ..base.clone() }, "boundary_single_thread", &dir);
        }
        // flush rates at and beyond the edges: 0 and negative (refused when the sink is built, or else every record
        // must be there), 1, huge; one and several threads; a refused second run keeps the first run's records
        for (k, fl) in [0i64, -1, i64::MIN, 1, 1 << 40, i64::MAX].into_iter().enumerate() {
            sink_case(&mut st, &SinkParams { format, responses: 3, flush: vec![Some(fl)], seed: 60 + k as u64, ..base.clone() }, "boundary_flush_rate_edges", &dir);
            sink_case(&mut st, &SinkParams { format, threads: 4, chunks: 4, responses: 12, jitter: true, flush: vec![Some(fl)], seed: 70 + k as u64, ..base.clone() }, "boundary_flush_rate_edges", &dir);
        }
        sink_case(&mut st, &SinkParams { format, threads: 2, chunks: 2, responses: 6, runs: 2, flush: vec![Some(2), Some(0)], seed: 80, ..base.clone() }, "boundary_flush_rate_edges", &dir);
        // second and third run appending to the first run's file, different flush rates
        sink_case(&mut st, &SinkParams { format, threads: 4, chunks: 4, responses: 12, runs: 3, flush: vec![None, Some(5), Some(2)], seed: 21, ..base.clone() }, "boundary_append_runs", &dir);
        // file left by something else (does not end the way this format would)
        sink_case(&mut st, &SinkParams { format, threads: 2, chunks: 2, responses: 4, preexisting: Some("older content\nmore\n".into()), seed: 22, ..base.clone() }, "boundary_preexisting_file", &dir);
        sink_case(&mut st, &SinkParams { format, threads: 2, chunks: 2, responses: 4, preexisting: Some("".into()), seed: 23, ..base.clone() }, "boundary_preexisting_file", &dir);
        // identical responses from 4 threads
        sink_case(&mut st, &SinkParams { format, threads: 4, chunks: 4, responses: 16, duplicates: true, seed: 24, ..base.clone() }, "boundary_identical_responses", &dir);
        // ~100 kB records
        sink_case(&mut st, &SinkParams { format, threads: 3, chunks: 3, responses: 6, size: 2, seed: 25, ..base.clone() }, "boundary_100kB_records", &dir);
        // every parallelism 1..16 with both executors
        for t in 1..=16usize {
            sink_case(&mut st, &SinkParams { format, threads: t, chunks: t, responses: 4 * t, rayon: t % 2 == 0, jitter: t % 3 == 0, flush: vec![Some(3)], seed: 30 + t as u64, ..base.clone() }, "boundary_every_parallelism", &dir);
        }
        // 500 responses
        sink_case(&mut st, &SinkParams { format, threads: 16, chunks: 16, responses: 500, flush: vec![Some(7)], seed: 50, ..base.clone() }, "boundary_500_responses", &dir);
        // bulk: 16 threads x 100 kB records (real parsers only)
        sink_case(&mut st, &SinkParams { format, threads: 16, chunks: 16, responses: 160, size: 2, bulk: true, seed: 51, ..base.clone() }, "bulk_100kB", &dir);
    }
    // ---- random ----
    let mut rng = Rng::new(a.seed);
    while st.next_id() < a.n && !too_many_hangs() {
        let mut r = rng.fork();
        let threads = match r.below(4) { 0 => 1 + r.below(3), 1 => 16, _ => 1 + r.below(16) } as usize;
        let rayon = r.chance(1, 2);
        let chunks = if rayon { (threads + r.below(8) as usize).max(1) } else { threads };
        let size = match r.below(10) { 0 => 2, 1..=4 => 1, _ => 0 } as u8;
        let responses = match r.below(6) {
            0 => 1 + r.below(4),
            1 => 1 + r.below(500),
            2 => 100 + r.below(400),
            _ => 1 + r.below(80),
        } as usize;
        let responses = if size == 2 { responses.min(40) } else if size == 1 { responses.min(250) } else { responses };
        let runs = match r.below(5) { 0 => 2, 1 => 3, _ => 1 } as usize;
        let responses = if runs > 1 { responses.min(150) } else { responses };
        let flush = (0..runs).map(|_| match r.below(4) { 0 => None, 1 => Some(1), _ => Some(1 + r.below(responses as u64 + 2) as i64) }).collect();
        let pr = SinkParams { seed: r.next_u64(), format: r.below(3) as u8, threads, chunks, rayon, responses, size, flush, runs,
                              duplicates: r.chance(1, 25), preexisting: if r.chance(1, 12) { Some("kept line\n".into()) } else { None }, bulk: false,
                              jitter: r.chance(1, 2) };
        sink_case(&mut st, &pr, "random", &dir);
    }
    let _ = std::fs::remove_dir_all(&dir);
    st.finish();
    std::process::exit(0); // do not wait for leaked writer threads
}

fn main() {
    silence_panics();
    let a = parse_args();
    match a.stream.as_str() {
        "fmt" => fmt_stream(&a),
        "sink" => sink_stream(&a),
        "app" => app_stream(&a),
        s => panic!("unknown stream {}", s),
    }
}

// ---------------------------------------------------------------- app stream (CompassApp::run)

#[derive(Clone, Debug, serde::Serialize, serde::Deserialize)]
struct AppParams {
    seed: u64,
    queries: usize,
    parallelism: usize,
    persist: bool,
    csv: bool,
    sorted: bool,
    flush: Option<i64>,
    runs: usize,
    /// file policy from the application's TOML configuration instead of the run configuration
    toml_policy: bool,
    /// the batch itself (corpus witnesses); generated from the seed when absent
    #[serde(default)]
    explicit: Option<Vec<Value>>,
}

fn app_toml(out: &Path) -> String {
    let d = "/repo/rust/routee-compass/src/app/compass/test/speeds_test";
    let d = if Path::new(d).exists() { d.to_string() } else { std::env::var("VERIF_REPO_DATA").unwrap_or(d.to_string()) };
    format!(
        r#"
parallelism = 2
response_persistence_policy = "persist_response_in_memory"
[graph]
edge_list_input_file = "{d}/test_edges.csv"
vertex_list_input_file = "{d}/test_vertices.csv"
verbose = false
[traversal]
type = "speed_table"
speed_table_input_file = "{d}/test_edge_speeds.csv"
speed_unit = "kilometers_per_hour"
output_time_unit = "hours"
[access]
type = "no_access_model"
[cost]
cost_aggregation = "sum"
[cost.weights]
distance = 0
time = 1
[cost.vehicle_rates.time]
type = "raw"
[cost.vehicle_rates.distance]
type = "raw"
[plugin]
input_plugins = [ {{ type = "grid_search" }} ]
output_plugins = [ {{ type = "summary" }}, {{ type = "traversal", route = "edge_id", geometry_input_file = "{d}/edge_geometries.txt" }} ]
[response_output_policy]
type = "file"
filename = "{f}"
file_flush_rate = 3
[response_output_policy.format]
type = "json"
newline_delimited = true
"#,
        d = d,
        f = out.join("app_toml_policy.jsonl").to_str().unwrap()
    )
}

/// the six kinds of query of the app stream
fn query_of(kind: char) -> Value {
    match kind {
        'N' => json!(7),                                                                              // not an object
        'W' => json!({"origin_vertex": 0, "destination_vertex": 2, "query_weight_estimate": "abc"}), // ill-typed weight
        'P' => json!({"origin_vertex": 0, "destination_vertex": 2, "grid_search": 5}),              // rejected by the grid_search plugin
        'X' => json!({"origin_vertex": 2, "destination_vertex": 0}),                                 // fails in the search: no path
        'U' => json!({"origin_vertex": 0, "destination_vertex": 99}),                                // fails in the search: unknown vertex
        _ => json!({"origin_vertex": 0, "destination_vertex": 2}),                                   // succeeds
    }
}
fn query_kind(q: &Value) -> &'static str {
    if !q.is_object() {
        "not_an_object"
    } else if q.get("query_weight_estimate").is_some() {
        "bad_weight"
    } else if q.get("grid_search").is_some() {
        "plugin_rejected"
    } else if q["destination_vertex"] == json!(99) {
        "unknown_vertex"
    } else if q["origin_vertex"] == json!(2) && q["destination_vertex"] == json!(0) {
        "no_path"
    } else {
        "search"
    }
}

fn app_mapping(sorted: bool) -> FmtDoc {
    FmtDoc::Csv(
        vec![
            ("origin".into(), p("request.origin_vertex")),
            ("dest".into(), p("request.destination_vertex")),
            ("path".into(), p("route.path")),
            ("cost".into(), p("route.cost.total_cost")),
            ("err".into(), MapDoc::Opt(Box::new(p("error")))),
        ],
        sorted,
    )
}

fn app_case(st: &mut Stream, app: &Arc<CompassApp>, pr: &AppParams, family: &str, dir: &Path) -> bool {
    if too_many_hangs() {
        return false;
    }
    let id = st.next_id();
    let mut r = Rng(pr.seed);
    let f = if pr.csv { app_mapping(pr.sorted) } else { FmtDoc::Json(true) };
    let real = real_format(&f);
    let path = if pr.toml_policy { dir.join("app_toml_policy.jsonl") } else { dir.join(format!("app_{}.out", id)) };
    let _ = std::fs::remove_file(&path);
    let mut ok = "T".to_string();
    let mut coq_runs: Vec<String> = vec![];
    let mut total_expected = 0usize;
    let mut kinds = std::collections::BTreeSet::new();
    let mut prev_len = 0usize;
    let mut hung = false;
    for _run in 0..pr.runs {
        let queries: Vec<Value> = if let Some(q) = &pr.explicit { for x in q { kinds.insert(query_kind(x)); } q.clone() } else { (0..pr.queries)
            .map(|_| match r.below(8) {
                0 => { kinds.insert("unknown_vertex"); json!({"origin_vertex": r.range(0, 2), "destination_vertex": 99}) }
                1 => { kinds.insert("bad_weight"); json!({"origin_vertex": r.range(0, 2), "destination_vertex": r.range(0, 2), "query_weight_estimate": "abc"}) }
                2 => { kinds.insert("not_an_object"); json!(7) }
                _ => { kinds.insert("search"); json!({"origin_vertex": r.range(0, 2), "destination_vertex": r.range(0, 2)}) }
            })
            .collect() };
        let mut cfg = json!({"parallelism": pr.parallelism,
            "response_persistence_policy": if pr.persist { "persist_response_in_memory" } else { "discard_response_from_memory" }});
        if !pr.toml_policy {
            let mut pol = json!({"type": "file", "filename": path.to_str().unwrap(), "format": serde_json::from_str::<Value>(&fmtdoc_json(&f)).unwrap()});
            if let Some(x) = pr.flush {
                pol["file_flush_rate"] = json!(x);
            }
            cfg["response_output_policy"] = pol;
        }
        let _ = take_sink_trace();
        let (tx, rx) = std::sync::mpsc::channel();
        let (app2, q2, cfg2) = (app.clone(), queries.clone(), cfg.clone());
        std::thread::spawn(move || {
            let _ = tx.send(app2.run(q2, Some(&cfg2)).map_err(|e| e.to_string()));
        });
        let returned = match rx.recv_timeout(std::time::Duration::from_secs(WATCHDOG_S)) {
            Ok(Ok(v)) => v,
            Ok(Err(e)) => {
                ok = format!("F:run-failed-{}", e.chars().take(60).collect::<String>().replace(' ', "_"));
                break;
            }
            Err(std::sync::mpsc::RecvTimeoutError::Timeout) => {
                ok = format!("F:hang:run-did-not-return-within-{}s", WATCHDOG_S);
                hung = true;
                HANGS.fetch_add(2, std::sync::atomic::Ordering::SeqCst);
                break;
            }
            Err(_) => {
                ok = "F:panic-in-run".into();
                break;
            }
        };
        let raw = take_sink_trace();
        total_expected += queries.len();
        let bytes = std::fs::read(&path).unwrap_or_default();
        // header of a new file
        let base_len = if prev_len > 0 { prev_len } else { real.initial_file_contents().map(|h| h.len()).unwrap_or(0) }.min(bytes.len());
        let rest = &bytes[base_len..];
        // records of this run
        let mut recs: Vec<&[u8]> = vec![];
        let mut fields: Vec<Vec<Vec<u8>>> = vec![];
        if !pr.csv || pr.toml_policy {
            let mut ls: Vec<&[u8]> = rest.split(|&c| c == b'\n').collect();
            if ls.pop().map(|t| !t.is_empty()).unwrap_or(false) {
                ok = "F:unterminated-last-line".into();
            }
            recs = ls;
        } else {
            let mut rd = csv::ReaderBuilder::new().has_headers(false).flexible(true).from_reader(rest);
            let mut starts = vec![];
            for rec in rd.byte_records().filter_map(|x| x.ok()) {
                starts.push(rec.position().map(|p| p.byte() as usize).unwrap_or(0));
                fields.push(rec.iter().map(|f| f.to_vec()).collect());
            }
            for (k, s0) in starts.iter().enumerate() {
                let end = if k + 1 < starts.len() { starts[k + 1] } else { rest.len() };
                recs.push(rest[*s0..end].strip_suffix(b"\n").unwrap_or(&rest[*s0..end]));
            }
        }
        if recs.len() != queries.len() && ok == "T" {
            ok = format!("F:{}-records-for-{}-responses", recs.len(), queries.len());
        }
        // content: one record per response
        if pr.persist {
            if returned.len() != queries.len() && ok == "T" {
                ok = format!("F:{}-responses-returned-for-{}-queries", returned.len(), queries.len());
            }
            let mut used = vec![false; recs.len()];
            for resp in &returned {
                let hit = (0..recs.len()).find(|&k| {
                    !used[k]
                        && if pr.csv && !pr.toml_policy {
                            fields[k] == expected_cells(&f, resp)
                        } else {
                            parses_back(std::str::from_utf8(recs[k]).unwrap_or(""), resp)
                        }
                });
                match hit {
                    Some(k) => used[k] = true,
                    None => {
                        if ok == "T" {
                            ok = "F:a-returned-response-has-no-record".into();
                        }
                    }
                }
            }
        } else {
            // responses are not kept: every query must be answered by exactly one record (matched by its request)
            let key = |q: &Value| format!("{}|{}", q.get("origin_vertex").map(|x| x.to_string()).unwrap_or_default(), q.get("destination_vertex").map(|x| x.to_string()).unwrap_or_default());
            let mut want: Vec<String> = queries.iter().map(key).collect();
            let mut got: Vec<String> = if pr.csv && !pr.toml_policy {
                let names: Vec<String> = spec_columns(&f).iter().map(|(k, _)| k.clone()).collect();
                let (io, id_) = (names.iter().position(|n| n == "origin").unwrap(), names.iter().position(|n| n == "dest").unwrap());
                fields.iter().map(|f| format!("{}|{}", String::from_utf8_lossy(f.get(io).map(|x| x.as_slice()).unwrap_or(b"?")), String::from_utf8_lossy(f.get(id_).map(|x| x.as_slice()).unwrap_or(b"?")))).collect()
            } else {
                recs.iter().map(|l| parse_json_exact(std::str::from_utf8(l).unwrap_or("")).map(|v| key(v.get("request").unwrap_or(&Value::Null))).unwrap_or("unparsable".into())).collect()
            };
            want.sort();
            got.sort();
            if want != got && ok == "T" {
                ok = "F:records-do-not-answer-the-queries-one-to-one".into();
            }
        }
        // the trace, with the queues read off the file order (k-th lock acquisition wrote the k-th record)
        let mut ids: HashMap<u64, usize> = HashMap::new();
        let mut queues: Vec<Vec<usize>> = vec![];
        let mut k = 0usize;
        let mut trace = vec![];
        for (t, e) in raw {
            let n = ids.len();
            let ti = *ids.entry(t).or_insert(n);
            if ti == queues.len() {
                queues.push(vec![]);
            }
            if let SinkEvent::LockAcquired = e {
                queues[ti].push(k);
                k += 1;
            }
            trace.push(enc_event(ti, &e));
        }
        let flush = if pr.toml_policy { Some(3) } else { pr.flush };
        coq_runs.push(format!(
            "({}, {}, {}, {}, {})",
            coq_opt(&flush, |z| coq_z(*z as i128)), base_len, coq_list(&recs, |x| x.len().to_string()),
            coq_list(&queues, |q| coq_list(q, |i| i.to_string())), coq_list(&trace, |x| x.to_string())
        ));
        st.count(&format!("os_threads_that_wrote:{}", queues.len().min(17)));
        prev_len = bytes.len();
    }
    let bytes = std::fs::read(&path).unwrap_or_default();
    let _ = std::fs::remove_file(&path);
    // n = records after the header, over all runs
    let nrec: usize = total_expected;
    let iline = format!("acc=T n={} bytes={} ok={}", if ok == "T" { nrec } else { 0 }, bytes.len(), ok);
    st.count(&format!("family:{}", family));
    st.count(if pr.csv && !pr.toml_policy { "format:csv" } else { "format:json_lines" });
    st.count(if pr.persist { "policy:persist" } else { "policy:discard" });
    st.count(&format!("parallelism:{}", pr.parallelism));
    st.count(&format!("runs:{}", pr.runs));
    for k in &kinds {
        st.count(&format!("has:{}", k));
    }
    if kinds.len() >= 2 {
        st.count("nontrivial");
        st.mark_nontrivial(&format!("{:?}", pr));
    }
    let desc = json!({"id": id, "family": family, "params": serde_json::to_value(pr).unwrap()});
    st.case(
        vec![
            format!("line_app_M {} {}", id, coq_list(&coq_runs, |x| x.clone())),
            format!("line_app_S {} {} {}", id, nrec, bytes.len()),
        ],
        vec![format!("I {} {}", id, iline)],
        desc,
    );
    !hung
}

fn app_stream(a: &Args) {
    let header = "From Coq Require Import ZArith List String Floats.\nFrom RC Require Import Base.Show Base.Json Model.Sink Model.SinkRun.\nImport ListNotations.\nOpen Scope string_scope.\nOpen Scope Z_scope.";
    let mut st = Stream::new(&a.out, "app", header, a.shards);
    let dir: PathBuf = a.out.join("files");
    std::fs::create_dir_all(&dir).unwrap();
    let toml = app_toml(&dir);
    let conf = dir.join("conf.toml");
    std::fs::write(&conf, &toml).unwrap();
    let app = Arc::new(CompassApp::try_from_config_toml_string(toml, conf.to_str().unwrap().to_string(), &CompassAppBuilder::default())
        .expect("CompassApp builds from the speeds_test configuration"));
    if let Some(pth) = &a.replay {
        st.full = true;
        let v: Value = serde_json::from_str(&std::fs::read_to_string(pth).unwrap()).unwrap();
        for case in replay_cases(&v) {
            let pr: AppParams = serde_json::from_value(case["params"].clone()).unwrap();
            app_case(&mut st, &app, &pr, case["corpus"].as_str().unwrap_or("replay"), &dir);
        }
        st.finish();
        std::process::exit(0);
    }
    let base = AppParams { seed: 1, queries: 4, parallelism: 2, persist: true, csv: false, sorted: false, flush: None, runs: 1, toml_policy: false, explicit: None };
    // the D-ERRNOTWRITTEN witness shape and both policies / formats at small size
    for persist in [true, false] {
        for csv in [false, true] {
            app_case(&mut st, &app, &AppParams { persist, csv, seed: 5, queries: 8, parallelism: 4, ..base.clone() }, "boundary_policies_formats", &dir);
            app_case(&mut st, &app, &AppParams { persist, csv, seed: 6, queries: 1, parallelism: 1, ..base.clone() }, "boundary_single_query", &dir);
            app_case(&mut st, &app, &AppParams { persist, csv, seed: 7, queries: 12, parallelism: 3, runs: 2, flush: Some(5), ..base.clone() }, "boundary_two_runs_same_file", &dir);
        }
        app_case(&mut st, &app, &AppParams { persist, seed: 8, queries: 10, parallelism: 2, toml_policy: true, ..base.clone() }, "boundary_policy_from_toml", &dir);
    }
    // batches by outcome: every query fails before the search / in the search / succeeds, exactly one
    // fails (first, middle, last), the empty batch; both policies, both formats, parallelism 1..16 in turn
    let mut shapes: Vec<(&str, String)> = vec![];
    for n in [1usize, 3, 8] {
        for k in ["N", "W", "P", "NWP"] {
            shapes.push(("all_fail_before_search", k.chars().cycle().take(n).collect()));
        }
        for k in ["X", "XU"] {
            shapes.push(("all_fail_in_search", k.chars().cycle().take(n).collect()));
        }
        shapes.push(("all_succeed", "G".repeat(n)));
    }
    for bad in ['N', 'W', 'P', 'X'] {
        for pos in [0usize, 2, 4] {
            shapes.push(("exactly_one_fails", (0..5).map(|i| if i == pos { bad } else { 'G' }).collect()));
        }
    }
    shapes.push(("empty_batch", String::new()));
    let mut turn = 0usize;
    for (fam, shape) in &shapes {
        for persist in [true, false] {
            for csv in [false, true] {
                turn += 1;
                let pr = AppParams {
                    seed: 9, queries: shape.len(), parallelism: 1 + turn % 16, persist, csv, sorted: turn % 2 == 0,
                    flush: if turn % 3 == 0 { Some(2) } else { None }, runs: if *fam == "all_fail_before_search" && shape.len() == 3 { 2 } else { 1 },
                    toml_policy: false, explicit: Some(shape.chars().map(query_of).collect()),
                };
                app_case(&mut st, &app, &pr, fam, &dir);
            }
        }
    }
    let mut rng = Rng::new(a.seed);
    while st.next_id() < a.n {
        let mut r = rng.fork();
        let pr = AppParams {
            seed: r.next_u64(), queries: 1 + r.below(60) as usize, parallelism: 1 + r.below(16) as usize, persist: r.chance(1, 2),
            csv: r.chance(1, 2), sorted: r.chance(1, 2), flush: if r.chance(1, 2) { None } else { Some(1 + r.below(9) as i64) },
            runs: if r.chance(1, 4) { 2 } else { 1 }, toml_policy: false, explicit: None,
        };
        if !app_case(&mut st, &app, &pr, "random", &dir) {
            break; // the global rayon pool holds deadlocked workers: nothing more can be learnt in this process
        }
    }
    let _ = std::fs::remove_dir_all(&dir);
    st.finish();
    std::process::exit(0); // do not wait for leaked writer threads
}
