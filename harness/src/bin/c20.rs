//! C20 harness (stream `output`): route / tree output formats, identifier lookup, summary counters.
//!
//! Every case writes a geometry file and an identifier file, builds the REAL plugins through their
//! config builders (TraversalPluginBuilder -> TraversalPlugin::from_file, UUIDOutputPluginBuilder,
//! SummaryOutputPluginBuilder), hands a hand-built SearchAppResult (real EdgeTraversal /
//! SearchTreeBranch values) to the real glue `apply_output_processing`, and RE-PARSES the response
//! with the same crates (serde_json, geojson, wkt, wkb) into id lists / records / coordinate lists.
//! Only structure is printed: coordinates live on the k/8 grid and are printed as the integer k,
//! costs and state variables are integer-valued doubles printed as integers.
use flate2::write::GzEncoder;
use flate2::Compression;
use routee_compass::app::compass::compass_app::apply_output_processing;
use routee_compass::app::compass::compass_app_error::CompassAppError;
use routee_compass::app::compass::config::builders::OutputPluginBuilder;
use routee_compass::app::compass::config::cost_model::cost_model_service::CostModelService;
use routee_compass::app::search::search_app::SearchApp;
use routee_compass::app::search::search_app_result::SearchAppResult;
use routee_compass::plugin::output::default::summary::builder::SummaryOutputPluginBuilder;
use routee_compass::plugin::output::default::traversal::builder::TraversalPluginBuilder;
use routee_compass::plugin::output::default::uuid::builder::UUIDOutputPluginBuilder;
use routee_compass::plugin::output::OutputPlugin;
use routee_compass_core::algorithm::search::edge_traversal::EdgeTraversal;
use routee_compass_core::algorithm::search::search_algorithm::SearchAlgorithm;
use routee_compass_core::algorithm::search::search_instance::SearchInstance;
use routee_compass_core::algorithm::search::search_tree_branch::SearchTreeBranch;
use routee_compass_core::model::access::default::no_access_model::NoAccessModel;
use routee_compass_core::model::cost::cost_aggregation::CostAggregation;
use routee_compass_core::model::cost::cost_model::CostModel;
use routee_compass_core::model::cost::vehicle::vehicle_cost_rate::VehicleCostRate;
use routee_compass_core::model::frontier::default::no_restriction::NoRestriction;
use routee_compass_core::model::network::{EdgeId, Graph, VertexId};
use routee_compass_core::model::state::state_feature::StateFeature;
use routee_compass_core::model::state::state_model::StateModel;
use routee_compass_core::model::termination::termination_model::TerminationModel;
use routee_compass_core::model::traversal::default::distance_traversal_model::DistanceTraversalModel;
use routee_compass_core::model::traversal::default::distance_traversal_service::DistanceTraversalService;
use routee_compass_core::model::traversal::state::state_variable::StateVar;
use routee_compass_core::model::unit::{Cost, Distance, DistanceUnit};
use serde::{Deserialize, Serialize};
use serde_json::{json, Value};
use std::collections::HashMap;
use std::io::Write as _;
use std::panic::AssertUnwindSafe;
use std::path::{Path, PathBuf};
use std::sync::Arc;
use std::time::Duration;
use verif_harness::*;
use wkt::TryFromWkt;

// ---------------------------------------------------------------- case description

#[derive(Clone, Debug, Serialize, Deserialize, PartialEq)]
enum Row {
    /// LINESTRING through these grid points (coordinate = k/8)
    Line(Vec<(i32, i32)>),
    /// LINESTRING through these f32 values, given by their bit patterns (coordinates that need more than
    /// three decimals: k/2^m, 1e-7, 0.1f32 ...); written with Rust's shortest round-trip printing
    Bits(Vec<(u32, u32)>),
    /// a row that parse_wkt_linestring rejects
    Bad(String),
}
#[derive(Clone, Copy, Debug, Serialize, Deserialize, PartialEq)]
enum Fmt {
    Wkt,
    Wkb,
    Json,
    GeoJson,
    EdgeId,
}
const FORMATS: [Fmt; 5] = [Fmt::EdgeId, Fmt::Json, Fmt::GeoJson, Fmt::Wkt, Fmt::Wkb];
impl Fmt {
    fn config_name(&self) -> &'static str {
        match self {
            Fmt::Wkt => "wkt",
            Fmt::Wkb => "wkb",
            Fmt::Json => "json",
            Fmt::GeoJson => "geo_json",
            Fmt::EdgeId => "edge_id",
        }
    }
    fn coq(&self) -> &'static str {
        match self {
            Fmt::Wkt => "Wkt",
            Fmt::Wkb => "Wkb",
            Fmt::Json => "Json",
            Fmt::GeoJson => "GeoJson",
            Fmt::EdgeId => "EdgeId",
        }
    }
    fn geo(&self) -> bool {
        matches!(self, Fmt::Wkt | Fmt::Wkb | Fmt::GeoJson)
    }
}
#[derive(Clone, Debug, Serialize, Deserialize, PartialEq)]
enum Pcfg {
    Traversal(Option<Fmt>, Option<Fmt>),
    Uuid,
    Summary,
}
#[derive(Clone, Debug, Serialize, Deserialize, PartialEq)]
enum Field {
    Missing,
    Bad(Value),
    Nat(u64),
}
#[derive(Clone, Debug, Serialize, Deserialize, PartialEq)]
enum Req {
    NotObject(Value),
    Obj(Field, Field),
}
#[derive(Clone, Debug, Serialize, Deserialize, PartialEq)]
struct Trav {
    e: usize,
    a: i64,
    t: i64,
    s: Vec<i64>,
}
#[derive(Clone, Debug, Serialize, Deserialize, PartialEq)]
struct Branch {
    key: usize,
    tv: usize,
    tr: Trav,
}
#[derive(Clone, Debug, Serialize, Deserialize, PartialEq)]
struct Case {
    rows: Vec<Row>,
    gz: bool,
    /// rows of the identifier file, verbatim (blank / whitespace-only rows are rows)
    uuids: Vec<String>,
    /// identifier file written with CRLF line ends
    #[serde(default)]
    ucrlf: bool,
    /// identifier file ends with a line terminator
    #[serde(default = "yes")]
    utrail: bool,
    req: Req,
    /// None = the search itself failed
    sr: Option<(Vec<Vec<Trav>>, Vec<Vec<Branch>>)>,
    chains: Vec<Vec<Pcfg>>,
}

fn yes() -> bool {
    true
}

// ---------------------------------------------------------------- real objects

/// numbers are opaque labels in the model (Z); a label is the integer itself except for three
/// labels that stand for doubles an integer cannot name: negative zero and +-1e-10
const L_NEG_ZERO: i64 = -1000001;
const L_TINY: i64 = 1000002;
const L_NEG_TINY: i64 = -1000002;
fn number_of(label: i64) -> f64 {
    match label {
        L_NEG_ZERO => -0.0,
        L_TINY => 1e-10,
        L_NEG_TINY => -1e-10,
        k => k as f64,
    }
}
fn edge_traversal(t: &Trav) -> EdgeTraversal {
    EdgeTraversal {
        edge_id: EdgeId(t.e),
        access_cost: Cost::new(number_of(t.a)),
        traversal_cost: Cost::new(number_of(t.t)),
        result_state: t.s.iter().map(|v| StateVar(*v as f64)).collect(),
    }
}

fn state_model() -> Arc<StateModel> {
    Arc::new(
        StateModel::empty()
            .extend(vec![(
                String::from("distance"),
                StateFeature::Distance { distance_unit: DistanceUnit::Kilometers, initial: Distance::new(0.0) },
            )])
            .unwrap(),
    )
}
fn empty_graph() -> Graph {
    Graph { adj: Box::new([]), rev: Box::new([]), edges: Box::new([]), vertices: Box::new([]) }
}
fn search_instance() -> SearchInstance {
    let sm = state_model();
    let cost_model = CostModel::new(
        Arc::new(HashMap::from([(String::from("distance"), 1.0)])),
        Arc::new(HashMap::from([(String::from("distance"), VehicleCostRate::Raw)])),
        Arc::new(HashMap::new()),
        CostAggregation::Sum,
        sm.clone(),
    )
    .unwrap();
    SearchInstance {
        directed_graph: Arc::new(empty_graph()),
        state_model: sm,
        traversal_model: Arc::new(DistanceTraversalModel::new(DistanceUnit::Meters)),
        access_model: Arc::new(NoAccessModel {}),
        cost_model: Arc::new(cost_model),
        frontier_model: Arc::new(NoRestriction {}),
        termination_model: Arc::new(TerminationModel::IterationsLimit { limit: 20 }),
    }
}
fn search_app() -> SearchApp {
    SearchApp::new(
        SearchAlgorithm::Dijkstra,
        empty_graph(),
        state_model(),
        Arc::new(DistanceTraversalService { distance_unit: DistanceUnit::Meters }),
        Arc::new(NoAccessModel {}),
        CostModelService {
            vehicle_rates: Arc::new(HashMap::from([(String::from("distance"), VehicleCostRate::Raw)])),
            network_rates: Arc::new(HashMap::new()),
            weights: Arc::new(HashMap::from([(String::from("distance"), 1.0)])),
            cost_aggregation: CostAggregation::Sum,
            ignore_unknown_weights: true,
        },
        Arc::new(NoRestriction {}),
        TerminationModel::IterationsLimit { limit: 20 },
    )
}

const SEARCH_ERROR: &str = "c20-search-error";
fn search_result(c: &Case) -> Result<(SearchAppResult, SearchInstance), CompassAppError> {
    match &c.sr {
        None => Err(CompassAppError::InternalError(SEARCH_ERROR.to_string())),
        Some((routes, trees)) => {
            let routes = routes.iter().map(|r| r.iter().map(edge_traversal).collect()).collect();
            let trees = trees
                .iter()
                .map(|t| {
                    t.iter()
                        .map(|b| {
                            (
                                VertexId(b.key),
                                SearchTreeBranch { terminal_vertex: VertexId(b.tv), edge_traversal: edge_traversal(&b.tr) },
                            )
                        })
                        .collect::<HashMap<_, _>>()
                })
                .collect();
            Ok((
                SearchAppResult {
                    routes,
                    trees,
                    search_executed_time: String::from("2024-01-01T00:00:00+00:00"),
                    search_runtime: Duration::ZERO,
                    iterations: 0,
                },
                search_instance(),
            ))
        }
    }
}

fn request_json(r: &Req) -> Value {
    match r {
        Req::NotObject(v) => v.clone(),
        Req::Obj(o, d) => {
            let mut m = serde_json::Map::new();
            m.insert("note".into(), json!("c20"));
            for (k, f) in [("origin_vertex", o), ("destination_vertex", d)] {
                match f {
                    Field::Missing => {}
                    Field::Bad(v) => {
                        m.insert(k.into(), v.clone());
                    }
                    Field::Nat(n) => {
                        m.insert(k.into(), json!(n));
                    }
                }
            }
            Value::Object(m)
        }
    }
}

fn coord_text(k: i32) -> String {
    // k/8 in decimal, exact (at most three fractional digits)
    format!("{}", k as f64 / 8.0)
}
fn row_text(r: &Row) -> String {
    match r {
        Row::Bad(s) => s.clone(),
        Row::Line(pts) if pts.is_empty() => "LINESTRING EMPTY".to_string(),
        Row::Bits(pts) if pts.is_empty() => "LINESTRING EMPTY".to_string(),
        Row::Bits(pts) => format!(
            "LINESTRING ({})",
            pts.iter().map(|(x, y)| format!("{} {}", f32::from_bits(*x), f32::from_bits(*y))).collect::<Vec<_>>().join(", ")
        ),
        Row::Line(pts) => format!(
            "LINESTRING ({})",
            pts.iter().map(|(x, y)| format!("{} {}", coord_text(*x), coord_text(*y))).collect::<Vec<_>>().join(", ")
        ),
    }
}
fn write_bytes(path: &Path, bytes: &[u8], gz: bool) {
    if gz {
        let f = std::fs::File::create(path).unwrap();
        let mut e = GzEncoder::new(f, Compression::default());
        e.write_all(bytes).unwrap();
        e.finish().unwrap();
    } else {
        std::fs::write(path, bytes).unwrap();
    }
}
fn write_table(path: &Path, lines: &[String], gz: bool) {
    let mut text = lines.join("\n");
    if !lines.is_empty() {
        text.push('\n');
    }
    if gz {
        let f = std::fs::File::create(path).unwrap();
        let mut e = GzEncoder::new(f, Compression::default());
        e.write_all(text.as_bytes()).unwrap();
        e.finish().unwrap();
    } else {
        std::fs::write(path, text).unwrap();
    }
}

// ---------------------------------------------------------------- re-parsing the response

/// the integer label of a stored f32 coordinate (coordinates are opaque in the model): the grid index k
/// when the value is k/8, otherwise 10^12 + the f32 bit pattern, so equal labels = equal f32 bits
fn coord_label(v: f32) -> i64 {
    let k = v as f64 * 8.0;
    if k.fract() == 0.0 && k.abs() < 1e9 {
        k as i64
    } else {
        1_000_000_000_000 + v.to_bits() as i64
    }
}
/// label of a re-parsed ordinate: it must be exactly an f32 value (the stored one, bit for bit)
fn grid(x: f64) -> String {
    if (x as f32) as f64 == x {
        format!("{}", coord_label(x as f32))
    } else {
        format!("?{}", x)
    }
}
fn int(v: &Value) -> String {
    match v.as_f64() {
        Some(x) if x == 0.0 && x.is_sign_negative() => format!("{}", L_NEG_ZERO),
        Some(x) if x == 1e-10 => format!("{}", L_TINY),
        Some(x) if x == -1e-10 => format!("{}", L_NEG_TINY),
        Some(x) if x.fract() == 0.0 && x.abs() < 1e15 => format!("{}", x as i64),
        _ => format!("?{}", v),
    }
}
fn show_pts(pts: &[(f64, f64)]) -> String {
    show_list(pts, |(x, y)| format!("{}:{}", grid(*x), grid(*y)))
}
fn show_trav_json(v: &Value) -> String {
    let st: Vec<String> = v["result_state"].as_array().map(|a| a.iter().map(int).collect()).unwrap_or(vec!["?".into()]);
    format!(
        "{}/{}/{}/[{}]",
        v["edge_id"].as_u64().map(|x| x.to_string()).unwrap_or(format!("?{}", v["edge_id"])),
        int(&v["access_cost"]),
        int(&v["traversal_cost"]),
        st.join(",")
    )
}
fn positions(ps: &[Vec<f64>]) -> Vec<(f64, f64)> {
    ps.iter().map(|p| (p[0], p[1])).collect()
}
/// features of a GeoJSON FeatureCollection, each printed as id@geometry@properties
fn show_features(v: &Value) -> Result<Vec<String>, String> {
    let gj = geojson::GeoJson::from_json_value(v.clone()).map_err(|e| format!("geojson:{}", e))?;
    let fc = match gj {
        geojson::GeoJson::FeatureCollection(fc) => fc,
        _ => return Err("not-a-feature-collection".into()),
    };
    fc.features
        .iter()
        .map(|f| {
            let id = match &f.id {
                Some(geojson::feature::Id::Number(n)) => n.as_u64().map(|x| x.to_string()).unwrap_or(format!("?{}", n)),
                other => format!("?{:?}", other),
            };
            let geom = match f.geometry.as_ref().map(|g| &g.value) {
                Some(geojson::Value::LineString(ps)) => show_pts(&positions(ps)),
                other => format!("?{:?}", other),
            };
            let props = match &f.properties {
                Some(m) => show_trav_json(&Value::Object(m.clone())),
                None => "?noprops".to_string(),
            };
            Ok(format!("{}@{}@{}", id, geom, props))
        })
        .collect()
}
fn unhex(s: &str) -> Result<Vec<u8>, String> {
    if s.len() % 2 != 0 {
        return Err("odd-hex".into());
    }
    (0..s.len() / 2).map(|i| u8::from_str_radix(&s[2 * i..2 * i + 2], 16).map_err(|e| e.to_string())).collect()
}
/// WKT written from f32 is read back as f32: Rust prints the shortest text that re-parses to the same f32
fn ls_pts32(l: &geo::LineString<f32>) -> Vec<(f64, f64)> {
    l.0.iter().map(|c| (c.x as f64, c.y as f64)).collect()
}
fn ls_pts(l: &geo::LineString<f64>) -> Vec<(f64, f64)> {
    l.0.iter().map(|c| (c.x, c.y)).collect()
}
fn wkb_geom(v: &Value) -> Result<geo::Geometry<f64>, String> {
    let s = v.as_str().ok_or("wkb-not-a-string")?;
    let bytes = unhex(s)?;
    let mut cur = std::io::Cursor::new(bytes);
    wkb::wkb_to_geom(&mut cur).map_err(|e| format!("wkb:{:?}", e))
}

fn show_route_path(f: Fmt, v: &Value) -> String {
    let r: Result<String, String> = (|| match f {
        Fmt::EdgeId => {
            let a = v.as_array().ok_or("ids-not-array")?;
            Ok(format!("ids{}", show_list(a, |x| x.as_u64().map(|n| n.to_string()).unwrap_or(format!("?{}", x)))))
        }
        Fmt::Json => {
            let a = v.as_array().ok_or("recs-not-array")?;
            Ok(format!("recs{}", show_list(a, show_trav_json)))
        }
        Fmt::GeoJson => Ok(format!("feats[{}]", show_features(v)?.join(","))),
        Fmt::Wkt => {
            let s = v.as_str().ok_or("wkt-not-a-string")?;
            let l = geo::LineString::<f32>::try_from_wkt_str(s).map_err(|e| format!("wkt:{}", e))?;
            Ok(format!("wkt{}", show_pts(&ls_pts32(&l))))
        }
        Fmt::Wkb => match wkb_geom(v)? {
            geo::Geometry::LineString(l) => Ok(format!("wkb{}", show_pts(&ls_pts(&l)))),
            other => Err(format!("wkb-not-linestring:{:?}", other)),
        },
    })();
    r.unwrap_or_else(|e| format!("?{}", e))
}
fn show_route_out(f: Fmt, v: &Value) -> String {
    let last: Vec<String> = match v.get("traversal_summary").and_then(|s| s.as_object()) {
        Some(m) => m.get("distance").map(|d| vec![int(d)]).unwrap_or_default(),
        None => vec!["?".into()],
    };
    for k in ["state_model", "cost_model", "cost"] {
        if v.get(k).is_none() {
            return format!("?missing-{}", k);
        }
    }
    format!("{{last=[{}];path={}}}", last.join(","), v.get("path").map(|p| show_route_path(f, p)).unwrap_or("?nopath".into()))
}
fn bag(mut xs: Vec<String>) -> String {
    xs.sort_by(|a, b| a.as_bytes().cmp(b.as_bytes()));
    format!("[{}]", xs.join(","))
}
fn show_tree_out(f: Fmt, v: &Value) -> String {
    let r: Result<String, String> = (|| match f {
        Fmt::EdgeId => {
            let a = v.as_array().ok_or("ids-not-array")?;
            Ok(format!("ids{}", bag(a.iter().map(|x| x.as_u64().map(|n| n.to_string()).unwrap_or(format!("?{}", x))).collect())))
        }
        Fmt::Json => {
            let a = v.as_array().ok_or("recs-not-array")?;
            Ok(format!(
                "recs{}",
                bag(a
                    .iter()
                    .map(|b| {
                        format!(
                            "{}>{}",
                            b["terminal_vertex"].as_u64().map(|n| n.to_string()).unwrap_or("?".into()),
                            show_trav_json(&b["edge_traversal"])
                        )
                    })
                    .collect())
            ))
        }
        Fmt::GeoJson => Ok(format!("feats{}", bag(show_features(v)?))),
        Fmt::Wkt => {
            let s = v.as_str().ok_or("wkt-not-a-string")?;
            let m = geo::MultiLineString::<f32>::try_from_wkt_str(s).map_err(|e| format!("wkt:{}", e))?;
            Ok(format!("wkt{}", bag(m.0.iter().map(|l| show_pts(&ls_pts32(l))).collect())))
        }
        Fmt::Wkb => match wkb_geom(v)? {
            geo::Geometry::MultiLineString(m) => Ok(format!("wkb{}", bag(m.0.iter().map(|l| show_pts(&ls_pts(l))).collect()))),
            other => Err(format!("wkb-not-multilinestring:{:?}", other)),
        },
    })();
    r.unwrap_or_else(|e| format!("?{}", e))
}
/// number of entries of one tree output, read back from the encoded value
fn tree_entry_count(f: Fmt, v: &Value) -> Result<usize, String> {
    match f {
        Fmt::EdgeId | Fmt::Json => Ok(v.as_array().ok_or("not-array")?.len()),
        Fmt::GeoJson => Ok(show_features(v)?.len()),
        Fmt::Wkt => {
            let s = v.as_str().ok_or("wkt-not-a-string")?;
            Ok(geo::MultiLineString::<f64>::try_from_wkt_str(s).map_err(|e| format!("wkt:{}", e))?.0.len())
        }
        Fmt::Wkb => match wkb_geom(v)? {
            geo::Geometry::MultiLineString(m) => Ok(m.0.len()),
            other => Err(format!("wkb-not-multilinestring:{:?}", other)),
        },
    }
}
/// entries per tree of a response's `tree` value ("E" when the response is an error)
fn tree_counts(f: Fmt, resp: &Value) -> String {
    if resp.get("error").is_some() {
        return "E".into();
    }
    let one = |v: &Value| tree_entry_count(f, v).map(|n| n.to_string()).unwrap_or_else(|e| format!("?{}", e));
    match resp.get("tree") {
        None => "?no-tree".into(),
        Some(Value::Null) => "[]".into(),
        Some(v) if single_tree(f, v) => format!("[{}]", one(v)),
        Some(v) => show_list(v.as_array().unwrap(), one),
    }
}
/// is the value at the tree key one tree output (true) or an array of tree outputs (false)?
fn single_tree(f: Fmt, v: &Value) -> bool {
    match (f, v) {
        (Fmt::EdgeId, Value::Array(a)) | (Fmt::Json, Value::Array(a)) => a.first().map(|x| !x.is_array()).unwrap_or(true),
        (_, Value::Array(_)) => false,
        _ => true,
    }
}
fn classify_error(msg: &str) -> String {
    if msg.contains(SEARCH_ERROR) {
        "search".into()
    } else if msg.contains("geometry table missing edge id") {
        "missing_geometry".into()
    } else if msg.contains("cannot find result route state when route is empty") {
        "empty_route".into()
    } else if msg.contains("UUID lookup table missing vertex index") {
        "missing_uuid".into()
    } else if msg.contains("required query field") {
        "bad_request".into()
    } else if msg.contains("out of bounds, not found in traversal state") {
        "cost".into()
    } else {
        format!("other:{}", msg.replace(' ', "_"))
    }
}
/// canonical form of a response; the formats only say how to read the values at `route` / `tree`
fn show_response(resp: &Value, rf: Option<Fmt>, tf: Option<Fmt>) -> String {
    if let Some(e) = resp.get("error") {
        return format!("ERR({})", classify_error(e.as_str().unwrap_or("?")));
    }
    if resp.get("request").is_none() {
        return "?no-request".into();
    }
    let route = match (resp.get("route"), rf) {
        (None, _) => "-".to_string(),
        (Some(_), None) => "?unconfigured-route".to_string(),
        (Some(Value::Null), _) => "null".to_string(),
        (Some(Value::Array(a)), Some(f)) => format!("many{}", show_list(a, |r| show_route_out(f, r))),
        (Some(v), Some(f)) => show_route_out(f, v),
    };
    let tree = match (resp.get("tree"), tf) {
        (None, _) => "-".to_string(),
        (Some(_), None) => "?unconfigured-tree".to_string(),
        (Some(Value::Null), _) => "null".to_string(),
        (Some(v), Some(f)) if single_tree(f, v) => show_tree_out(f, v),
        (Some(v), Some(f)) => format!("many{}", show_list(v.as_array().unwrap(), |t| show_tree_out(f, t))),
    };
    let s = |k: &str| resp.get(k).map(|v| v.as_str().map(|x| format!("'{}'", x)).unwrap_or(format!("?{}", v))).unwrap_or("-".into());
    let n = |k: &str| resp.get(k).map(|v| v.as_u64().map(|x| x.to_string()).unwrap_or(format!("?{}", v))).unwrap_or("-".into());
    format!(
        "OK route={} tree={} ou={} du={} edges={} tsize={}",
        route,
        tree,
        s("origin_vertex_uuid"),
        s("destination_vertex_uuid"),
        n("route_edges"),
        n("tree_size_count")
    )
}

// ---------------------------------------------------------------- running one case on the real code

fn build_plugin(p: &Pcfg, geom_file: &Path, uuid_file: &Path) -> Result<Arc<dyn OutputPlugin>, String> {
    match p {
        Pcfg::Traversal(rf, tf) => {
            let mut cfg = json!({"type": "traversal", "geometry_input_file": geom_file.to_str().unwrap()});
            if let Some(f) = rf {
                cfg["route"] = json!(f.config_name());
            }
            if let Some(f) = tf {
                cfg["tree"] = json!(f.config_name());
            }
            TraversalPluginBuilder {}.build(&cfg).map_err(|e| e.to_string())
        }
        Pcfg::Uuid => UUIDOutputPluginBuilder {}
            .build(&json!({"type": "uuid", "uuid_input_file": uuid_file.to_str().unwrap()}))
            .map_err(|e| e.to_string()),
        Pcfg::Summary => SummaryOutputPluginBuilder {}.build(&json!({"type": "summary"})).map_err(|e| e.to_string()),
    }
}
fn chain_formats(chain: &[Pcfg]) -> (Option<Fmt>, Option<Fmt>) {
    let (mut rf, mut tf) = (None, None);
    for p in chain {
        if let Pcfg::Traversal(r, t) = p {
            rf = r.or(rf);
            tf = t.or(tf);
        }
    }
    (rf, tf)
}
fn errpass_chain() -> Vec<Pcfg> {
    vec![Pcfg::Traversal(Some(Fmt::Wkt), Some(Fmt::Wkt)), Pcfg::Uuid, Pcfg::Summary]
}

fn run_impl(c: &Case, dir: &Path, id: usize) -> String {
    let files = dir.join("files");
    std::fs::create_dir_all(&files).unwrap();
    let geom_file: PathBuf = files.join(format!("geometry_{}.txt{}", id, if c.gz && id % 2 == 0 { ".gz" } else { "" }));
    let uuid_file: PathBuf = files.join(format!("uuid_{}.txt", id));
    write_table(&geom_file, &c.rows.iter().map(row_text).collect::<Vec<_>>(), c.gz);
    {
        let eol = if c.ucrlf { "\r\n" } else { "\n" };
        let mut text = c.uuids.join(eol);
        if c.utrail && !c.uuids.is_empty() {
            text.push_str(eol);
        }
        write_bytes(&uuid_file, text.as_bytes(), c.gz);
    }
    let app = search_app();
    let req = request_json(&c.req);
    let mut sections = vec![];
    for chain in &c.chains {
        let plugins: Result<Vec<_>, String> = chain.iter().map(|p| build_plugin(p, &geom_file, &uuid_file)).collect();
        let section = match plugins {
            Err(_) => "BUILDERR".to_string(),
            Ok(ps) => {
                let (rf, tf) = chain_formats(chain);
                let r = catch(AssertUnwindSafe(|| apply_output_processing(&req, search_result(c), &app, &ps)));
                match r {
                    Ok(resp) => show_response(&resp, rf, tf),
                    Err(_) => "PANIC".to_string(),
                }
            }
        };
        sections.push(section);
    }
    // every plugin called directly with a failed search: Ok(()) and the output untouched
    let chain = errpass_chain();
    let plugins: Result<Vec<_>, String> = chain.iter().map(|p| build_plugin(p, &geom_file, &uuid_file)).collect();
    sections.push(match plugins {
        Err(_) => "BUILDERR".to_string(),
        Ok(ps) => {
            let r = catch(AssertUnwindSafe(|| {
                let failed: Result<(SearchAppResult, SearchInstance), CompassAppError> =
                    Err(CompassAppError::InternalError(SEARCH_ERROR.to_string()));
                let mut out = json!({ "request": req.clone() });
                for p in &ps {
                    if let Err(e) = p.process(&mut out, &failed) {
                        return format!("ERR({})", classify_error(&e.to_string()));
                    }
                }
                if out != json!({ "request": req.clone() }) {
                    return format!("?touched:{}", out);
                }
                show_response(&out, None, None)
            }));
            r.unwrap_or_else(|_| "PANIC".to_string())
        }
    });
    // every format asked for the trees alone: the number of entries per tree, format by format
    let counts: Vec<String> = FORMATS
        .iter()
        .map(|f| {
            let txt = match build_plugin(&Pcfg::Traversal(None, Some(*f)), &geom_file, &uuid_file) {
                Err(_) => "E".to_string(),
                Ok(p) => match catch(AssertUnwindSafe(|| apply_output_processing(&req, search_result(c), &app, &[p]))) {
                    Ok(resp) => tree_counts(*f, &resp),
                    Err(_) => "PANIC".to_string(),
                },
            };
            format!("{}:{}", f.config_name(), txt)
        })
        .collect();
    sections.push(format!("tcount {}", counts.join(" ")));
    let _ = std::fs::remove_file(&geom_file);
    let _ = std::fs::remove_file(&uuid_file);
    sections.join(" | ")
}

// ---------------------------------------------------------------- long routes / big trees
// Routes and trees of 1023 .. 5000 edges, generated by formula from (kind, n) here and in
// coq/Model/OutputRun.v (long_edge / long_geom / long_trav / long_tree).  Every format's content is
// compared through its length and a digest of its flattened integer sequence (order-sensitive for
// routes, an order-insensitive sum of entry digests for trees); on the implementation side the formats
// of the same route are also compared with each other, reporting the first index where they disagree.

#[derive(Clone, Debug, Serialize, Deserialize, PartialEq)]
struct LongCase {
    /// 0 = chain (edge i at position i), 1 = zig-zag (0, n-1, 1, n-2, ..), 2 = chain with one edge without a row
    kind: usize,
    n: usize,
    tree: bool,
    /// how often the implementation renders the case (order defects of parallel rendering are schedule dependent)
    reps: usize,
}
fn long_edge(kind: usize, n: usize, i: usize) -> usize {
    match kind {
        0 => i,
        1 => {
            if i % 2 == 0 {
                i / 2
            } else {
                n - 1 - i / 2
            }
        }
        _ => {
            if i == n - n / 5 {
                n + 3
            } else {
                i
            }
        }
    }
}
fn long_geom(e: usize) -> Vec<(i32, i32)> {
    let z = e as i32;
    let mut v = vec![(z, z % 7), (z + 1, (z + 3) % 5)];
    if e % 3 == 0 {
        v.push((z + 2, 1));
    }
    v
}
fn long_trav(kind: usize, n: usize, i: usize) -> Trav {
    Trav { e: long_edge(kind, n, i), a: (i % 4) as i64, t: (10 + i % 13) as i64, s: vec![i as i64] }
}
fn long_as_case(l: &LongCase) -> Case {
    let route: Vec<Trav> = (0..l.n).map(|i| long_trav(l.kind, l.n, i)).collect();
    let tree: Vec<Branch> = (0..l.n).map(|i| Branch { key: i + 1, tv: i / 2, tr: long_trav(l.kind, l.n, i) }).collect();
    let mut c = base_case((0..l.n).map(|e| Row::Line(long_geom(e))).collect(), vec![route], if l.tree { vec![tree] } else { vec![] });
    c.req = simple_req(0, 0);
    c.chains = vec![];
    c
}

const MASK63: u64 = (1u64 << 63) - 1;
fn dstep(h: u64, x: i64) -> u64 {
    h.wrapping_mul(1000003).wrapping_add(x as u64) & MASK63
}
fn dig(l: &[i64]) -> u64 {
    l.iter().fold(7u64, |h, x| dstep(h, *x))
}
fn msum(ls: &[Vec<i64>]) -> u64 {
    ls.iter().fold(0u64, |a, l| a.wrapping_add(dig(l)) & MASK63)
}
fn num_label(v: &Value) -> Result<i64, String> {
    int(v).parse::<i64>().map_err(|_| format!("not-a-number-label:{}", v))
}
fn ord_label(x: f64) -> Result<i64, String> {
    grid(x).parse::<i64>().map_err(|_| format!("not-an-f32:{}", x))
}
fn flat_pts(pts: &[(f64, f64)]) -> Result<Vec<i64>, String> {
    let mut v = Vec::with_capacity(2 * pts.len());
    for (x, y) in pts {
        v.push(ord_label(*x)?);
        v.push(ord_label(*y)?);
    }
    Ok(v)
}
fn flat_trav_json(v: &Value) -> Result<Vec<i64>, String> {
    let st = v["result_state"].as_array().ok_or("no-result-state")?;
    let mut out = vec![v["edge_id"].as_u64().ok_or("no-edge-id")? as i64, num_label(&v["access_cost"])?, num_label(&v["traversal_cost"])?, st.len() as i64];
    for x in st {
        out.push(num_label(x)?);
    }
    Ok(out)
}
/// (id, flattened points, flattened properties) of every feature, in collection order
fn parse_features(v: &Value) -> Result<Vec<(i64, Vec<i64>, Vec<i64>)>, String> {
    let gj = geojson::GeoJson::from_json_value(v.clone()).map_err(|e| format!("geojson:{}", e))?;
    let fc = match gj {
        geojson::GeoJson::FeatureCollection(fc) => fc,
        _ => return Err("not-a-feature-collection".into()),
    };
    fc.features
        .iter()
        .map(|f| {
            let id = match &f.id {
                Some(geojson::feature::Id::Number(n)) => n.as_u64().ok_or("id-not-u64")? as i64,
                _ => return Err("no-id".to_string()),
            };
            let pts = match f.geometry.as_ref().map(|g| &g.value) {
                Some(geojson::Value::LineString(ps)) => flat_pts(&positions(ps))?,
                _ => return Err("not-a-linestring".to_string()),
            };
            let props = flat_trav_json(&Value::Object(f.properties.clone().ok_or("no-properties")?))?;
            Ok((id, pts, props))
        })
        .collect()
}
fn feat_flat(f: &(i64, Vec<i64>, Vec<i64>)) -> Vec<i64> {
    let mut v = vec![f.0, (f.1.len() / 2) as i64];
    v.extend(&f.1);
    v.extend(&f.2);
    v
}
/// what one format says about the route: ids / records / flattened geometry, whichever it carries
#[derive(Default)]
struct RouteView {
    ids: Option<Vec<i64>>,
    recs: Option<Vec<Vec<i64>>>,
    geom: Option<Vec<i64>>,
}
fn long_route_digest(f: Fmt, v: &Value, view: &mut RouteView) -> Result<String, String> {
    match f {
        Fmt::EdgeId => {
            let ids: Vec<i64> = v.as_array().ok_or("ids-not-array")?.iter().map(|x| x.as_u64().map(|n| n as i64).ok_or("id-not-u64".to_string())).collect::<Result<_, _>>()?;
            let d = format!("{}:{}", ids.len(), dig(&ids));
            view.ids = Some(ids);
            Ok(d)
        }
        Fmt::Json => {
            let recs: Vec<Vec<i64>> = v.as_array().ok_or("recs-not-array")?.iter().map(flat_trav_json).collect::<Result<_, _>>()?;
            let d = format!("{}:{}", recs.len(), dig(&recs.concat()));
            view.ids = Some(recs.iter().map(|r| r[0]).collect());
            view.recs = Some(recs);
            Ok(d)
        }
        Fmt::GeoJson => {
            let fs = parse_features(v)?;
            let flat: Vec<i64> = fs.iter().flat_map(|f| feat_flat(f)).collect();
            let d = format!("{}:{}", fs.len(), dig(&flat));
            view.ids = Some(fs.iter().map(|f| f.0).collect());
            view.recs = Some(fs.iter().map(|f| f.2.clone()).collect());
            view.geom = Some(fs.iter().flat_map(|f| f.1.clone()).collect());
            Ok(d)
        }
        Fmt::Wkt => {
            let s = v.as_str().ok_or("wkt-not-a-string")?;
            let l = geo::LineString::<f32>::try_from_wkt_str(s).map_err(|e| format!("wkt:{}", e))?;
            let g = flat_pts(&ls_pts32(&l))?;
            let d = format!("{}:{}", g.len() / 2, dig(&g));
            view.geom = Some(g);
            Ok(d)
        }
        Fmt::Wkb => match wkb_geom(v)? {
            geo::Geometry::LineString(l) => {
                let g = flat_pts(&ls_pts(&l))?;
                let d = format!("{}:{}", g.len() / 2, dig(&g));
                view.geom = Some(g);
                Ok(d)
            }
            other => Err(format!("wkb-not-linestring:{:?}", other)),
        },
    }
}
fn long_tree_digest(f: Fmt, v: &Value) -> Result<String, String> {
    let entries: Vec<Vec<i64>> = match f {
        Fmt::EdgeId => v.as_array().ok_or("ids-not-array")?.iter().map(|x| x.as_u64().map(|n| vec![n as i64]).ok_or("id-not-u64".to_string())).collect::<Result<_, _>>()?,
        Fmt::Json => v
            .as_array()
            .ok_or("recs-not-array")?
            .iter()
            .map(|b| {
                let mut e = vec![b["terminal_vertex"].as_u64().ok_or("no-terminal-vertex")? as i64];
                e.extend(flat_trav_json(&b["edge_traversal"])?);
                Ok(e)
            })
            .collect::<Result<_, String>>()?,
        Fmt::GeoJson => parse_features(v)?.iter().map(feat_flat).collect(),
        Fmt::Wkt => {
            let s = v.as_str().ok_or("wkt-not-a-string")?;
            let m = geo::MultiLineString::<f32>::try_from_wkt_str(s).map_err(|e| format!("wkt:{}", e))?;
            m.0.iter()
                .map(|l| {
                    let p = flat_pts(&ls_pts32(l))?;
                    let mut e = vec![(p.len() / 2) as i64];
                    e.extend(p);
                    Ok(e)
                })
                .collect::<Result<_, String>>()?
        }
        Fmt::Wkb => match wkb_geom(v)? {
            geo::Geometry::MultiLineString(m) => m
                .0
                .iter()
                .map(|l| {
                    let p = flat_pts(&ls_pts(l))?;
                    let mut e = vec![(p.len() / 2) as i64];
                    e.extend(p);
                    Ok(e)
                })
                .collect::<Result<_, String>>()?,
            other => return Err(format!("wkb-not-multilinestring:{:?}", other)),
        },
    };
    Ok(format!("{}:{}", entries.len(), msum(&entries)))
}
fn first_diff<T: PartialEq>(a: &[T], b: &[T]) -> Option<usize> {
    if a == b {
        None
    } else {
        Some(a.iter().zip(b.iter()).position(|(x, y)| x != y).unwrap_or(a.len().min(b.len())))
    }
}
fn run_long(l: &LongCase, dir: &Path, id: usize) -> String {
    let c = long_as_case(l);
    let files = dir.join("files");
    std::fs::create_dir_all(&files).unwrap();
    let geom_file: PathBuf = files.join(format!("geometry_{}.txt", id));
    let uuid_file: PathBuf = files.join(format!("uuid_{}.txt", id));
    write_table(&geom_file, &c.rows.iter().map(row_text).collect::<Vec<_>>(), false);
    write_table(&uuid_file, &c.uuids, false);
    let app = search_app();
    let req = request_json(&c.req);
    let mut reps = vec![];
    for _ in 0..l.reps.max(1) {
        let mut parts = vec![];
        let mut views: Vec<(Fmt, RouteView)> = vec![];
        for f in FORMATS.iter() {
            let txt = match build_plugin(&Pcfg::Traversal(Some(*f), Some(*f)), &geom_file, &uuid_file) {
                Err(_) => "BUILDERR".to_string(),
                Ok(p) => match catch(AssertUnwindSafe(|| apply_output_processing(&req, search_result(&c), &app, &[p]))) {
                    Err(_) => "PANIC".to_string(),
                    Ok(resp) => {
                        if let Some(e) = resp.get("error") {
                            format!("ERR({})", classify_error(e.as_str().unwrap_or("?")))
                        } else {
                            let mut view = RouteView::default();
                            let r = match resp.get("route").and_then(|r| r.get("path")) {
                                Some(p) => long_route_digest(*f, p, &mut view).unwrap_or_else(|e| format!("?{}", e)),
                                None => "?no-route-path".to_string(),
                            };
                            let t = match resp.get("tree") {
                                None => "-".to_string(),
                                Some(Value::Null) => "null".to_string(),
                                Some(v) => long_tree_digest(*f, v).unwrap_or_else(|e| format!("?{}", e)),
                            };
                            views.push((*f, view));
                            format!("r={} t={}", r, t)
                        }
                    }
                },
            };
            parts.push(format!("{} {}", f.config_name(), txt));
        }
        // cross-format agreement of the same route: ids, records, geometry
        let mut disagreements = vec![];
        macro_rules! agree {
            ($field:ident, $name:expr) => {
                let have: Vec<(Fmt, &_)> = views.iter().filter_map(|(f, v)| v.$field.as_ref().map(|x| (*f, x))).collect();
                if let Some((f0, first)) = have.first() {
                    for (f, x) in have.iter().skip(1) {
                        if let Some(i) = first_diff(first, x) {
                            disagreements.push(format!("{}:{}!={}@{}", $name, f0.config_name(), f.config_name(), i));
                        }
                    }
                }
            };
        }
        agree!(ids, "ids");
        agree!(recs, "recs");
        agree!(geom, "geom");
        parts.push(if disagreements.is_empty() { "agree=T".to_string() } else { format!("agree=F({})", disagreements.join(",")) });
        reps.push(parts.join("; "));
    }
    let _ = std::fs::remove_file(&geom_file);
    let _ = std::fs::remove_file(&uuid_file);
    reps.join(" || ")
}
fn add_long(st: &mut Stream, l: LongCase, family: &str) {
    let id = st.next_id();
    let args = format!("{} {} {} {}", coq_nat(l.kind), coq_nat(l.n), coq_bool(l.tree), coq_nat(l.reps.max(1)));
    let terms = vec![format!("line_m_long {} {}", id, args), format!("line_s_long {} {}", id, args)];
    let out = run_long(&l, &st.dir.clone(), id);
    st.count(&format!("family:{}", family));
    st.count(&format!("long_route_edges:{}", l.n));
    st.count(&format!("long_kind:{}", ["chain", "zigzag", "chain_one_missing"][l.kind.min(2)]));
    if l.tree {
        st.count(&format!("long_tree_branches:{}", l.n));
    }
    st.count(&format!("rayon_threads:{}", rayon::current_num_threads()));
    st.count("nontrivial");
    st.mark_nontrivial(&format!("{:?}", l));
    let desc = json!({"id": id, "family": family, "long": serde_json::to_value(&l).unwrap()});
    st.case(terms, vec![format!("I {} {}", id, out)], desc);
}
fn long_cases(thorough: bool, rng: &mut Rng) -> Vec<LongCase> {
    let mut v = vec![
        LongCase { kind: 1, n: 1023, tree: false, reps: 3 },
        LongCase { kind: 1, n: 1024, tree: false, reps: 3 },
        LongCase { kind: 0, n: 1024, tree: true, reps: 3 },
        LongCase { kind: 0, n: 1025, tree: false, reps: 3 },
        LongCase { kind: 1, n: 2048, tree: true, reps: 3 },
        LongCase { kind: 2, n: 1500, tree: false, reps: 3 },
        LongCase { kind: 0, n: 5000, tree: false, reps: 3 },
    ];
    if thorough {
        for n in [1023usize, 1024, 1025, 2048, 5000] {
            for kind in 0..2 {
                for tree in [false, true] {
                    let l = LongCase { kind, n, tree: tree && n <= 2048, reps: 3 };
                    if !v.contains(&l) {
                        v.push(l);
                    }
                }
            }
        }
        for _ in 0..12 {
            v.push(LongCase { kind: rng.below(3) as usize, n: rng.range(1024, 4000) as usize, tree: rng.chance(1, 3), reps: 3 });
        }
    }
    v
}

// ---------------------------------------------------------------- sequences (state carried between builds / calls)
// Several geometry tables are written one after the other to the SAME path; after every write one plugin
// per format is built through TraversalPluginBuilder::build and all of them are kept alive; then several
// calls with the same request (same origin / destination) but different routes are made, each on the
// plugins of one build, in order.  Call k under format f must render route k over the table of its build.
#[derive(Clone, Debug, Serialize, Deserialize, PartialEq)]
struct SeqCase {
    tables: Vec<Vec<Row>>,
    /// (index of the build whose plugins answer, the route of that response)
    calls: Vec<(usize, Vec<Trav>)>,
    o: u64,
    d: u64,
}
fn run_seq(q: &SeqCase, dir: &Path, id: usize) -> String {
    let files = dir.join("files");
    std::fs::create_dir_all(&files).unwrap();
    let geom_file: PathBuf = files.join(format!("geometry_seq_{}.txt", id));
    let uuid_file: PathBuf = files.join(format!("uuid_seq_{}.txt", id));
    write_table(&uuid_file, &["a".to_string()], false);
    let app = search_app();
    let req = request_json(&simple_req(q.o, q.d));
    // builds[b][f]: kept alive until the end of the case
    let mut builds: Vec<Vec<Result<Arc<dyn OutputPlugin>, String>>> = vec![];
    for t in &q.tables {
        write_table(&geom_file, &t.iter().map(row_text).collect::<Vec<_>>(), false);
        builds.push(FORMATS.iter().map(|f| build_plugin(&Pcfg::Traversal(Some(*f), None), &geom_file, &uuid_file)).collect());
    }
    let mut sections = vec![];
    for (b, route) in &q.calls {
        let c = Case {
            rows: vec![],
            gz: false,
            uuids: vec![],
            ucrlf: false,
            utrail: true,
            req: simple_req(q.o, q.d),
            sr: Some((vec![route.clone()], vec![])),
            chains: vec![],
        };
        for (fi, f) in FORMATS.iter().enumerate() {
            let section = match builds.get(*b).map(|ps| &ps[fi]) {
                None | Some(Err(_)) => "BUILDERR".to_string(),
                Some(Ok(p)) => match catch(AssertUnwindSafe(|| apply_output_processing(&req, search_result(&c), &app, &[p.clone()]))) {
                    Ok(resp) => show_response(&resp, Some(*f), None),
                    Err(_) => "PANIC".to_string(),
                },
            };
            sections.push(section);
        }
    }
    drop(builds);
    let _ = std::fs::remove_file(&geom_file);
    let _ = std::fs::remove_file(&uuid_file);
    sections.join(" | ")
}
fn coq_rows(rows: &[Row]) -> String {
    coq_list(rows, |r| match r {
        Row::Bad(_) => "None".to_string(),
        Row::Line(pts) => format!("(Some {})", coq_list(pts, |(x, y)| format!("({}, {})", coq_z(*x as i128), coq_z(*y as i128)))),
        Row::Bits(pts) => format!(
            "(Some {})",
            coq_list(pts, |(x, y)| format!("({}, {})", coq_z(coord_label(f32::from_bits(*x)) as i128), coq_z(coord_label(f32::from_bits(*y)) as i128)))
        ),
    })
}
fn add_seq(st: &mut Stream, q: SeqCase, family: &str) {
    let id = st.next_id();
    let args = format!(
        "{} (ReqObj (FNat {}) (FNat {})) {}",
        coq_list(&q.tables, |t| coq_rows(t)),
        coq_nat(q.o as usize),
        coq_nat(q.d as usize),
        coq_list(&q.calls, |(b, r)| format!("({}, {})", coq_nat(*b), coq_list(r, coq_trav)))
    );
    let terms = vec![format!("line_m_seq {} {}", id, args), format!("line_s_seq {} {}", id, args)];
    let out = run_seq(&q, &st.dir.clone(), id);
    st.count(&format!("family:{}", family));
    st.count(&format!("seq_builds_on_one_path:{}", q.tables.len()));
    st.count(&format!("seq_calls:{}", q.calls.len()));
    let mut per_build: HashMap<usize, Vec<&Vec<Trav>>> = HashMap::new();
    for (b, r) in &q.calls {
        per_build.entry(*b).or_default().push(r);
    }
    if per_build.values().any(|rs| rs.iter().enumerate().any(|(i, r)| rs[..i].iter().any(|p| p.len() == r.len() && p != r))) {
        st.count("seq_same_od_equal_length_different_route_on_one_plugin");
    }
    if q.tables.len() >= 2 && q.tables.windows(2).any(|w| w[0] != w[1]) {
        st.count("seq_path_rewritten_between_builds");
    }
    st.count("nontrivial");
    st.mark_nontrivial(&serde_json::to_string(&q).unwrap());
    let desc = json!({"id": id, "family": family, "seq": serde_json::to_value(&q).unwrap()});
    st.case(terms, vec![format!("I {} {}", id, out)], desc);
}
/// a diamond 0 -> {1, 2} -> 3 with edges e0: 0-1, e1: 1-3, e2: 0-2, e3: 2-3, plus a direct edge e4: 0-3
fn diamond_rows(shift: i32) -> Vec<Row> {
    vec![
        Row::Line(vec![(0 + shift, 0), (8 + shift, 8)]),
        Row::Line(vec![(8 + shift, 8), (12 + shift, 6), (16 + shift, 0)]),
        Row::Line(vec![(0 + shift, 0), (8 + shift, -8)]),
        Row::Line(vec![(8 + shift, -8), (16 + shift, 0)]),
        Row::Line(vec![(0 + shift, 0), (16 + shift, 0)]),
    ]
}
fn seq_boundary_cases(st: &mut Stream) {
    let via = |ids: &[usize], k: usize| -> Vec<Trav> { ids.iter().enumerate().map(|(i, e)| trav_det(*e, i + k)).collect() };
    // one plugin instance, same origin / destination, different routes: equal edge count (time-optimal then
    // distance-optimal on the diamond), then a different length, then the first route again
    add_seq(st, SeqCase { tables: vec![diamond_rows(0)], calls: vec![(0, via(&[0, 1], 0)), (0, via(&[2, 3], 0))], o: 0, d: 3 }, "seq_same_od_other_route");
    add_seq(
        st,
        SeqCase { tables: vec![diamond_rows(0)], calls: vec![(0, via(&[2, 3], 0)), (0, via(&[0, 1], 5)), (0, via(&[4], 0)), (0, via(&[2, 3], 0))], o: 0, d: 3 },
        "seq_same_od_other_route",
    );
    add_seq(
        st,
        SeqCase { tables: vec![diamond_rows(0)], calls: vec![(0, via(&[4], 0)), (0, via(&[0, 1], 0)), (0, via(&[1, 0], 0)), (0, via(&[0, 1], 0))], o: 2, d: 2 },
        "seq_same_od_other_route",
    );
    // the geometry file rewritten between two builds on the same path (same rows, other coordinates), first
    // plugins kept alive: each plugin renders the table of ITS build
    add_seq(
        st,
        SeqCase { tables: vec![diamond_rows(0), diamond_rows(100)], calls: vec![(0, via(&[0, 1], 0)), (1, via(&[0, 1], 0)), (0, via(&[2, 3], 0)), (1, via(&[2, 3], 0))], o: 0, d: 3 },
        "seq_rebuild_on_rewritten_path",
    );
    // rewritten with fewer rows (edge 4 loses its geometry), then with more rows again
    let mut short = diamond_rows(7);
    short.truncate(4);
    add_seq(
        st,
        SeqCase { tables: vec![diamond_rows(0), short, diamond_rows(-40)], calls: vec![(1, via(&[4], 0)), (0, via(&[4], 0)), (2, via(&[4], 0)), (1, via(&[2, 3], 0)), (2, via(&[2, 3], 0))], o: 0, d: 3 },
        "seq_rebuild_on_rewritten_path",
    );
    // identical contents rewritten: nothing to tell apart (control)
    add_seq(st, SeqCase { tables: vec![diamond_rows(3), diamond_rows(3)], calls: vec![(0, via(&[0, 1], 0)), (1, via(&[2, 3], 0))], o: 1, d: 3 }, "seq_rebuild_on_rewritten_path");
}
fn random_seq(r: &mut Rng) -> SeqCase {
    let nrows = r.range(3, 8) as usize;
    let nt = r.range(1, 3) as usize;
    let tables: Vec<Vec<Row>> = (0..nt).map(|_| gen_rows(r, nrows)).collect();
    let ncalls = r.range(2, 4) as usize;
    let len0 = r.range(1, 4) as usize;
    let calls = (0..ncalls)
        .map(|_| {
            let len = if r.chance(2, 3) { len0 } else { r.range(1, 5) as usize };
            let route: Vec<Trav> = (0..len)
                .map(|_| {
                    let extra = if r.chance(1, 10) { 1 } else { 0 };
                    let e = r.below(nrows as u64 + extra) as usize;
                    gen_trav(r, e)
                })
                .collect();
            (r.below(nt as u64) as usize, route)
        })
        .collect();
    SeqCase { tables, calls, o: r.below(4), d: r.below(4) }
}

// ---------------------------------------------------------------- Gallina emitters

fn coq_fmt_opt(f: &Option<Fmt>) -> String {
    coq_opt(f, |x| x.coq().to_string())
}
fn coq_trav(t: &Trav) -> String {
    format!(
        "(T {} {} {} {})",
        coq_nat(t.e),
        coq_z(t.a as i128),
        coq_z(t.t as i128),
        coq_list(&t.s, |v| coq_z(*v as i128))
    )
}
fn coq_case_args(c: &Case) -> String {
    let rows = coq_list(&c.rows, |r| match r {
        Row::Bad(_) => "None".to_string(),
        Row::Line(pts) => format!("(Some {})", coq_list(pts, |(x, y)| format!("({}, {})", coq_z(*x as i128), coq_z(*y as i128)))),
        Row::Bits(pts) => format!(
            "(Some {})",
            coq_list(pts, |(x, y)| format!(
                "({}, {})",
                coq_z(coord_label(f32::from_bits(*x)) as i128),
                coq_z(coord_label(f32::from_bits(*y)) as i128)
            ))
        ),
    });
    let uuids = coq_list(&c.uuids, |s| coq_string(s));
    let field = |f: &Field| match f {
        Field::Missing => "FMissing".to_string(),
        Field::Bad(_) => "FBad".to_string(),
        Field::Nat(n) => format!("(FNat {})", coq_nat(*n as usize)),
    };
    let req = match &c.req {
        Req::NotObject(_) => "ReqNotObject".to_string(),
        Req::Obj(o, d) => format!("(ReqObj {} {})", field(o), field(d)),
    };
    let sr = match &c.sr {
        None => "SErr".to_string(),
        Some((routes, trees)) => format!(
            "(SOk {} {})",
            coq_list(routes, |r| coq_list(r, coq_trav)),
            coq_list(trees, |t| coq_list(t, |b| format!("({}, B {} {})", coq_nat(b.key), coq_nat(b.tv), coq_trav(&b.tr))))
        ),
    };
    let chains = coq_list(&c.chains, |ch| {
        coq_list(ch, |p| match p {
            Pcfg::Traversal(rf, tf) => format!("CTraversal {} {}", coq_fmt_opt(rf), coq_fmt_opt(tf)),
            Pcfg::Uuid => "CUuid".to_string(),
            Pcfg::Summary => "CSummary".to_string(),
        })
    });
    format!("{} {} {} {} {} {} {}", rows, uuids, coq_bool(c.ucrlf), coq_bool(c.utrail), req, sr, chains)
}

// ---------------------------------------------------------------- cases

fn default_chains() -> Vec<Vec<Pcfg>> {
    let mut v: Vec<Vec<Pcfg>> = FORMATS.iter().map(|f| vec![Pcfg::Traversal(Some(*f), Some(*f))]).collect();
    v.push(vec![Pcfg::Summary]);
    v.push(vec![Pcfg::Uuid]);
    v
}

fn add_case(st: &mut Stream, mut c: Case, family: &str) {
    // an unterminated empty last row is not in the file at all: "a\n" + "" is the file "a\n"
    while !c.utrail && c.uuids.last().map(|r| r.is_empty()).unwrap_or(false) {
        c.uuids.pop();
        c.utrail = true;
    }
    let id = st.next_id();
    let args = coq_case_args(&c);
    let terms = vec![format!("line_m {} {}", id, args), format!("line_s {} {}", id, args)];
    let out = run_impl(&c, &st.dir.clone(), id);
    let desc = json!({"id": id, "family": family, "case": serde_json::to_value(&c).unwrap()});
    // ---- histogram / non-triviality
    st.count(&format!("family:{}", family));
    let rows_ok = c.rows.iter().all(|r| matches!(r, Row::Line(_) | Row::Bits(_)));
    let present = |e: usize| e < c.rows.len();
    let mut nontrivial = false;
    match &c.sr {
        None => st.count("search:error"),
        Some((routes, trees)) => {
            st.count(&format!("routes:{}", routes.len().min(3)));
            st.count(&format!("trees:{}", trees.len().min(3)));
            for r in routes {
                st.count(&format!("route_edges:{}", match r.len() { 0 => "0", 1 => "1", 2..=5 => "2-5", 6..=15 => "6-15", _ => "16-30" }));
                let missing = r.iter().filter(|t| !present(t.e)).count();
                st.count(&format!("route_missing_geometry:{}", missing.min(2)));
                let mut ids: Vec<usize> = r.iter().map(|t| t.e).collect();
                let sorted = ids.windows(2).all(|w| w[0] < w[1]);
                ids.sort();
                ids.dedup();
                if ids.len() < r.len() {
                    st.count("route_has_repeated_edge");
                }
                if !sorted && r.len() > 1 {
                    st.count("route_ids_not_increasing");
                }
                let distinct_geoms: std::collections::BTreeSet<String> =
                    r.iter().filter(|t| present(t.e)).map(|t| row_text(&c.rows[t.e])).collect();
                if r.len() >= 2 && distinct_geoms.len() >= 2 {
                    nontrivial = true;
                }
                if missing > 0 || r.is_empty() {
                    nontrivial = true;
                }
            }
            for t in trees {
                st.count(&format!("tree_branches:{}", match t.len() { 0 => "0", 1 => "1", 2..=10 => "2-10", 11..=30 => "11-30", _ => "31-60" }));
                let missing = t.iter().filter(|b| !present(b.tr.e)).count();
                st.count(&format!("tree_missing_geometry:{}", missing.min(2)));
                let mut ids: Vec<usize> = t.iter().map(|b| b.tr.e).collect();
                ids.sort();
                ids.dedup();
                if ids.len() < t.len() {
                    st.count("tree_has_shared_edge");
                }
                if t.iter().any(|b| number_of(b.tr.a) + number_of(b.tr.t) == 0.0) {
                    st.count("tree_has_zero_cost_branch");
                }
                if t.iter().any(|b| [L_TINY, L_NEG_TINY, L_NEG_ZERO].iter().any(|l| b.tr.a == *l || b.tr.t == *l)) {
                    st.count("tree_has_negzero_or_tiny_cost");
                }
                if t.len() >= 2 {
                    nontrivial = true;
                }
            }
        }
    }
    if !rows_ok {
        st.count("geometry_file:unparsable_row");
        nontrivial = true;
    }
    st.count(if c.gz { "geometry_file:gzip" } else { "geometry_file:plain" });
    for r in &c.rows {
        if let Row::Bits(p) = r {
            st.count(&format!("linestring_points:{}", p.len().min(6)));
            for (x, y) in p {
                for b in [x, y] {
                    let v = f32::from_bits(*b) as f64;
                    let dec = if (v * 1e3).fract() == 0.0 { "<=3" } else if (v * 1e6).fract() == 0.0 { "4-6" } else { ">6" };
                    st.count(&format!("ordinate_decimals:{}", dec));
                    if dec == ">6" {
                        nontrivial = true;
                    }
                }
            }
        }
        if let Row::Line(p) = r {
            st.count(&format!("linestring_points:{}", p.len().min(6)));
        }
    }
    let blank = |r: &String| r.trim().is_empty();
    if let Some(first_blank) = c.uuids.iter().position(blank) {
        st.count("uuid_file:has_blank_or_whitespace_row");
        if c.uuids[first_blank..].iter().any(|r| !blank(r)) {
            st.count("uuid_file:blank_row_before_an_identifier");
            if let Req::Obj(Field::Nat(o), Field::Nat(d)) = &c.req {
                if (*o.max(d) as usize) >= first_blank && (*o.max(d) as usize) < c.uuids.len() {
                    st.count("uuid_file:query_at_or_after_blank_row");
                    nontrivial = true;
                }
            }
        }
    }
    if c.uuids.iter().any(|r| !blank(r) && r.trim() != r) {
        st.count("uuid_file:row_with_surrounding_spaces");
    }
    st.count(if c.ucrlf { "uuid_file:crlf" } else { "uuid_file:lf" });
    st.count(if c.utrail { "uuid_file:terminated" } else { "uuid_file:unterminated" });
    match &c.req {
        Req::NotObject(_) => st.count("request:not_object"),
        Req::Obj(Field::Nat(o), Field::Nat(d)) => {
            let n = c.uuids.len() as u64;
            st.count(if *o < n && *d < n { "request:od_in_table" } else { "request:od_outside_table" });
            if o != d {
                st.count("request:o_ne_d");
            }
        }
        Req::Obj(_, _) => st.count("request:field_missing_or_bad"),
    }
    for s in out.split(" | ") {
        let k = if s.starts_with("ERR(") { s.to_string() } else { s.split(' ').next().unwrap_or("").to_string() };
        st.count(&format!("outcome:{}", k));
    }
    if nontrivial {
        st.count("nontrivial");
        st.mark_nontrivial(&serde_json::to_string(&c).unwrap());
    }
    st.case(terms, vec![format!("I {} {}", id, out)], desc);
}

// ---- generators
fn gen_line(r: &mut Rng, npts: usize) -> Vec<(i32, i32)> {
    (0..npts).map(|_| (r.range(-2048, 2048) as i32, r.range(-720, 720) as i32)).collect()
}
const SPECIAL_ORDINATES: [f32; 14] = [
    1e-7, 5.9604645e-8, 0.1, -0.30000001, 7.999999, 1.0000001, 0.000001, 0.0000005, -0.0000015, 123.456, -179.99999, 0.33333334, 3.1415927, -7.0000005,
];
/// an f32 that needs many decimals but prints / re-parses exactly: k/2^m with m <= 20 and |value| < 8, or a special value
fn gen_fine_ordinate(r: &mut Rng) -> u32 {
    if r.chance(1, 4) {
        return r.pick(&SPECIAL_ORDINATES).to_bits();
    }
    let m = r.range(4, 20) as u32;
    let lim = 8i64 << m;
    let k = r.range(-(lim - 1), lim - 1);
    (k as f32 / (1u32 << m) as f32).to_bits()
}
fn gen_rows(r: &mut Rng, n: usize) -> Vec<Row> {
    let fine = r.chance(1, 3);
    (0..n)
        .map(|_| {
            let k = r.range(2, 6) as usize;
            if fine && r.chance(3, 4) {
                Row::Bits((0..k).map(|_| (gen_fine_ordinate(r), gen_fine_ordinate(r))).collect())
            } else {
                Row::Line(gen_line(r, k))
            }
        })
        .collect()
}
/// deterministic rows with sub-microdegree detail: row i mixes k/2^m (m = 4 + 2 i) with the special values
fn fine_rows(n: usize) -> Vec<Row> {
    (0..n)
        .map(|i| {
            let m = (4 + 2 * i as u32).min(20);
            let d = (1u32 << m) as f32;
            let a = (3.0 + (2 * i + 1) as f32 / d).to_bits();
            let b = (-(1.0 + (2 * i + 3) as f32 / d)).to_bits();
            let s0 = SPECIAL_ORDINATES[(2 * i) % SPECIAL_ORDINATES.len()].to_bits();
            let s1 = SPECIAL_ORDINATES[(2 * i + 1) % SPECIAL_ORDINATES.len()].to_bits();
            Row::Bits(vec![(a, b), (s0, s1), (b, a)])
        })
        .collect()
}
fn gen_trav(r: &mut Rng, e: usize) -> Trav {
    // mostly positive costs; about one in five edges has zero / negative-zero / tiny / cancelling costs
    let (a, t) = match r.below(20) {
        0 | 1 => (0, 0),
        2 => (0, L_NEG_ZERO),
        3 => (L_NEG_ZERO, L_NEG_ZERO),
        4 => (0, L_TINY),
        5 => (L_TINY, L_NEG_TINY),
        6 => (3, -3),
        _ => (r.range(0, 9), r.range(1, 99)),
    };
    Trav { e, a, t, s: vec![r.range(0, 999)] }
}
fn gen_uuids(r: &mut Rng, n: usize) -> Vec<String> {
    let sparse = r.chance(1, 2);
    let mut v: Vec<String> = vec![];
    for i in 0..n {
        let plain = format!("id-{}-{:x}", i, r.below(0xffff));
        let row = if !sparse {
            plain
        } else {
            match r.below(12) {
                0 | 1 => String::new(),
                2 => " ".repeat(r.range(1, 3) as usize),
                3 => "\t".to_string(),
                4 => format!(" {}", plain),
                5 => format!("{}  ", plain),
                6 if i > 0 => v[r.below(i as u64) as usize].clone(),
                _ => plain,
            }
        };
        v.push(row);
    }
    v
}
fn simple_req(o: u64, d: u64) -> Req {
    Req::Obj(Field::Nat(o), Field::Nat(d))
}
/// rows with distinct, recognisable geometries: edge i runs from (16 i, i) over i % 3 interior points
fn ladder_rows(n: usize) -> Vec<Row> {
    (0..n)
        .map(|i| {
            let i = i as i32;
            let mut pts = vec![(16 * i, i)];
            for j in 0..(i % 3) {
                pts.push((16 * i + 4 + j, i + 1 + j));
            }
            pts.push((16 * i + 16, i + 1));
            Row::Line(pts)
        })
        .collect()
}
fn trav_det(e: usize, i: usize) -> Trav {
    Trav { e, a: (i % 4) as i64, t: (10 + i) as i64, s: vec![(100 + 7 * i) as i64] }
}
fn base_case(rows: Vec<Row>, routes: Vec<Vec<Trav>>, trees: Vec<Vec<Branch>>) -> Case {
    Case {
        rows,
        gz: false,
        uuids: (0..6).map(|i| format!("uuid-{}", i)).collect(),
        ucrlf: false,
        utrail: true,
        req: simple_req(1, 4),
        sr: Some((routes, trees)),
        chains: default_chains(),
    }
}

fn boundary_cases(st: &mut Stream, thorough: bool) {
    // single edge; every route length 1..30 with ids descending (position != id) and ascending
    for n in [1usize, 2, 3, 4, 5, 8, 13, 21, 30] {
        let rows = ladder_rows(n);
        let desc: Vec<Trav> = (0..n).map(|i| trav_det(n - 1 - i, i)).collect();
        add_case(st, base_case(rows.clone(), vec![desc], vec![]), "route_descending_ids");
        let asc: Vec<Trav> = (0..n).map(|i| trav_det(i, i)).collect();
        add_case(st, base_case(rows, vec![asc], vec![]), "route_ascending_ids");
    }
    // coordinates below 1e-6: every format must hand back the stored f32 values bit for bit
    for n in [1usize, 2, 5, 9] {
        let route: Vec<Trav> = (0..n).map(|i| trav_det(n - 1 - i, i)).collect();
        let tree: Vec<Branch> = (0..n).map(|i| Branch { key: i + 1, tv: i / 2, tr: trav_det(i, i) }).collect();
        add_case(st, base_case(fine_rows(n), vec![route], vec![tree]), "fine_coordinates");
    }
    for (i, v) in SPECIAL_ORDINATES.iter().enumerate() {
        let w = SPECIAL_ORDINATES[(i + 5) % SPECIAL_ORDINATES.len()];
        let rows = vec![Row::Bits(vec![(v.to_bits(), w.to_bits()), (w.to_bits(), v.to_bits())]), Row::Line(vec![(1, 2), (3, 4)])];
        add_case(st, base_case(rows, vec![vec![trav_det(1, 0), trav_det(0, 1)]], vec![]), "fine_coordinates");
    }
    // repeated edges, and a route over a table larger than the route
    add_case(
        st,
        base_case(ladder_rows(6), vec![[0usize, 1, 0, 1, 2, 2, 5].iter().enumerate().map(|(i, e)| trav_det(*e, i)).collect()], vec![]),
        "route_repeated_edges",
    );
    add_case(st, base_case(ladder_rows(40), vec![[39usize, 17, 3].iter().enumerate().map(|(i, e)| trav_det(*e, i)).collect()], vec![]), "route_sparse_ids");
    // a missing geometry at every position of routes up to length L: the edge id is exactly the
    // number of rows (first id without a row) or far beyond it
    let maxlen = if thorough { 6 } else { 4 };
    for n in 1..=maxlen {
        for pos in 0..n {
            for beyond in [0usize, 7] {
                let rows = ladder_rows(n);
                let route: Vec<Trav> = (0..n).map(|i| trav_det(if i == pos { n + beyond } else { (i + 1) % n }, i)).collect();
                add_case(st, base_case(rows, vec![route], vec![]), "route_missing_each_position");
            }
        }
    }
    if thorough {
        // every subset of missing positions for routes up to length 6
        for n in 1..=6usize {
            for mask in 1u32..(1 << n) {
                let route: Vec<Trav> = (0..n).map(|i| trav_det(if mask >> i & 1 == 1 { n + i } else { i }, i)).collect();
                add_case(st, base_case(ladder_rows(n), vec![route], vec![]), "route_missing_every_subset");
            }
        }
    }
    // two missing; empty table; table of one row
    add_case(st, base_case(ladder_rows(3), vec![[0usize, 3, 1, 9, 2].iter().enumerate().map(|(i, e)| trav_det(*e, i)).collect()], vec![]), "route_two_missing");
    add_case(st, base_case(vec![], vec![vec![trav_det(0, 0)]], vec![]), "empty_geometry_table");
    add_case(st, base_case(ladder_rows(1), vec![vec![trav_det(0, 0), trav_det(0, 1), trav_det(1, 2)]], vec![]), "one_row_table");
    // degenerate linestrings: no point, one point (a tree branch on a zero-point row is left out: the wkt
    // crate writes MULTILINESTRING(()) for it, which its own parser rejects)
    add_case(
        st,
        base_case(vec![Row::Line(vec![]), Row::Line(vec![(8, 8)]), Row::Line(vec![(1, 2), (3, 4)])], vec![(0..3).map(|i| trav_det(i, i)).collect()], vec![]),
        "degenerate_linestrings",
    );
    add_case(
        st,
        base_case(vec![Row::Line(vec![(8, 8)]), Row::Line(vec![(1, 2), (3, 4)])], vec![vec![trav_det(0, 0)]], vec![vec![Branch { key: 1, tv: 0, tr: trav_det(0, 0) }]]),
        "degenerate_linestrings",
    );
    // number of routes: none, two, three; an empty route alone, first, last
    let r3 = |k: usize| -> Vec<Trav> { (0..3).map(|i| trav_det((i + k) % 4, i + k)).collect() };
    add_case(st, base_case(ladder_rows(4), vec![], vec![]), "no_route_no_tree");
    add_case(st, base_case(ladder_rows(4), vec![r3(0), r3(1)], vec![]), "two_routes");
    add_case(st, base_case(ladder_rows(4), vec![r3(0), r3(1), r3(2)], vec![]), "three_routes");
    add_case(st, base_case(ladder_rows(4), vec![vec![]], vec![]), "empty_route");
    add_case(st, base_case(ladder_rows(4), vec![vec![], r3(0)], vec![]), "empty_route");
    add_case(st, base_case(ladder_rows(4), vec![r3(0), vec![]], vec![]), "empty_route");
    // error precedence between routes: missing geometry before / after an empty route
    add_case(st, base_case(ladder_rows(2), vec![r3(0), vec![]], vec![]), "error_precedence");
    add_case(st, base_case(ladder_rows(2), vec![vec![], r3(0)], vec![]), "error_precedence");
    // last edge's state vector: empty (cost serialisation fails), two entries (first one shown)
    let mut c = base_case(ladder_rows(4), vec![r3(0)], vec![]);
    if let Some((routes, _)) = &mut c.sr {
        routes[0][2].s = vec![];
    }
    add_case(st, c.clone(), "last_state_empty");
    if let Some((routes, _)) = &mut c.sr {
        routes[0][2].s = vec![5, 6];
        routes[0][0].s = vec![];
    }
    add_case(st, c, "last_state_two_entries");
    // trees: 0, 1, 2, 60 branches; branches sharing an edge; branches without geometry
    let branches = |n: usize, edge: &dyn Fn(usize) -> usize| -> Vec<Branch> {
        (0..n).map(|i| Branch { key: i + 1, tv: i / 2, tr: trav_det(edge(i), i) }).collect()
    };
    for n in [0usize, 1, 2, 3, 10, 60] {
        add_case(st, base_case(ladder_rows(n.max(1)), vec![], vec![branches(n, &|i| i)]), "tree_sizes");
    }
    // branches without cost: the zero-cost root branch an edge-oriented tree-only query inserts for its
    // origin edge, zero-length edges, negative zero, tiny and cancelling costs - still one entry each
    let costs: [(i64, i64); 8] = [(0, 0), (0, L_NEG_ZERO), (L_NEG_ZERO, L_NEG_ZERO), (0, L_TINY), (L_TINY, L_NEG_TINY), (3, -3), (L_NEG_TINY, 0), (0, 1)];
    for n in [1usize, 4] {
        for zero_at in 0..n {
            for (a, t) in costs.iter().take(if n == 1 { 8 } else { 3 }) {
                let mut bs = branches(n, &|i| i % 3);
                bs[zero_at].tr.a = *a;
                bs[zero_at].tr.t = *t;
                add_case(st, base_case(ladder_rows(3), vec![], vec![bs]), "tree_zero_cost_branch");
            }
        }
    }
    {
        let mut bs = branches(6, &|i| i % 3);
        for (i, b) in bs.iter_mut().enumerate() {
            b.tr.a = costs[i].0;
            b.tr.t = costs[i].1;
        }
        add_case(st, base_case(ladder_rows(3), vec![], vec![bs.clone(), branches(2, &|i| i)]), "tree_zero_cost_branch");
        let route: Vec<Trav> = bs.iter().map(|b| b.tr.clone()).collect();
        add_case(st, base_case(ladder_rows(3), vec![route], vec![bs]), "route_zero_cost_edges");
    }
    add_case(st, base_case(ladder_rows(3), vec![], vec![branches(7, &|i| i % 3)]), "tree_shared_edges");
    add_case(st, base_case(ladder_rows(3), vec![], vec![branches(2, &|_| 1)]), "tree_shared_edges");
    add_case(st, base_case(ladder_rows(3), vec![], vec![branches(4, &|i| i)]), "tree_missing_geometry");
    add_case(st, base_case(ladder_rows(3), vec![], vec![branches(5, &|i| if i == 0 { 9 } else { i % 3 })]), "tree_missing_geometry");
    add_case(st, base_case(ladder_rows(3), vec![], vec![branches(2, &|i| i), branches(3, &|i| 2 - i)]), "two_trees");
    add_case(st, base_case(ladder_rows(3), vec![], vec![branches(0, &|i| i), branches(0, &|i| i)]), "two_empty_trees");
    add_case(st, base_case(ladder_rows(3), vec![], vec![branches(0, &|i| i), branches(1, &|i| i), branches(2, &|i| i)]), "three_trees");
    add_case(st, base_case(ladder_rows(3), vec![r3(0)], vec![branches(3, &|i| i), branches(2, &|_| 5)]), "route_ok_second_tree_missing");
    // identifier lookup: first, last, one past the end, origin = destination, swapped pair
    let with_req = |req: Req| -> Case {
        let mut c = base_case(ladder_rows(4), vec![r3(0)], vec![branches(2, &|i| i)]);
        c.req = req;
        c
    };
    for (o, d) in [(0u64, 5u64), (5, 0), (2, 2), (6, 0), (0, 6), (6, 7), (1, 4), (4, 1), (u64::MAX, 0)] {
        if o == u64::MAX {
            continue; // a nat of that size cannot be written as a Gallina numeral cheaply
        }
        add_case(st, with_req(simple_req(o, d)), "uuid_positions");
    }
    let mut c = with_req(simple_req(0, 0));
    c.uuids = vec![];
    add_case(st, c, "uuid_empty_table");
    let mut c = with_req(simple_req(0, 2));
    c.uuids = vec!["same".into(), "same".into(), "other".into()];
    add_case(st, c, "uuid_duplicate_rows");
    for bad in [json!(-1), json!(1.5), json!(2.0), json!("3"), Value::Null, json!([1]), json!(true)] {
        add_case(st, with_req(Req::Obj(Field::Bad(bad.clone()), Field::Nat(1))), "request_bad_origin");
        add_case(st, with_req(Req::Obj(Field::Nat(1), Field::Bad(bad))), "request_bad_destination");
    }
    add_case(st, with_req(Req::Obj(Field::Missing, Field::Nat(1))), "request_missing_field");
    add_case(st, with_req(Req::Obj(Field::Nat(1), Field::Missing)), "request_missing_field");
    add_case(st, with_req(Req::Obj(Field::Missing, Field::Missing)), "request_missing_field");
    add_case(st, with_req(Req::Obj(Field::Bad(json!("x")), Field::Nat(99))), "request_error_precedence");
    add_case(st, with_req(Req::Obj(Field::Nat(99), Field::Bad(json!("x")))), "request_error_precedence");
    for v in [json!(5), json!("query"), json!([{"origin_vertex": 0, "destination_vertex": 1}]), Value::Null] {
        add_case(st, with_req(Req::NotObject(v)), "request_not_object");
    }
    // the identifier file: blank / whitespace-only rows at the start, in the middle, at the end, rows with
    // surrounding spaces, duplicates; LF / CRLF; terminated or not; queries at and after the blank row.
    // Row i is vertex i whatever the row contains.
    let tables: Vec<Vec<&str>> = vec![
        vec!["id-A", "id-B", "", "id-D", "id-E"],
        vec!["", "id-B", "id-C", "id-D", "id-E"],
        vec!["id-A", "id-B", "id-C", "id-D", ""],
        vec!["id-A", "", "", "id-D", "id-E"],
        vec!["id-A", "   ", "id-C", "\t", "id-E"],
        vec!["id-A", " id-B", "id-C ", "  id-D  ", "id-E"],
        vec!["id-A", "id-A", "", "id-A", "id-E"],
        vec!["", "", "", "", "id-E"],
        vec!["", " ", "", "  ", ""],
        vec!["id-A", "id-B", "id-C", "id-D", "id-E", "", ""],
    ];
    let queries = [(0u64, 4u64), (0, 3), (1, 2), (3, 4), (2, 2), (4, 0), (5, 0)];
    for (i, t) in tables.iter().enumerate() {
        for (j, (o, d)) in queries.iter().enumerate() {
            let mut c = with_req(simple_req(*o, *d));
            c.uuids = t.iter().map(|x| x.to_string()).collect();
            c.ucrlf = (i + j) % 2 == 1;
            c.utrail = (i + j) % 4 < 2;
            c.gz = (i + j) % 5 == 0;
            c.chains = vec![vec![Pcfg::Uuid], vec![Pcfg::Summary, Pcfg::Uuid]];
            add_case(st, c, "uuid_file_blank_rows");
        }
    }
    // the geometry file: gzip with and without the .gz extension; unparsable rows never shift ids
    for id_parity in 0..2 {
        let mut c = base_case(ladder_rows(5), vec![(0..5).map(|i| trav_det(4 - i, i)).collect()], vec![branches(3, &|i| i + 1)]);
        c.gz = true;
        let _ = id_parity;
        add_case(st, c, "gzip_geometry_file");
    }
    for (pos, text) in [(0usize, ""), (2, ""), (4, ""), (1, "POINT (1 2)"), (3, "not a geometry"), (2, "LINESTRING (1 2, x 4)"), (0, "POLYGON ((0 0, 1 0, 1 1, 0 0))")] {
        let mut rows = ladder_rows(4);
        rows.insert(pos, Row::Bad(text.to_string()));
        let mut c = base_case(rows, vec![r3(0)], vec![branches(2, &|i| i)]);
        c.gz = pos == 4;
        add_case(st, c, "unparsable_geometry_row");
    }
    // the search failed
    let mut c = base_case(ladder_rows(3), vec![], vec![]);
    c.sr = None;
    add_case(st, c.clone(), "search_error");
    c.rows.push(Row::Bad(String::new()));
    add_case(st, c, "search_error");
    // chains: every order of the three plugins, optional formats
    let perms: [[usize; 3]; 6] = [[0, 1, 2], [0, 2, 1], [1, 0, 2], [1, 2, 0], [2, 0, 1], [2, 1, 0]];
    for (k, p) in perms.iter().enumerate() {
        let pl = [Pcfg::Traversal(Some(FORMATS[k % 5]), Some(FORMATS[(k + 2) % 5])), Pcfg::Uuid, Pcfg::Summary];
        let chain: Vec<Pcfg> = p.iter().map(|i| pl[*i].clone()).collect();
        // all fine / geometry missing / identifier missing / both
        for (missing_geom, missing_uuid) in [(false, false), (true, false), (false, true), (true, true)] {
            let mut c = base_case(
                ladder_rows(4),
                vec![(0..4).map(|i| trav_det(if missing_geom && i == 2 { 4 } else { 3 - i }, i)).collect()],
                vec![branches(3, &|i| if missing_geom { i + 2 } else { i })],
            );
            c.req = simple_req(if missing_uuid { 6 } else { 3 }, 0);
            c.chains = vec![chain.clone(), vec![Pcfg::Traversal(None, Some(Fmt::Wkb)), Pcfg::Summary], vec![Pcfg::Traversal(Some(Fmt::GeoJson), None)], vec![Pcfg::Traversal(None, None)], vec![]];
            add_case(st, c, "plugin_chains");
        }
    }
}

fn random_case(r: &mut Rng) -> Case {
    let nrows = match r.below(10) {
        0 => r.range(0, 2) as usize,
        1..=6 => r.range(3, 12) as usize,
        _ => r.range(13, 40) as usize,
    };
    let rows = gen_rows(r, nrows);
    // edge ids: mostly present; 0-2 edges without a row in about a third of the cases
    let n_missing = if r.chance(1, 3) { r.range(1, 2) as usize } else { 0 };
    let pick_edge = |r: &mut Rng| -> usize { if nrows == 0 { 0 } else { r.below(nrows as u64) as usize } };
    let gen_route = |r: &mut Rng, missing: usize| -> Vec<Trav> {
        let len = match r.below(10) {
            0 => 1,
            1..=6 => r.range(2, 8) as usize,
            7 | 8 => r.range(9, 18) as usize,
            _ => r.range(19, 30) as usize,
        };
        let mut ids: Vec<usize> = if nrows == 0 { vec![] } else { (0..len).map(|_| pick_edge(r)).collect() };
        if nrows > 0 && r.chance(1, 4) && len >= 2 {
            // a repeated edge
            let i = r.below(len as u64) as usize;
            let j = r.below(len as u64) as usize;
            ids[i] = ids[j];
        }
        if nrows == 0 {
            ids = (0..len).map(|_| r.below(3) as usize).collect();
        }
        for _ in 0..missing {
            let i = r.below(ids.len() as u64) as usize;
            ids[i] = nrows + if r.chance(1, 2) { 0 } else { r.below(5) as usize };
        }
        ids.into_iter().map(|e| gen_trav(r, e)).collect()
    };
    let n_routes = match r.below(12) {
        0 => 0,
        1 => 2,
        2 => 3,
        _ => 1,
    };
    let miss_route = if n_missing > 0 && r.chance(2, 3) { r.below(n_routes.max(1) as u64) as usize } else { usize::MAX };
    let routes: Vec<Vec<Trav>> = (0..n_routes).map(|i| gen_route(r, if i == miss_route { n_missing } else { 0 })).collect();
    let n_trees = match r.below(10) {
        0 => 0,
        1 => 2,
        _ => 1,
    };
    let miss_tree = n_missing > 0 && miss_route == usize::MAX;
    let trees: Vec<Vec<Branch>> = (0..n_trees)
        .map(|ti| {
            let n = match r.below(10) {
                0 => 0,
                1..=6 => r.range(1, 10) as usize,
                7 | 8 => r.range(11, 30) as usize,
                _ => r.range(31, 60) as usize,
            };
            let mut keys: Vec<usize> = (0..(n + 5)).collect();
            r.shuffle(&mut keys);
            let mut t: Vec<Branch> = (0..n)
                .map(|i| {
                    let e = if nrows == 0 { 0 } else { r.below(nrows as u64) as usize };
                    Branch { key: keys[i], tv: r.below(n as u64 + 3) as usize, tr: gen_trav(r, e) }
                })
                .collect();
            if (miss_tree && ti == 0 || nrows == 0) && n > 0 {
                for _ in 0..n_missing.max(1) {
                    let i = r.below(n as u64) as usize;
                    t[i].tr.e = nrows + r.below(3) as usize;
                }
            }
            t
        })
        .collect();
    let n_uuid = r.range(1, 12) as usize;
    let uuids = gen_uuids(r, n_uuid);
    let req = match r.below(12) {
        0 => Req::Obj(Field::Nat(n_uuid as u64 + r.below(2)), Field::Nat(r.below(n_uuid as u64))),
        1 => Req::Obj(Field::Nat(r.below(n_uuid as u64)), Field::Nat(n_uuid as u64 + r.below(2))),
        2 => Req::Obj(Field::Nat(r.below(n_uuid as u64)), Field::Missing),
        3 => Req::Obj(Field::Bad(json!(-(r.range(1, 9)))), Field::Nat(r.below(n_uuid as u64))),
        _ => simple_req(r.below(n_uuid as u64), r.below(n_uuid as u64)),
    };
    let mut chains = default_chains();
    // one full chain in random order with independently optional formats
    let mut full = vec![
        Pcfg::Traversal(if r.chance(4, 5) { Some(*r.pick(&FORMATS)) } else { None }, if r.chance(4, 5) { Some(*r.pick(&FORMATS)) } else { None }),
        Pcfg::Uuid,
        Pcfg::Summary,
    ];
    r.shuffle(&mut full);
    chains.push(full);
    let mut c = Case { rows, gz: r.chance(1, 3), uuids, ucrlf: r.chance(1, 4), utrail: r.chance(3, 4), req, sr: Some((routes, trees)), chains };
    if r.chance(1, 40) {
        c.sr = None;
    }
    if r.chance(1, 40) && !c.rows.is_empty() {
        let i = r.below(c.rows.len() as u64) as usize;
        c.rows[i] = Row::Bad(r.pick(&["", "POINT (0 0)", "LINESTRING (0 0, 1)"]).to_string());
    }
    c
}

fn main() {
    silence_panics();
    // the output code may render on the rayon pool: never let the environment pin it to one thread
    let threads = std::thread::available_parallelism().map(|n| n.get()).unwrap_or(4).max(4);
    let _ = rayon::ThreadPoolBuilder::new().num_threads(threads).build_global();
    let a = parse_args();
    let header = "From Coq Require Import ZArith List String.\nFrom RC Require Import Base.Show Base.Res Model.Output Model.OutputRun.\nImport ListNotations.\nImport OUT.\nOpen Scope Z_scope.";
    let mut st = Stream::new(&a.out, "output", header, a.shards);
    if let Some(p) = &a.replay {
        st.full = true;
        let v: Value = serde_json::from_str(&std::fs::read_to_string(p).unwrap()).unwrap();
        if let Some(cases) = v.get("cases").and_then(|c| c.as_array()) {
            // a corpus file: {"cases": [{"name": .., "why": .., "case": <Case>}, ..]}
            for d in cases {
                let name = format!("corpus:{}", d["name"].as_str().unwrap_or("?"));
                if d.get("long").is_some() {
                    add_long(&mut st, serde_json::from_value(d["long"].clone()).unwrap(), &name);
                } else if d.get("seq").is_some() {
                    add_seq(&mut st, serde_json::from_value(d["seq"].clone()).unwrap(), &name);
                } else {
                    let c: Case = serde_json::from_value(d["case"].clone()).unwrap();
                    add_case(&mut st, c, &name);
                }
            }
        } else if v["case"].get("seq").is_some() {
            add_seq(&mut st, serde_json::from_value(v["case"]["seq"].clone()).unwrap(), "replay");
        } else if v["case"].get("long").is_some() {
            add_long(&mut st, serde_json::from_value(v["case"]["long"].clone()).unwrap(), "replay");
        } else {
            let c: Case = serde_json::from_value(v["case"]["case"].clone()).unwrap();
            add_case(&mut st, c, "replay");
        }
        st.finish();
        return;
    }
    let thorough = a.extra.iter().any(|x| x == "--thorough");
    boundary_cases(&mut st, thorough);
    seq_boundary_cases(&mut st);
    let mut rng = Rng::new(a.seed);
    // long routes are spread over the stream (one per shard of the model evaluation)
    let mut long = long_cases(thorough, &mut rng.fork());
    long.reverse();
    let random_start = st.next_id();
    let stride = ((a.n.saturating_sub(random_start)) / (long.len() + 1)).max(1);
    while st.next_id() < a.n || !long.is_empty() {
        if !long.is_empty() && (st.next_id() >= a.n || (st.next_id() - random_start) % stride == stride - 1) {
            add_long(&mut st, long.pop().unwrap(), "long_route");
            continue;
        }
        let mut r = rng.fork();
        if r.chance(1, 12) {
            let q = random_seq(&mut r);
            add_seq(&mut st, q, "random_sequence");
            continue;
        }
        let c = random_case(&mut r);
        add_case(&mut st, c, "random");
    }
    st.finish();
}
